"""qv - property-based verification harness for vleplat/QuatIca (see /verif/DESIGN.md)."""
