"""Locate and import the code under test.

Everything is imported *flat-module style* straight from the working tree of the
repository (QV_REPO, default /repo): <repo>/quatica first on sys.path, then <repo>.
There is no build step (pure Python); importing from the working tree *is* the
rebuild.  After import every library module's __file__ is checked to lie under
QV_REPO so that a stale copy can never be tested silently.
"""
import os
import sys

for _v in ("OMP_NUM_THREADS", "OPENBLAS_NUM_THREADS", "MKL_NUM_THREADS", "NUMEXPR_NUM_THREADS"):
    os.environ.setdefault(_v, "1")
os.environ.setdefault("MPLBACKEND", "Agg")
os.environ.setdefault("QUATICA_VERIF", "1")

VERIF = os.path.dirname(os.path.dirname(os.path.abspath(__file__)))
REPO = os.path.realpath(os.environ.get("QV_REPO", "/repo"))


class HarnessError(Exception):
    """Something is wrong with the harness/environment - never a violation."""


class _Lib:
    pass


L = _Lib()
_loaded = False


def load():
    """Import the library under test; idempotent."""
    global _loaded
    if _loaded:
        return L
    qdir = os.path.join(REPO, "quatica")
    if not os.path.isdir(qdir):
        raise HarnessError(f"no quatica/ under QV_REPO={REPO}")
    # make sure our paths win over the editable-install .pth entry
    for p in (REPO, qdir):
        while p in sys.path:
            sys.path.remove(p)
    sys.path.insert(0, REPO)
    sys.path.insert(0, qdir)
    import importlib
    import warnings

    import numpy as _np
    warnings.simplefilter("ignore")          # library RuntimeWarnings (0/0, overflow) are judged by the oracles, not printed
    _np.seterr(all="ignore")

    names = {
        "utils": "utils",
        "solver": "solver",
        "data_gen": "data_gen",
        "tensor": "tensor",
        "qslst": "qslst",
        "decomp": "decomp",
        "qsvd": "decomp.qsvd",
        "LU": "decomp.LU",
        "eigen": "decomp.eigen",
        "tridiag": "decomp.tridiagonalize",
        "hessenberg": "decomp.hessenberg",
        "schur": "decomp.schur",
    }
    for attr, modname in names.items():
        try:
            mod = importlib.import_module(modname)
        except Exception as e:  # the tree does not import: harness error, not a violation
            raise HarnessError(f"cannot import {modname} from {REPO}: {e!r}")
        f = os.path.realpath(getattr(mod, "__file__", "") or "")
        if not f.startswith(REPO + os.sep):
            raise HarnessError(f"module {modname} loaded from {f}, not from {REPO}")
        setattr(L, attr, mod)
    _loaded = True
    return L


def load_app_deblur():
    """Import the deblurring application script (for its BCCB builders)."""
    load()
    import importlib.util

    path = os.path.join(REPO, "applications", "image_deblurring", "script_image_deblurring.py")
    spec = importlib.util.spec_from_file_location("qv_app_deblur", path)
    mod = importlib.util.module_from_spec(spec)
    try:
        spec.loader.exec_module(mod)
    except Exception as e:
        raise HarnessError(f"cannot import deblurring application: {e!r}")
    return mod
