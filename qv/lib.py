"""Glue between the harness representation ((m,n,4) float arrays) and the library's types."""
import hashlib

import numpy as np
import quaternion  # third-party numpy-quaternion dtype (trusted base, not code under test)
from scipy import sparse as sp

from .env import L, load


class MalformedResult(Exception):
    """A value handed back by the library cannot be read as the quaternion array / matrix it is supposed to be (planes
    of different shapes, wrong dtype, ...).  The runner reports it as a property failure, not as a harness error."""


def Q(A):
    """(..., 4) float array -> fresh np.quaternion array."""
    return quaternion.as_quat_array(np.array(A, dtype=float, order="C", copy=True))


def F(Aq):
    """np.quaternion array -> fresh (..., 4) float array."""
    try:
        return np.array(quaternion.as_float_array(Aq), dtype=float, copy=True)
    except Exception as e:  # noqa: BLE001
        raise MalformedResult(f"not a quaternion array: {type(Aq).__name__} ({type(e).__name__}: {e})"[:300]) from e


def S(A):
    """(m,n,4) float array -> library SparseQuaternionMatrix."""
    load()
    A = np.asarray(A, dtype=float)
    return L.utils.SparseQuaternionMatrix(
        sp.csr_matrix(A[..., 0]), sp.csr_matrix(A[..., 1]), sp.csr_matrix(A[..., 2]), sp.csr_matrix(A[..., 3]),
        A.shape[:2])


def SF(Sm):
    """SparseQuaternionMatrix -> (m,n,4) float array."""
    try:
        planes = [np.asarray(p.toarray(), dtype=float) for p in (Sm.real, Sm.i, Sm.j, Sm.k)]
        shp = tuple(getattr(Sm, "shape", planes[0].shape))
        if any(p.shape != shp for p in planes):
            raise ValueError(f"component planes of shapes {[p.shape for p in planes]} in a matrix that reports shape {shp}")
        return np.stack(planes, axis=-1)
    except Exception as e:  # noqa: BLE001
        raise MalformedResult(f"malformed SparseQuaternionMatrix ({type(e).__name__}: {e})"[:300]) from e


def to_float(X):
    load()
    if isinstance(X, L.utils.SparseQuaternionMatrix):
        return SF(X)
    X = np.asarray(X)
    if X.dtype == np.quaternion:
        return F(X)
    try:
        return np.array(X, dtype=float)
    except Exception as e:  # noqa: BLE001
        raise MalformedResult(f"not a numeric array: {type(X).__name__} ({type(e).__name__}: {e})"[:300]) from e


def case_flag(A, one_in=4, salt=0):
    """A yes/no option value derived from the case's own bytes (a pure function of the input, so replay reproduces
    it): lets a check exercise a non-default option such as verbose=True on one case in `one_in` without changing
    the generator."""
    import zlib
    return (zlib.crc32(np.ascontiguousarray(np.asarray(A, dtype=float)).tobytes()) + salt) % one_in == 0


def quiet(fn, *a, **kw):
    """Call library code with its print() output dropped (verbose paths, warnings printed by guards)."""
    import contextlib
    import io
    with contextlib.redirect_stdout(io.StringIO()):
        return fn(*a, **kw)


def ahash(x):
    """Byte hash of an argument (dense ndarray of any dtype, or a sparse quaternion matrix)."""
    load()
    h = hashlib.sha1()
    if isinstance(x, L.utils.SparseQuaternionMatrix):
        for pl in (x.real, x.i, x.j, x.k):
            h.update(np.ascontiguousarray(pl.data).tobytes())
            h.update(np.ascontiguousarray(pl.indices).tobytes())
            h.update(np.ascontiguousarray(pl.indptr).tobytes())
        h.update(repr(tuple(x.shape)).encode())
    elif isinstance(x, np.ndarray):
        h.update(str(x.dtype).encode())
        h.update(repr(x.shape).encode())
        h.update(np.ascontiguousarray(x).tobytes())
    elif hasattr(x, "getformat") and hasattr(x, "tocoo"):
        # a scipy sparse matrix handed to the library by the caller: its STORAGE (not only its value) is the caller's
        h.update(("scipy:" + x.getformat() + repr(tuple(x.shape))).encode())
        for nm in ("data", "indices", "indptr", "row", "col", "offsets"):
            v = getattr(x, nm, None)
            if isinstance(v, np.ndarray):
                h.update(nm.encode() + str(v.dtype).encode() + repr(v.shape).encode() + np.ascontiguousarray(v).tobytes())
    elif isinstance(x, (list, tuple)):
        for v in x:
            h.update(ahash(v).encode())
    else:
        h.update(repr(x).encode())
    return h.hexdigest()


def finite(X):
    return bool(np.all(np.isfinite(np.asarray(X, dtype=float))))
