"""Glue between the harness representation ((m,n,4) float arrays) and the library's types."""
import hashlib

import numpy as np
import quaternion  # third-party numpy-quaternion dtype (trusted base, not code under test)
from scipy import sparse as sp

from .env import L, load


def Q(A):
    """(..., 4) float array -> fresh np.quaternion array."""
    return quaternion.as_quat_array(np.array(A, dtype=float, order="C", copy=True))


def F(Aq):
    """np.quaternion array -> fresh (..., 4) float array."""
    return np.array(quaternion.as_float_array(Aq), dtype=float, copy=True)


def S(A):
    """(m,n,4) float array -> library SparseQuaternionMatrix."""
    load()
    A = np.asarray(A, dtype=float)
    return L.utils.SparseQuaternionMatrix(
        sp.csr_matrix(A[..., 0]), sp.csr_matrix(A[..., 1]), sp.csr_matrix(A[..., 2]), sp.csr_matrix(A[..., 3]),
        A.shape[:2])


def SF(Sm):
    """SparseQuaternionMatrix -> (m,n,4) float array."""
    return np.stack([Sm.real.toarray(), Sm.i.toarray(), Sm.j.toarray(), Sm.k.toarray()], axis=-1).astype(float)


def to_float(X):
    load()
    if isinstance(X, L.utils.SparseQuaternionMatrix):
        return SF(X)
    X = np.asarray(X)
    if X.dtype == np.quaternion:
        return F(X)
    return np.array(X, dtype=float)


def ahash(x):
    """Byte hash of an argument (dense ndarray of any dtype, or a sparse quaternion matrix)."""
    load()
    h = hashlib.sha1()
    if isinstance(x, L.utils.SparseQuaternionMatrix):
        for pl in (x.real, x.i, x.j, x.k):
            h.update(np.ascontiguousarray(pl.data).tobytes())
            h.update(np.ascontiguousarray(pl.indices).tobytes())
            h.update(np.ascontiguousarray(pl.indptr).tobytes())
        h.update(repr(tuple(x.shape)).encode())
    elif isinstance(x, np.ndarray):
        h.update(str(x.dtype).encode())
        h.update(repr(x.shape).encode())
        h.update(np.ascontiguousarray(x).tobytes())
    elif isinstance(x, (list, tuple)):
        for v in x:
            h.update(ahash(v).encode())
    else:
        h.update(repr(x).encode())
    return h.hexdigest()


def finite(X):
    return bool(np.all(np.isfinite(np.asarray(X, dtype=float))))
