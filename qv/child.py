"""Subprocess worker for the import-style differential (C14).

usage: python child.py <package|flat> <repo> <jobfile.json> <outfile.json>

Executes a list of operations on exactly specified inputs in a FRESH interpreter that has imported
the library either as a package (`import quatica`, `from quatica.decomp import ...`; only <repo> on
sys.path) or as flat modules (<repo>/quatica on sys.path), and writes one digest (or exception type)
per operation.  This file must not import anything from qv (it runs outside the harness).
"""
import hashlib
import io
import json
import os
import sys
import contextlib


def main():
    style, repo, jobfile, outfile = sys.argv[1:5]
    for v in ("OMP_NUM_THREADS", "OPENBLAS_NUM_THREADS", "MKL_NUM_THREADS"):
        os.environ.setdefault(v, "1")
    os.environ.setdefault("MPLBACKEND", "Agg")
    # drop any path entry that would make the other style importable by accident
    qdir = os.path.join(repo, "quatica")
    sys.path[:] = [p for p in sys.path if os.path.realpath(p or ".") not in (os.path.realpath(repo), os.path.realpath(qdir))
                   and os.path.realpath(p or ".") != os.path.dirname(os.path.realpath(__file__))
                   and os.path.realpath(p or ".") != os.path.dirname(os.path.dirname(os.path.realpath(__file__)))]
    import warnings
    warnings.simplefilter("ignore")
    import numpy as np
    np.seterr(all="ignore")
    import quaternion  # noqa: F401
    if style == "package":
        sys.path.insert(0, repo)
        import quatica  # noqa: F401
        import quatica.utils as utils
        import quatica.solver as solver
        import quatica.decomp as decomp
        import quatica.decomp.qsvd as qsvd
        import quatica.decomp.schur as schur
        import quatica.decomp.hessenberg as hessenberg
        import quatica.tensor as tensor
        import quatica.data_gen as data_gen
    else:
        # flat style as the repository's own tests and scripts use it: <repo>/quatica first on sys.path, with the
        # package itself still importable (editable install) for the library's `from quatica.decomp...` fallbacks
        sys.path.insert(0, qdir)
        sys.path.append(repo)
        import utils
        import solver
        import decomp
        import decomp.qsvd as qsvd
        import decomp.schur as schur
        import decomp.hessenberg as hessenberg
        import tensor
        import data_gen
    for mod in (utils, solver, decomp, qsvd):
        f = os.path.realpath(mod.__file__)
        if not f.startswith(os.path.realpath(repo) + os.sep):
            json.dump({"error": f"{mod.__name__} loaded from {f}"}, open(outfile, "w"))
            return 3

    def qa(x):
        return quaternion.as_quat_array(np.array(x, dtype=float))

    def dig(obj):
        h = hashlib.sha1()

        def upd(o):
            if isinstance(o, np.ndarray):
                if o.dtype == np.quaternion:
                    o = quaternion.as_float_array(o)
                h.update(str(o.shape).encode())
                h.update(np.ascontiguousarray(o).tobytes())
            elif isinstance(o, (list, tuple)):
                h.update(b"[")
                for v in o:
                    upd(v)
                h.update(b"]")
            elif isinstance(o, dict):
                for k in sorted(o):
                    if k in ("iteration_times", "total_time"):
                        continue
                    h.update(str(k).encode())
                    upd(o[k])
            elif isinstance(o, (float, np.floating)):
                h.update(float(o).hex().encode())
            elif isinstance(o, (complex, np.complexfloating)):
                h.update((float(o.real).hex() + float(o.imag).hex()).encode())
            else:
                h.update(repr(o).encode())
        upd(obj)
        return h.hexdigest()

    def fl(hexlist, shape):
        return np.array([float.fromhex(v) for v in hexlist], dtype=float).reshape(shape)

    def sq(x):
        """SparseQuaternionMatrix built with THIS import style's utils module."""
        from scipy import sparse as _sp
        a = np.array(x, dtype=float)
        return utils.SparseQuaternionMatrix(_sp.csr_matrix(a[..., 0]), _sp.csr_matrix(a[..., 1]), _sp.csr_matrix(a[..., 2]),
                                            _sp.csr_matrix(a[..., 3]), a.shape[:2])

    def dense_of(r):
        if isinstance(r, utils.SparseQuaternionMatrix):
            return np.stack([r.real.toarray(), r.i.toarray(), r.j.toarray(), r.k.toarray()], axis=-1)
        return r

    OPS = {
        "ns_sparse": lambda a: solver.NewtonSchulzPseudoinverse(max_iter=6, tol=0.0).compute(sq(a["A"])),
        "ns_sparse_fast": lambda a: solver.NewtonSchulzPseudoinverse(max_iter=6, tol=0.0, compute_residuals=False).compute(sq(a["A"])),
        "qgmres_sparse": lambda a: solver.QGMRESSolver(tol=1e-8).solve(sq(a["A"]), qa(a["b"])),
        "qgmres_sparse_left_lu": lambda a: solver.QGMRESSolver(tol=1e-8, preconditioner="left_lu").solve(qa(a["A"]), qa(a["b"])),
        "matmat_sparse_dense": lambda a: dense_of(utils.quat_matmat(sq(a["A"]), qa(a["B"]))),
        "matmat_dense_sparse": lambda a: dense_of(utils.quat_matmat(qa(a["A"]), sq(a["B"]))),
        "frobenius_sparse": lambda a: utils.quat_frobenius_norm(sq(a["A"])),
        "hermitian_sparse": lambda a: dense_of(utils.quat_hermitian(sq(a["A"]))),
        "create_sparse": lambda a: dense_of(data_gen.create_sparse_quat_matrix(a["m"], a["n"], density=0.5)),
        "rank": lambda a: utils.rank(qa(a["A"])),
        "det_dieudonne": lambda a: utils.det(qa(a["A"]), "Dieudonne"),
        "det_moore": lambda a: utils.det(qa(a["A"]), "Moore"),
        "null_right": lambda a: utils.quat_null_space(qa(a["A"]), side="right"),
        "null_left": lambda a: utils.quat_null_left(qa(a["A"])),
        "spectral_norm": lambda a: utils.matrix_norm(qa(a["A"]), 2),
        "power_iteration": lambda a: utils.power_iteration(qa(a["A"]), max_iterations=30, return_eigenvalue=True),
        "power_iteration_nonhermitian": lambda a: utils.power_iteration_nonhermitian(qa(a["A"]), max_iterations=50, seed=a["seed"] % 1000),
        "qgmres_left_lu": lambda a: solver.QGMRESSolver(tol=1e-8, preconditioner="left_lu").solve(qa(a["A"]), qa(a["b"])),
        "qgmres_none": lambda a: solver.QGMRESSolver(tol=1e-8).solve(qa(a["A"]), qa(a["b"])),
        "rsp_qr": lambda a: solver.RandomizedSketchProjectPseudoinverse(block_size=2, max_iter=15, tol=1e-8).compute(qa(a["A"])),
        "rsp_spd": lambda a: solver.RandomizedSketchProjectPseudoinverse(block_size=2, max_iter=15, tol=1e-8, column_solver="spd").compute(qa(a["A"])),
        # explicit constructor seeds: the two interpreters run with different hash salts (python -I ignores PYTHONHASHSEED),
        # a seeded run must be the same function of (seed, arguments) in every process
        "rsp_seeded": lambda a: solver.RandomizedSketchProjectPseudoinverse(block_size=2, max_iter=15, tol=1e-8, seed=a["seed"] % 1000).compute(qa(a["A"])),
        "hybrid_seeded": lambda a: solver.HybridRSPNewtonSchulz(r=2, p=2, T=2, max_iter=8, tol=1e-8, seed=a["seed"] % 1000).compute(qa(a["A"])),
        "cgne_seeded": lambda a: solver.CGNEQSolver(max_iter=8, tol=1e-8, preconditioner_rank=1, seed=a["seed"] % 1000).compute(qa(a["A"])),
        "hybrid_qr": lambda a: solver.HybridRSPNewtonSchulz(r=2, p=2, T=2, max_iter=8, tol=1e-8).compute(qa(a["A"])),
        "ns": lambda a: solver.NewtonSchulzPseudoinverse(max_iter=6, tol=0.0).compute(qa(a["A"])),
        "lu": lambda a: decomp.quaternion_lu(qa(a["A"]), return_p=True),
        "eig": lambda a: decomp.quaternion_eigendecomposition(qa(a["A"])),
        "tridiag": lambda a: decomp.tridiagonalize(qa(a["A"])),
        "qsvd_full": lambda a: qsvd.classical_qsvd_full(qa(a["A"])),
        "qr": lambda a: qsvd.qr_qua(qa(a["A"])),
        "rand_qsvd": lambda a: qsvd.rand_qsvd(qa(a["A"]), 1, oversample=2, n_iter=1),
        "pass_eff_qsvd": lambda a: qsvd.pass_eff_qsvd(qa(a["A"]), 1, oversample=2, n_passes=3),
        "hessenberg": lambda a: hessenberg.hessenbergize(qa(a["A"])),
        "schur_unified": lambda a: schur.quaternion_schur_unified(qa(a["A"]), variant="rayleigh", max_iter=20),
        "schur_real": lambda a: schur.quaternion_schur(qa(a["A"]), max_iter=20),
        "unfold": lambda a: tensor.tensor_unfold(qa(a["T"]), a["mode"]),
        "random_unitary": lambda a: data_gen.generate_random_unitary_matrix(a["n"]),
        "create_test_matrix": lambda a: data_gen.create_test_matrix(a["m"], a["n"], rank=a.get("rank")),
    }
    jobs = json.load(open(jobfile))
    out = []
    for job in jobs:
        args = {}
        for k, v in job["args"].items():
            if isinstance(v, dict) and "hex" in v:
                args[k] = fl(v["hex"], v["shape"])
            else:
                args[k] = v
        np.random.seed(job["seed"] % (2 ** 32))
        args["seed"] = job["seed"]
        try:
            with contextlib.redirect_stdout(io.StringIO()):
                r = OPS[job["op"]](args)
            out.append({"op": job["op"], "digest": dig(r)})
        except Exception as e:  # noqa: BLE001
            out.append({"op": job["op"], "exception": type(e).__name__, "msg": str(e)[:200]})
    json.dump({"results": out}, open(outfile, "w"))
    return 0


if __name__ == "__main__":
    sys.exit(main())
