"""Independent reference model for quaternion linear algebra.

Nothing here imports the library under test.  A quaternion array is a float64
ndarray whose LAST axis has length 4: (w, x, y, z) = w + x i + y j + z k.

Everything is derived from the multiplication table of the basis units
(i^2 = j^2 = k^2 = ijk = -1):

    ham / qmul / qmm / mat_mul_exact   Hamilton products (float, and exact Fractions)
    conjT                               conjugate transpose
    chi_r                               4m x 4n real left-multiplication embedding,
                                        block (r,c) = matrix of  x -> A[r,c] * x
    chi_c                               2m x 2n complex adjoint,  q = (w+xi) + (y+zi) j
    svals / pinv / solve / eigvalsh     LAPACK on chi_c

`selfcheck()` verifies the table identities and the homomorphism properties of
the two embeddings against `ham`, so the oracle is itself tested before use.
"""
from fractions import Fraction

import numpy as np

U = 2.0 ** -53  # unit roundoff

# ----------------------------------------------------------------------------
# multiplication table:  e_a * e_b = SIGN[a][b] * e_{IDX[a][b]}
# rows: 1, i, j, k
IDX = [[0, 1, 2, 3], [1, 0, 3, 2], [2, 3, 0, 1], [3, 2, 1, 0]]
SIGN = [[1, 1, 1, 1], [1, -1, 1, -1], [1, -1, -1, 1], [1, 1, -1, -1]]


def ham(p, q):
    """Hamilton product of two 4-sequences (works for floats and Fractions)."""
    out = [0, 0, 0, 0]
    for a in range(4):
        for b in range(4):
            out[IDX[a][b]] = out[IDX[a][b]] + SIGN[a][b] * p[a] * q[b]
    return out


def qmul(A, B):
    """Entrywise Hamilton product with numpy broadcasting on the leading axes."""
    A = np.asarray(A, dtype=float)
    B = np.asarray(B, dtype=float)
    shp = np.broadcast_shapes(A.shape[:-1], B.shape[:-1])
    C = np.zeros(shp + (4,))
    for a in range(4):
        for b in range(4):
            C[..., IDX[a][b]] += SIGN[a][b] * A[..., a] * B[..., b]
    return C


def qmm(A, B):
    """Quaternion matrix product of (m,k,4) and (k,n,4) arrays (float)."""
    A = np.asarray(A, dtype=float)
    B = np.asarray(B, dtype=float)
    m, k, _ = A.shape
    k2, n, _ = B.shape
    assert k == k2, (A.shape, B.shape)
    C = np.zeros((m, n, 4))
    for a in range(4):
        for b in range(4):
            C[:, :, IDX[a][b]] += SIGN[a][b] * (A[:, :, a] @ B[:, :, b])
    return C


def mat_mul_exact(A, B):
    """Exact product in Fractions.  Returns (C, S): C[i][j] = list of 4 Fractions,
    S[i][j][c] = exact sum of |partial products| contributing to component c."""
    A = np.asarray(A, dtype=float)
    B = np.asarray(B, dtype=float)
    m, k, _ = A.shape
    _, n, _ = B.shape
    FA = [[[Fraction(float(A[i, t, c])) for c in range(4)] for t in range(k)] for i in range(m)]
    FB = [[[Fraction(float(B[t, j, c])) for c in range(4)] for j in range(n)] for t in range(k)]
    C = [[None] * n for _ in range(m)]
    S = [[None] * n for _ in range(m)]
    for i in range(m):
        for j in range(n):
            acc = [Fraction(0)] * 4
            sab = [Fraction(0)] * 4
            for t in range(k):
                p = FA[i][t]
                q = FB[t][j]
                for a in range(4):
                    if p[a] == 0:
                        continue
                    for b in range(4):
                        if q[b] == 0:
                            continue
                        pr = p[a] * q[b]
                        d = IDX[a][b]
                        acc[d] = acc[d] + SIGN[a][b] * pr
                        sab[d] = sab[d] + abs(pr)
            C[i][j] = acc
            S[i][j] = sab
    return C, S


def exact_to_float(C):
    m = len(C)
    n = len(C[0]) if m else 0
    out = np.zeros((m, n, 4))
    for i in range(m):
        for j in range(n):
            for c in range(4):
                out[i, j, c] = float(C[i][j][c])
    return out


def conj(A):
    A = np.asarray(A, dtype=float)
    C = A.copy()
    C[..., 1:] = -C[..., 1:]
    return C


def conjT(A):
    """Conjugate transpose of an (m,n,4) array -> (n,m,4)."""
    A = np.asarray(A, dtype=float)
    C = np.swapaxes(A, 0, 1).copy()
    C[..., 1:] = -C[..., 1:]
    return C


def qeye(n):
    E = np.zeros((n, n, 4))
    for i in range(n):
        E[i, i, 0] = 1.0
    return E


def qzeros(m, n):
    return np.zeros((m, n, 4))


def modulus(A):
    A = np.asarray(A, dtype=float)
    return np.sqrt(np.sum(A * A, axis=-1))


def fro(A):
    A = np.asarray(A, dtype=float)
    return float(np.sqrt(np.sum(A * A)))


def fro_exact_sq(A):
    """Exact rational sum of squares of all components."""
    s = Fraction(0)
    for v in np.asarray(A, dtype=float).ravel():
        f = Fraction(float(v))
        s += f * f
    return s


def sqrt_fraction(fr):
    """Correctly rounded-ish sqrt of a non-negative Fraction as float (error <= 2u)."""
    if fr == 0:
        return 0.0
    import math

    # scale to keep precision: fr = n/d ; use integer sqrt on a 2^k-scaled value
    n, d = fr.numerator, fr.denominator
    # want about 120 bits in the radicand
    shift = max(0, 240 - (n.bit_length() - d.bit_length()))
    if shift % 2:
        shift += 1
    val = (n << shift) // d
    r = math.isqrt(val)
    return float(Fraction(r, 1 << (shift // 2)))


# ----------------------------------------------------------------------------
# embeddings


def _Lmat(q):
    """4x4 real matrix of x -> q*x, column c = components of q * e_c (from `ham`)."""
    M = np.zeros((4, 4))
    for c in range(4):
        e = [0.0, 0.0, 0.0, 0.0]
        e[c] = 1.0
        M[:, c] = ham(list(q), e)
    return M


def chi_r(A):
    """Real embedding, entry-interleaved layout: block (r,c) = L(A[r,c])."""
    A = np.asarray(A, dtype=float)
    m, n, _ = A.shape
    R = np.zeros((4 * m, 4 * n))
    # L(q) is linear in q: L(q) = sum_a q_a L(e_a)
    basis = [_Lmat([1.0 if t == a else 0.0 for t in range(4)]) for a in range(4)]
    for a in range(4):
        R += np.kron(A[:, :, a], basis[a])
    return R


def _lmat_table():
    """(index, sign) tables of the 4x4 left-multiplication block: L(q)[p,c] = sign[p,c] * q[index[p,c]]."""
    idx = np.zeros((4, 4), dtype=int)
    sgn = np.zeros((4, 4))
    for a in range(4):
        La = _Lmat([1.0 if t == a else 0.0 for t in range(4)])
        for p in range(4):
            for c in range(4):
                if La[p, c] != 0:
                    idx[p, c], sgn[p, c] = a, La[p, c]
    return idx, sgn


def chi_r_copy(A, blocked=False):
    """chi_r / chi_r_blocked by COPYING (and negating) components - no arithmetic, so signed zeros, infinities and
    NaN are placed exactly (the Kronecker-sum forms above compute w*1 + x*0 + ... and are only valid for finite
    values)."""
    A = np.asarray(A, dtype=float)
    m, n, _ = A.shape
    idx, sgn = _lmat_table()
    R = np.zeros((4 * m, 4 * n))
    for p in range(4):
        for c in range(4):
            pl = A[:, :, idx[p, c]]
            pl = pl if sgn[p, c] > 0 else np.negative(pl)
            if blocked:
                R[p * m:(p + 1) * m, c * n:(c + 1) * n] = pl
            else:
                R[p::4, c::4] = pl
    return R


def chi_r_blocked(A):
    """Real embedding, component-blocked layout: 4x4 grid of m x n blocks,
    grid block (p,q) = coefficient plane sum_a L(e_a)[p,q] * A_a."""
    A = np.asarray(A, dtype=float)
    m, n, _ = A.shape
    basis = [_Lmat([1.0 if t == a else 0.0 for t in range(4)]) for a in range(4)]
    R = np.zeros((4 * m, 4 * n))
    for a in range(4):
        R += np.kron(basis[a], A[:, :, a])
    return R


def chi_c(A):
    """Complex adjoint: q = (w + x i) + (y + z i) j  ->  [[C, D], [-conj D, conj C]]."""
    A = np.asarray(A, dtype=float)
    m, n, _ = A.shape
    C = A[:, :, 0] + 1j * A[:, :, 1]
    D = A[:, :, 2] + 1j * A[:, :, 3]
    M = np.zeros((2 * m, 2 * n), dtype=complex)
    M[:m, :n] = C
    M[:m, n:] = D
    M[m:, :n] = -np.conj(D)
    M[m:, n:] = np.conj(C)
    return M


def from_chi_c(M):
    M = np.asarray(M)
    m2, n2 = M.shape
    m, n = m2 // 2, n2 // 2
    A = np.zeros((m, n, 4))
    A[:, :, 0] = M[:m, :n].real
    A[:, :, 1] = M[:m, :n].imag
    A[:, :, 2] = M[:m, n:].real
    A[:, :, 3] = M[:m, n:].imag
    return A


# ----------------------------------------------------------------------------
# spectral reference quantities via LAPACK on chi_c


def svals(A):
    """Quaternion singular values, non-increasing, length min(m,n)."""
    A = np.asarray(A, dtype=float)
    m, n, _ = A.shape
    if min(m, n) == 0:
        return np.zeros(0)
    s = np.linalg.svd(chi_c(A), compute_uv=False)
    return 0.5 * (s[0::2] + s[1::2])


def pinv(A, rtol=None):
    A = np.asarray(A, dtype=float)
    M = chi_c(A)
    if rtol is None:
        P = np.linalg.pinv(M)
    else:
        P = np.linalg.pinv(M, rcond=rtol)
    return from_chi_c(P)


def solve(A, B):
    A = np.asarray(A, dtype=float)
    B = np.asarray(B, dtype=float)
    X = np.linalg.solve(chi_c(A), chi_c(B))
    return from_chi_c(X)


def eigvalsh(A):
    """Eigenvalues of a Hermitian quaternion matrix (ascending, length n)."""
    A = np.asarray(A, dtype=float)
    M = chi_c(A)
    M = 0.5 * (M + M.conj().T)
    w = np.linalg.eigvalsh(M)
    return 0.5 * (w[0::2] + w[1::2])


def cond(A):
    s = svals(A)
    if len(s) == 0 or s[-1] == 0:
        return np.inf
    return float(s[0] / s[-1])


def rank_real(A, rtol=None):
    """Rank over H computed as matrix_rank(chi_r(A)) / 4."""
    R = chi_r(A)
    if R.size == 0:
        return 0
    r = np.linalg.matrix_rank(R) if rtol is None else np.linalg.matrix_rank(R, tol=rtol)
    return r // 4, r % 4


def unitarity_defect(Q):
    """|| Q^H Q - I ||_F for an (m,k,4) array."""
    Q = np.asarray(Q, dtype=float)
    k = Q.shape[1]
    return fro(qmm(conjT(Q), Q) - qeye(k))


def diag_q(s, m=None, n=None):
    s = np.asarray(s, dtype=float)
    r = len(s)
    m = r if m is None else m
    n = r if n is None else n
    D = np.zeros((m, n, 4))
    for i in range(min(r, m, n)):
        D[i, i, 0] = s[i]
    return D


def scale_cols(A, s):
    """A @ diag(s) for real s."""
    A = np.asarray(A, dtype=float)
    s = np.asarray(s, dtype=float)
    return A * s[None, :, None]


# ----------------------------------------------------------------------------


def selfcheck():
    """Sanity-check the reference model against the multiplication table."""
    one, i, j, k = ([1, 0, 0, 0], [0, 1, 0, 0], [0, 0, 1, 0], [0, 0, 0, 1])
    neg1 = [-1, 0, 0, 0]
    assert ham(i, i) == neg1 and ham(j, j) == neg1 and ham(k, k) == neg1
    assert ham(ham(i, j), k) == neg1
    assert ham(i, j) == k and ham(j, k) == i and ham(k, i) == j
    assert ham(j, i) == [0, 0, 0, -1] and ham(k, j) == [0, -1, 0, 0] and ham(i, k) == [0, 0, -1, 0]
    assert ham(one, k) == k and ham(k, one) == k
    rng = np.random.default_rng(12345)  # fixed: a self-test, not part of any property
    for (m, kk, n) in [(1, 1, 1), (2, 3, 2), (3, 2, 4)]:
        A = rng.integers(-5, 6, size=(m, kk, 4)).astype(float)
        B = rng.integers(-5, 6, size=(kk, n, 4)).astype(float)
        C = qmm(A, B)
        Ce, _ = mat_mul_exact(A, B)
        assert np.array_equal(C, exact_to_float(Ce))
        # entrywise definition with ham
        for r in range(m):
            for c in range(n):
                acc = [0.0] * 4
                for t in range(kk):
                    h = ham(list(A[r, t]), list(B[t, c]))
                    acc = [acc[d] + h[d] for d in range(4)]
                assert list(C[r, c]) == acc
        assert np.array_equal(chi_c(C), chi_c(A) @ chi_c(B))
        assert np.array_equal(chi_r(C), chi_r(A) @ chi_r(B))
        assert np.array_equal(chi_r_blocked(C), chi_r_blocked(A) @ chi_r_blocked(B))
        assert np.array_equal(chi_c(conjT(A)), chi_c(A).conj().T)
        assert np.array_equal(chi_r(conjT(A)), chi_r(A).T)
        assert np.array_equal(from_chi_c(chi_c(A)), A)
        # first column of each 4x4 block of chi_r holds the components
        assert np.array_equal(chi_r(A)[0::4, 0::4], A[:, :, 0])
        assert np.array_equal(chi_r(A)[1::4, 0::4], A[:, :, 1])
    A = rng.standard_normal((3, 3, 4))
    B = rng.standard_normal((3, 2, 4))
    X = solve(A, B)
    assert fro(qmm(A, X) - B) < 1e-12 * (1 + fro(B))
    P = pinv(A)
    assert fro(qmm(A, P) - qeye(3)) < 1e-10
    s = svals(A)
    assert abs(fro(A) - np.sqrt(np.sum(s * s))) < 1e-12 * fro(A)
    assert abs(sqrt_fraction(Fraction(2)) - 2 ** 0.5) < 1e-15
    assert sqrt_fraction(Fraction(9, 4)) == 1.5
    return True
