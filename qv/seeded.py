"""Evaluate the checks against the independently written seeded changes in /verif/seeded/<id>/.

For every seeded change: copy the working tree of /repo to a scratch dir, apply patch.diff there,
confirm the demonstration (exit 0 on the clean copy, 1 on the patched copy), run the property's
quick tier with QV_REPO=<patched copy> (and the thorough tier if the quick tier misses), record the
outcome in seeded/RESULTS.json, delete the scratch copies.  /repo itself is never modified.

usage: python -m qv.seeded [--only <substring>[,<substring>...]] [--no-thorough] [--all-properties]
"""
import argparse
import glob
import json
import os
import shutil
import subprocess
import sys
import time

from .env import VERIF
from .mutants import make_copy


def run_check(pid, tier, copy, seed=1):
    env = dict(os.environ, QV_REPO=copy, VERIF_SEED=str(seed), QV_NO_EVIDENCE="1",
               QV_REPLAY_DIR=os.path.join(copy, "_replays"))
    t0 = time.time()
    p = subprocess.run([sys.executable, "-m", "qv", "check", pid, "--tier", tier], cwd=VERIF, env=env,
                       capture_output=True, text=True, timeout=7200)
    first = next((l for l in p.stdout.splitlines() if l.startswith("  clause=")), "")[:300]
    rp = next((l.split("replay=", 1)[1].strip() for l in p.stdout.splitlines() if l.startswith("VIOLATION ") and "replay=" in l), "")
    return {"exit": p.returncode, "wall_s": round(time.time() - t0, 1), "first": first,
            "stderr": p.stderr[-400:] if p.returncode == 2 else "", "_replay": rp}


def harvest(sid, pid, rec):
    """Copy the input that exposed a seeded change into the corpus tier (replays/corpus/<property>-<clause>-<id>.json)
    unless it is large; the corpus is replayed by every later check run (qv/runner.py)."""
    rp = rec.get("_replay") or ""
    if rec.get("exit") != 1 or not rp or not os.path.exists(rp) or os.path.getsize(rp) > 150_000:
        return None
    try:
        clause = json.load(open(rp))["clause"]
    except Exception:  # noqa: BLE001
        return None
    if "-" in clause:
        return None
    dst = os.path.join(VERIF, "replays", "corpus", f"{pid}-{clause}-{sid}.json")
    os.makedirs(os.path.dirname(dst), exist_ok=True)
    shutil.copyfile(rp, dst)
    return os.path.relpath(dst, VERIF)


def run_demo(demo, tree):
    p = subprocess.run([sys.executable, demo, tree], capture_output=True, text=True, timeout=3600,
                       env=dict(os.environ, PYTHONPATH=tree), cwd=os.path.dirname(demo))
    return p.returncode


def main(argv=None):
    ap = argparse.ArgumentParser()
    ap.add_argument("--only", default=None)
    ap.add_argument("--no-thorough", action="store_true")
    ap.add_argument("--extra", default="", help="comma separated extra property ids to run against every change")
    ap.add_argument("--pending", action="store_true", help="only changes that have no entry in RESULTS.json yet")
    ap.add_argument("--harvest", action="store_true", help="run with the corpus switched off and copy the exposing input "
                    "of every caught change into replays/corpus/")
    ap.add_argument("--tests", action="store_true", help="also run the repository's test suite (minus the two ~20 min "
                    "Q-GMRES scale tests) on the patched copy")
    a = ap.parse_args(argv)
    if a.harvest:
        os.environ["QV_NO_CORPUS"] = "1"          # the table measures the generators alone
    respath = os.environ.get("QV_SEEDED_RESULTS") or os.path.join(VERIF, "seeded", "RESULTS.json")   # override: parallel partial runs, merged afterwards
    results = {}
    if os.path.exists(respath):
        results = {r["id"]: r for r in json.load(open(respath))}
    for d in sorted(glob.glob(os.path.join(VERIF, "seeded", "*", ""))):
        sid = os.path.basename(os.path.dirname(d))
        if a.only and not any(x and x in sid for x in a.only.split(",")):
            continue
        if a.pending and sid in results:
            continue
        if not os.path.exists(os.path.join(d, "meta.json")):
            continue
        meta = json.load(open(os.path.join(d, "meta.json")))
        pid = meta["property"]
        rec = {"id": sid, "property": pid, "title": meta.get("title", "")}
        if not a.tests and sid in results:        # keep the recorded repository-test outcome of an earlier run
            for k_ in ("tests_exit", "tests_summary"):
                if k_ in results[sid]:
                    rec[k_] = results[sid][k_]
        clean = make_copy()
        patched = make_copy()
        try:
            ap_ = subprocess.run(["patch", "-p1", "-s", "-i", os.path.join(d, "patch.diff")], cwd=patched,
                                 capture_output=True, text=True)
            rec["patch_applies"] = ap_.returncode == 0
            if ap_.returncode != 0:
                rec["patch_error"] = (ap_.stdout + ap_.stderr)[-300:]
            else:
                demo = os.path.join(d, "demo.py")
                if os.path.exists(demo):
                    rec["demo_clean_exit"] = run_demo(demo, clean)
                    rec["demo_patched_exit"] = run_demo(demo, patched)
                if a.tests:
                    tp = subprocess.run([sys.executable, "-m", "pytest", "-q", "-p", "no:cacheprovider", "--timeout=900",
                                         "-n", "4", "tests",
                                         "--deselect", "tests/QGMRES/test_qgmres_large.py::test_qgmres_scalability",
                                         "--deselect", "tests/QGMRES/test_qgmres_large.py::test_qgmres_large_scale"],
                                        cwd=patched, env=dict(os.environ, PYTHONPATH=patched), capture_output=True, text=True)
                    tail = [l for l in tp.stdout.strip().splitlines() if l.strip()][-1:] or [""]
                    rec["tests_exit"] = tp.returncode
                    rec["tests_summary"] = tail[0][-160:]
                pids = [pid] + [x for x in a.extra.split(",") if x and x != pid]
                for q in pids:
                    key = "quick" if q == pid else f"quick[{q}]"
                    rec[key] = run_check(q, "quick", patched)
                    if q == pid and a.harvest:
                        rec["corpus_file"] = harvest(sid, pid, rec[key])
                    rec[key].pop("_replay", None)
                    if q == pid and rec[key]["exit"] == 0 and not a.no_thorough:
                        rec["thorough"] = run_check(q, "thorough", patched)
                        rec["thorough"].pop("_replay", None)
                rec["caught_by"] = ("quick" if rec["quick"]["exit"] == 1 else
                                    ("thorough" if rec.get("thorough", {}).get("exit") == 1 else
                                     ("HARNESS-ERROR(exit 2)" if 2 in (rec["quick"]["exit"], rec.get("thorough", {}).get("exit"))
                                      else "MISSED")))
        finally:
            shutil.rmtree(clean, ignore_errors=True)
            shutil.rmtree(patched, ignore_errors=True)
        results[sid] = rec
        print(json.dumps(rec)[:600])
        json.dump(sorted(results.values(), key=lambda r: r["id"]), open(respath, "w"), indent=1)
    n = len(results)
    c = sum(1 for r in results.values() if r.get("caught_by") in ("quick", "thorough"))
    print(f"[seeded] {c}/{n} caught")
    return 0


if __name__ == "__main__":
    sys.exit(main())
