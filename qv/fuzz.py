"""Coverage-guided amplifier (atheris / libFuzzer) for clauses marked fuzz=True.

    python -m qv.fuzz <PID> <clause> <runs> <seed> <outdir>

runs ONE libFuzzer campaign in this process: the library under test is imported under atheris
instrumentation (pure-Python branch coverage), the clause's Hypothesis test is driven through
`test.hypothesis.fuzz_one_input`, i.e. libFuzzer mutates the byte string from which Hypothesis draws
the structured case, and the clause's semantic oracle runs inside the target.  Statistics are dumped to
<outdir>/stats.json every 200 executions (libFuzzer exits without running atexit handlers); an unknown
failure writes <outdir>/violation.json (a normal replay document) and exits with status 3.
"""
import json
import os
import sys
import time


def main(argv):
    pid, cname, runs, seed, outdir = argv[0], argv[1], int(argv[2]), int(argv[3]), argv[4]
    from .env import VERIF
    deps = os.path.join(VERIF, ".deps")
    if os.path.isdir(deps):
        sys.path.insert(0, deps)
    try:
        import atheris
    except Exception as e:  # noqa: BLE001
        os.makedirs(outdir, exist_ok=True)
        json.dump({"skipped": f"atheris not importable: {e!r}"}, open(os.path.join(outdir, "stats.json"), "w"))
        return 0
    os.makedirs(outdir, exist_ok=True)
    corpus = os.path.join(outdir, "corpus")
    os.makedirs(corpus, exist_ok=True)
    from . import env
    with atheris.instrument_imports(include=["utils", "solver", "decomp", "tensor", "qslst", "data_gen"]):
        env.load()
    from . import findings, replay
    from .runner import get_property
    import hypothesis
    from hypothesis import HealthCheck, given, settings

    prop = get_property(pid)
    cl = next(c for c in prop.clauses if c.name == cname)
    stats = {"executions": 0, "nontrivial": 0, "labels": {}, "kf_hits": 0, "t0": time.time(), "runs_requested": runs}
    seen = set()

    def dump():
        s = dict(stats)
        s["wall_s"] = round(time.time() - stats["t0"], 1)
        s["distinct_nontrivial"] = len(seen)
        s["corpus_files"] = len(os.listdir(corpus))
        with open(os.path.join(outdir, "stats.json"), "w") as f:
            json.dump(s, f)

    def body(case):
        out = cl.check(case)
        stats["executions"] += 1
        for lb in out.labels:
            stats["labels"][lb] = stats["labels"].get(lb, 0) + 1
        if out.nontrivial:
            stats["nontrivial"] += 1
            seen.add(replay.digest(case))
        unknown = []
        for f in out.failures:
            if findings.match(pid, cname, f):
                stats["kf_hits"] += 1
            else:
                unknown.append(f)
        if unknown:
            doc = {"property": pid, "clause": cname, "failure": unknown[0].as_dict(),
                   "meta": {"engine": "atheris", "seed": seed}, "case": replay.encode(case)}
            with open(os.path.join(outdir, "violation.json"), "w") as fh:
                json.dump(doc, fh)
            dump()
            os._exit(3)
        if stats["executions"] % 200 == 0:
            dump()

    st = settings(database=None, deadline=None, suppress_health_check=list(HealthCheck), print_blob=False)
    test = st(given(cl.strategy("thorough"))(body))

    def one_input(data):
        try:
            test.hypothesis.fuzz_one_input(data)
        except SystemExit:
            raise
    dump()
    atheris.Setup([sys.argv[0], f"-runs={runs}", f"-seed={seed}", "-max_len=8192", corpus], one_input)
    atheris.Fuzz()
    return 0


if __name__ == "__main__":
    sys.exit(main(sys.argv[1:]))
