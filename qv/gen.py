"""Hypothesis strategies: sound first, constructive, tagged.

A generated quaternion matrix is a float ndarray of shape (m, n, 4) (see ref.py).
All random choices are Hypothesis draws, so shrinking and replay work.
"""
import numpy as np
from hypothesis import strategies as st
from hypothesis.extra import numpy as hnp

from . import ref

# ----------------------------------------------------------------------------
# scalars


def dyadic(emin=0, emax=0, kmax=32):
    """(k/16) * 10**e : exact-ish constructed reals, shrink towards 0 / small integers."""
    if emin == emax:
        return st.integers(-kmax, kmax).map(lambda k: (k / 16.0) * 10.0 ** emin)
    return st.builds(lambda k, e: (k / 16.0) * 10.0 ** e, st.integers(-kmax, kmax), st.integers(emin, emax))


def small_ints(lo=-4, hi=4):
    return st.integers(lo, hi).map(float)


def reals(emin=0, emax=0):
    return st.one_of(small_ints(), dyadic(emin, emax), dyadic(0, 0, kmax=160))


def positive(emin=0, emax=0):
    return st.builds(lambda k, e: (k / 16.0) * 10.0 ** e, st.integers(1, 64), st.integers(emin, emax))


def dims(lo=1, hi=6):
    return st.integers(lo, hi)


# ----------------------------------------------------------------------------
# quaternion arrays

PATTERNS = ("generic", "int", "pure_imag", "axis", "sparse", "unit", "scaled", "zero", "units", "full53")
WEIGHTED_PATTERNS = ("generic",) * 4 + ("int",) * 2 + ("pure_imag",) * 2 + ("sparse",) * 2 + ("scaled",) * 2 + (
    "axis", "unit", "zero", "units", "units", "full53", "full53")


BASIS_UNITS = [np.array(v, dtype=float) for v in
               ([1, 0, 0, 0], [0, 1, 0, 0], [0, 0, 1, 0], [0, 0, 0, 1],
                [-1, 0, 0, 0], [0, -1, 0, 0], [0, 0, -1, 0], [0, 0, 0, -1])]


def _arr(shape, elements):
    return hnp.arrays(np.float64, shape, elements=elements, fill=st.nothing())


@st.composite
def qarray(draw, m, n, pattern=None, emin=0, emax=0):
    """(m,n,4) array following one of the entry patterns; returns (A, pattern)."""
    if pattern is None:
        pattern = draw(st.sampled_from(WEIGHTED_PATTERNS))
    shape = (m, n, 4)
    if pattern == "zero":
        A = np.zeros(shape)
    elif pattern == "generic":
        if draw(st.integers(0, 3)) == 0:
            # one generic matrix in four carries full 53-bit mantissas (see "full53" below)
            A = draw(_arr(shape, st.integers(-2 ** 52, 2 ** 52).map(lambda k: k / 2.0 ** 50)))
        else:
            A = draw(_arr(shape, dyadic(0, 0, 160)))
    elif pattern == "int":
        A = draw(_arr(shape, small_ints()))
    elif pattern == "pure_imag":
        A = draw(_arr(shape, dyadic(0, 0, 64)))
        A[..., 0] = 0.0
    elif pattern == "axis":
        ax = draw(st.integers(0, 3))
        B = draw(_arr((m, n), dyadic(0, 0, 64)))
        A = np.zeros(shape)
        A[..., ax] = B
    elif pattern == "sparse":
        A = draw(_arr(shape, dyadic(0, 0, 64)))
        mask = draw(hnp.arrays(np.bool_, (m, n), elements=st.booleans(), fill=st.nothing()))
        A = A * mask[..., None]
    elif pattern == "unit":
        A = np.zeros(shape)
        i = draw(st.integers(0, m - 1))
        j = draw(st.integers(0, n - 1))
        c = draw(st.integers(0, 3))
        A[i, j, c] = draw(st.sampled_from([1.0, -1.0]))
    elif pattern == "units":
        # every entry from {0, +-1, +-i, +-j, +-k}: moduli exactly 1, exact ties, exact cancellations
        idx = draw(hnp.arrays(np.int64, (m, n), elements=st.integers(0, 9), fill=st.nothing()))
        A = np.zeros(shape)
        for i in range(m):
            for j in range(n):
                if idx[i, j] < 8:
                    A[i, j] = BASIS_UNITS[int(idx[i, j])]
    elif pattern == "scaled":
        A = draw(_arr(shape, dyadic(0, 0, 64)))
        e = draw(st.integers(emin, emax))
        A = A * 10.0 ** e
    elif pattern == "full53":
        # full 53-bit mantissas in [-4, 4] (k / 2^50): the other patterns are short dyadic numbers, exactly
        # representable in float32 / float16, which would hide a reduced-precision or prematurely rounded intermediate
        A = draw(_arr(shape, st.integers(-2 ** 52, 2 ** 52).map(lambda k: k / 2.0 ** 50)))
    else:
        raise ValueError(pattern)
    return np.ascontiguousarray(A, dtype=float), pattern


@st.composite
def qmat(draw, m, n, emin=0, emax=0, patterns=None):
    pat = draw(st.sampled_from(patterns or PATTERNS))
    A, pat = draw(qarray(m, n, pat, emin, emax))
    return A


def nonzero_q(kmax=32):
    """4-vector with modulus >= 1/16."""
    return hnp.arrays(np.float64, (4,), elements=dyadic(0, 0, kmax), fill=st.nothing()).filter(
        lambda v: float(np.sum(v * v)) > 0.0)


@st.composite
def unit_q(draw, exact=False):
    if exact or draw(st.booleans()):
        return draw(st.sampled_from(BASIS_UNITS)).copy()
    v = draw(nonzero_q())
    return v / np.sqrt(np.sum(v * v))


# ----------------------------------------------------------------------------
# unitary factors (built without the library)


def householder(u):
    """I - 2 u u^H / (u^H u) for a quaternion column u of shape (n,4)."""
    n = u.shape[0]
    col = u.reshape(n, 1, 4)
    nrm2 = float(np.sum(u * u))
    if nrm2 == 0.0:
        return ref.qeye(n)
    return ref.qeye(n) - (2.0 / nrm2) * ref.qmm(col, ref.conjT(col))


@st.composite
def exact_unitary(draw, n):
    """Signed permutation times basis units: entries in {0, +-1, +-i, +-j, +-k}; exactly unitary."""
    perm = draw(st.permutations(list(range(n))))
    Q = np.zeros((n, n, 4))
    for r, c in enumerate(perm):
        Q[r, c] = draw(st.sampled_from(BASIS_UNITS))
    return Q


@st.composite
def unitary(draw, n, exact=None, max_reflectors=2):
    """n x n unitary quaternion matrix: reflectors * unit-diagonal * permutation."""
    if exact is None:
        exact = draw(st.integers(0, 4)) == 0
    Q = draw(exact_unitary(n))
    if exact or n == 0:
        return Q
    k = draw(st.integers(1, max_reflectors))
    for _ in range(k):
        u = draw(hnp.arrays(np.float64, (n, 4), elements=dyadic(0, 0, 32), fill=st.nothing()))
        Q = ref.qmm(householder(u), Q)
    return Q


# ----------------------------------------------------------------------------
# spectra

SPEC_KINDS = ("distinct", "repeated", "clustered", "geometric", "allequal", "withzeros")


@st.composite
def spectrum(draw, r, kinds=SPEC_KINDS, cond_max=1e4, scale_exp=(0, 0)):
    """Non-increasing list of r non-negative values plus tags describing the pattern.
    Returns (s, kind)."""
    if r == 0:
        return np.zeros(0), "empty"
    kind = draw(st.sampled_from(kinds))
    if kind == "distinct":
        # well separated: k_i / 8 with distinct integers
        ks = draw(st.lists(st.integers(1, 64), min_size=r, max_size=r, unique=True))
        s = np.array(sorted(ks, reverse=True), dtype=float) / 8.0
    elif kind == "repeated":
        base = draw(st.lists(st.integers(1, 32), min_size=1, max_size=max(1, r - 1), unique=True))
        idx = draw(st.lists(st.integers(0, len(base) - 1), min_size=r, max_size=r))
        s = np.array(sorted((base[i] for i in idx), reverse=True), dtype=float) / 4.0
        if r >= 2 and len(set(s.tolist())) == r:
            s[1] = s[0]
    elif kind == "clustered":
        ks = draw(st.lists(st.integers(1, 32), min_size=r, max_size=r))
        s = np.array(sorted(ks, reverse=True), dtype=float) / 4.0
        eps = draw(st.sampled_from([1e-3, 1e-5]))
        s = s * (1.0 + eps * np.arange(r)[::-1] / max(1, r))
        s = np.sort(s)[::-1]
    elif kind == "geometric":
        c = draw(st.sampled_from([10.0, 1e2, 1e3, cond_max]))
        c = min(c, cond_max)
        s = np.array([c ** (-(i / max(1, r - 1))) for i in range(r)]) if r > 1 else np.array([1.0])
    elif kind == "allequal":
        v = draw(st.integers(1, 32)) / 4.0
        s = np.full(r, v)
    elif kind == "withzeros":
        nz = draw(st.integers(0, r))
        ks = draw(st.lists(st.integers(1, 64), min_size=r - nz, max_size=r - nz))
        s = np.array(sorted(ks, reverse=True) + [0] * nz, dtype=float) / 8.0
    else:
        raise ValueError(kind)
    e = draw(st.integers(scale_exp[0], scale_exp[1]))
    if e:
        s = s * 10.0 ** e
    return np.ascontiguousarray(s, dtype=float), kind


def spectrum_tags(s, rel=1e-6):
    """Tags computed from a (constructed) singular spectrum."""
    s = np.sort(np.asarray(s, dtype=float))[::-1]
    tags = []
    if len(s) == 0:
        return tags
    smax = s[0] if s[0] > 0 else 1.0
    nzv = s[s > 1e-12 * smax]
    rep = any(abs(nzv[i] - nzv[i + 1]) <= rel * smax for i in range(len(nzv) - 1))
    if rep:
        tags.append("rep_nonzero")
    nzero = int(len(s) - len(nzv))
    if nzero >= 1:
        tags.append("has_zero_sv")
    if nzero >= 2:
        tags.append("multi_zero_sv")
    return tags


@st.composite
def matrix_with_svals(draw, m, n, s, exact_factors=None):
    """A = U diag(s) V^H with generated unitary U (m x m), V (n x n)."""
    U = draw(unitary(m, exact=exact_factors))
    V = draw(unitary(n, exact=exact_factors))
    D = ref.diag_q(s, m, n)
    return ref.qmm(ref.qmm(U, D), ref.conjT(V))


@st.composite
def hermitian_with_spectrum(draw, n, lam, exact_factors=None):
    U = draw(unitary(n, exact=exact_factors))
    A = ref.qmm(ref.scale_cols(U, np.asarray(lam, dtype=float)), ref.conjT(U))
    A = 0.5 * (A + ref.conjT(A))
    for i in range(n):
        A[i, i, 1:] = 0.0
    return A


def make_hermitian(A):
    A = 0.5 * (A + ref.conjT(A))
    for i in range(A.shape[0]):
        A[i, i, 1:] = 0.0
    return A


@st.composite
def maybe_high_aspect(draw, m, n, one_in=8, short_max=3):
    """(m, n) unchanged, or - one case in `one_in` - a shape with aspect ratio >= 4 and 2..short_max lines on the
    short side (tall-skinny / short-fat): the class where libraries switch to QR-first / Gram / R-only paths."""
    if draw(st.integers(0, one_in - 1)) != 0:
        return m, n
    sh = draw(st.integers(2, short_max))
    lg = 4 * sh + draw(st.integers(0, 4))
    return (lg, sh) if draw(st.booleans()) else (sh, lg)


def seeds():
    return st.integers(0, 2 ** 32 - 1)


# ----------------------------------------------------------------------------
# long dimensions: sizes that cross the usual blocking / chunking thresholds (32, 64, 128, 256, 512).  Thousands of
# entries drawn one by one through Hypothesis would be the whole budget, so the entries come from a PRNG seeded with
# a DRAWN integer (the case stores the matrix itself, replay does not depend on the PRNG); values carry full 53-bit
# mantissas (pattern "dyadic": multiples of 1/32) - exact rational oracles accept any double.

LONG_DIMS = (33, 63, 64, 65, 100, 127, 129, 200, 255, 256, 257, 300, 511, 513, 600)


@st.composite
def long_dim(draw, cap=None):
    dims = [d for d in LONG_DIMS if cap is None or d <= cap]
    return draw(st.sampled_from(dims)) + draw(st.sampled_from([0, 0, 1, 3]))


@st.composite
def long_qarray(draw, m, n, pattern=None):
    """(m,n,4) array from a PRNG seeded with a drawn integer; patterns generic / int / sparse / pure_imag / dyadic."""
    if pattern is None:
        pattern = draw(st.sampled_from(["generic", "generic", "int", "sparse", "pure_imag"]))
    rng = np.random.RandomState(draw(seeds()))
    if pattern == "int":
        A = rng.randint(-4, 5, size=(m, n, 4)).astype(float)
    elif pattern == "dyadic":
        A = rng.randint(-128, 129, size=(m, n, 4)).astype(float) / 32.0
    else:
        A = rng.uniform(-4.0, 4.0, size=(m, n, 4))          # full 53-bit mantissas (not float32-representable)
    if pattern == "sparse":
        A = A * (rng.rand(m, n) < 0.3)[..., None]
    elif pattern == "pure_imag":
        A[..., 0] = 0.0
    return np.ascontiguousarray(A), "long:" + pattern
