"""Tiers, seeds, sharding over a process pool, statistics, evidence, exit codes."""
import hashlib
import importlib
import json
import math
import os
import sys
import time
import traceback
from collections import Counter
from concurrent.futures import ProcessPoolExecutor, as_completed

from . import findings, replay
from .env import VERIF, HarnessError

NPROC = int(os.environ.get("QV_NPROC", "16"))


class _Violation(Exception):
    pass


def get_property(pid):
    mod = importlib.import_module(f"qv.props.{pid.lower()}")
    return mod.PROPERTY


def derive_seed(base, pid, clause, shard):
    h = hashlib.sha256(f"{base}|{pid}|{clause}|{shard}".encode()).digest()
    return int.from_bytes(h[:8], "big") % (2 ** 63)


# Quick-tier budget multipliers: the per-clause quick budgets were sized when every property had to finish in a few
# seconds; the properties below still take < 10 s with them on 16 cores, so their generated budget is multiplied (the
# thorough tier is ~13x the base quick budget, so every scaled quick budget stays inside what the thorough soaks explored).
QUICK_SCALE = {"C03": 5, "C04": 5, "C05": 8, "C06": 8, "C07": 10, "C10": 6, "C12": 8, "C13": 2, "C15": 2,
               "C16": 4, "C18": 4, "C19": 3, "C20": 4}


def _plan(prop, tier):
    tasks = []
    scale = QUICK_SCALE.get(prop.id, 1) if tier == "quick" and not os.environ.get("QV_NO_QUICK_SCALE") else 1
    for cl in prop.clauses:
        n = int(cl.budget.get(tier, 0)) * scale
        if cl.enumerate is not None:
            ns = cl.max_shards
            for s in range(ns):
                tasks.append((prop.id, cl.name, tier, s, ns, 0))
        if cl.machine is not None and n > 0:
            ns = max(1, min(cl.max_shards, n // max(1, cl.min_per_shard)))
            per = int(math.ceil(n / ns))
            for s in range(ns):
                tasks.append((prop.id, cl.name, tier, s, ns, -per))
        if cl.strategy is not None and n > 0:
            ns = max(1, min(cl.max_shards, n // max(1, cl.min_per_shard)))
            per = int(math.ceil(n / ns))
            for s in range(ns):
                tasks.append((prop.id, cl.name, tier, s, ns, per))
    return tasks


def run_shard(task, base_seed):
    """Executed in a worker process."""
    pid, cname, tier, shard, nshards, per = task
    t0 = time.time()
    res = {"clause": cname, "shard": shard, "evaluations": 0, "nontrivial": set(), "labels": Counter(),
           "ratios": {}, "samples": [], "kf_hits": Counter(), "violations": [], "errors": [],
           "enumerated": 0, "wall": 0.0}
    try:
        from . import env
        env.load()
        import numpy as np
        prop = get_property(pid)
        cl = next(c for c in prop.clauses if c.name == cname)
        state = {"last": None}

        def body(case):
            from .lib import MalformedResult
            try:
                out = cl.check(case)
            except MalformedResult as e:
                # the library handed back something that cannot be read as the object it claims to be
                from .core import Out as _Out
                out = _Out()
                out.true("library result is a well-formed quaternion array / matrix", False, str(e))
            res["evaluations"] += 1
            for lb in out.labels:
                res["labels"][lb] += 1
            kf_sites = set()
            for f in out.failures:
                if findings.match(pid, cname, f):
                    kf_sites.add(f.site)
            for k, v in out.ratios.items():
                if k in kf_sites:
                    continue          # margins are reported for the healthy class only
                if v > res["ratios"].get(k, 0.0):
                    res["ratios"][k] = v
            if out.nontrivial:
                res["labels"]["nontrivial"] += 1
                d = replay.digest(case)
                if d not in res["nontrivial"]:
                    res["nontrivial"].add(d)
                    if len(res["samples"]) < 2:
                        smp = {"clause": cname, "case": replay.summarise(case)}
                        if out.sample:
                            smp["measured"] = replay.summarise(out.sample)
                        res["samples"].append(smp)
            unknown = []
            for f in out.failures:
                kf = findings.match(pid, cname, f)
                if kf:
                    res["kf_hits"][kf] += 1
                else:
                    unknown.append(f)
            if unknown:
                state["last"] = (case, unknown[0])
                raise _Violation(unknown[0].site)

        def record(case, out):
            """Statistics only (no raising)."""
            res["evaluations"] += 1
            for lb in out.labels:
                res["labels"][lb] += 1
            kf_sites = {f.site for f in out.failures if findings.match(pid, cname, f)}
            for k, v in out.ratios.items():
                if k not in kf_sites and v > res["ratios"].get(k, 0.0):
                    res["ratios"][k] = v
            for f in out.failures:
                kf = findings.match(pid, cname, f)
                if kf:
                    res["kf_hits"][kf] += 1
            if out.nontrivial:
                res["labels"]["nontrivial"] += 1
                d = replay.digest(case)
                if d not in res["nontrivial"]:
                    res["nontrivial"].add(d)
                    if len(res["samples"]) < 2:
                        smp = {"clause": cname, "case": replay.summarise(case)}
                        if out.sample:
                            smp["measured"] = replay.summarise(out.sample)
                        res["samples"].append(smp)

        def raise_unknown(case, out):
            unknown = [f for f in out.failures if not findings.match(pid, cname, f)]
            if unknown:
                state["last"] = (case, unknown[0])
                raise _Violation(unknown[0].site)

        # regression tier: committed inputs of repaired defects and of earlier surprises (replays/regression/
        # <property>-<clause>-*.json) are replayed first, in every tier, by the first shard of their clause; a "fixed"
        # entry suppresses nothing, so a defect that returns is a VIOLATION like any other
        # corpus tier (replays/corpus/, same naming): inputs that once told a faulty implementation from the correct one
        # (harvested from the seeded-change experiments, DESIGN 8.5) - on the real tree they hold; replayed like the
        # regression files.  QV_NO_CORPUS=1 switches the corpus off (to measure the generators alone).
        if shard == 0 and cl.machine is None:
            import glob as _glob
            dirs = ["regression"] + ([] if os.environ.get("QV_NO_CORPUS") == "1" else ["corpus"])
            for sub in dirs:
                for fn in sorted(_glob.glob(os.path.join(VERIF, "replays", sub, f"{pid}-{cname}-*.json"))):
                    try:
                        doc = replay.read_replay(fn)
                    except Exception:  # noqa: BLE001 - an unreadable corpus file is skipped, never an alarm
                        res["labels"][sub + "_replay_unreadable"] += 1
                        continue
                    res["labels"][sub + "_replay"] += 1
                    try:
                        body(doc["case"])
                    except _Violation:
                        case_, f = state["last"]
                        key = f.key()
                        if not any(v["key"] == key for v in res["violations"]):
                            res["violations"].append({"key": key, "case": replay.encode(case_), "failure": f.as_dict()})
                    except Exception:  # noqa: BLE001
                        if sub != "corpus":
                            raise
                        res["labels"]["corpus_replay_not_applicable"] += 1      # a case format the check no longer reads

        if per < 0:   # stateful machine
            import hypothesis
            from hypothesis import HealthCheck, Phase, settings
            from hypothesis.stateful import run_state_machine_as_test

            class _Hooks:
                after_step = staticmethod(raise_unknown)
                done = staticmethod(record)
            phases = [Phase.explicit, Phase.generate]
            if (tier == "thorough" and cl.shrink) or os.environ.get("QV_SHRINK") == "1":
                phases.append(Phase.shrink)
            st_ = settings(max_examples=-per, stateful_step_count=cl.steps, database=None, deadline=None,
                           derandomize=False, report_multiple_bugs=False, phases=phases,
                           suppress_health_check=list(HealthCheck), print_blob=False)
            Machine = cl.machine(tier, _Hooks)
            try:
                run_state_machine_as_test(hypothesis.seed(derive_seed(base_seed, pid, cname, shard))(Machine), settings=st_)
            except _Violation:
                case_, f = state["last"]
                res["violations"].append({"key": f.key(), "case": replay.encode(case_), "failure": f.as_dict()})
            except hypothesis.errors.Flaky:
                if state["last"] is not None:
                    case_, f = state["last"]
                    res["violations"].append({"key": f.key(), "case": replay.encode(case_), "failure": f.as_dict()})
                else:
                    raise
        elif per == 0:  # exhaustive enumeration, sharded by index
            cases = cl.enumerate(tier)
            for idx, case in enumerate(cases):
                if idx % nshards != shard:
                    continue
                res["enumerated"] += 1
                try:
                    body(case)
                except _Violation:
                    case_, f = state["last"]
                    key = f.key()
                    if not any(v["key"] == key for v in res["violations"]):
                        res["violations"].append({"key": key, "case": replay.encode(case_), "failure": f.as_dict()})
        else:
            import hypothesis
            from hypothesis import HealthCheck, Phase, given, settings

            phases = [Phase.explicit, Phase.generate]
            if (tier == "thorough" and cl.shrink) or os.environ.get("QV_SHRINK") == "1":
                phases.append(Phase.shrink)
            st = settings(max_examples=per, database=None, deadline=None, derandomize=False,
                          report_multiple_bugs=False, phases=phases,
                          suppress_health_check=[HealthCheck.too_slow, HealthCheck.data_too_large,
                                                 HealthCheck.filter_too_much],
                          print_blob=False)
            strat = cl.strategy(tier)
            test = hypothesis.seed(derive_seed(base_seed, pid, cname, shard))(st(given(strat)(body)))
            try:
                test()
            except _Violation:
                case_, f = state["last"]
                res["violations"].append({"key": f.key(), "case": replay.encode(case_), "failure": f.as_dict()})
            except hypothesis.errors.Flaky:
                if state["last"] is not None:
                    case_, f = state["last"]
                    res["violations"].append({"key": f.key(), "case": replay.encode(case_), "failure": f.as_dict()})
                else:
                    raise
    except Exception:  # noqa: BLE001
        res["errors"].append(traceback.format_exc())
    res["nontrivial"] = sorted(res["nontrivial"])
    res["labels"] = dict(res["labels"])
    res["kf_hits"] = dict(res["kf_hits"])
    res["wall"] = time.time() - t0
    return res


def run_fuzz_campaigns(prop, tier, base_seed):
    """atheris/libFuzzer campaigns (subprocesses) for clauses with a fuzz budget; {} when none/unavailable."""
    import shutil
    import subprocess
    import tempfile
    out = {}
    jobs = []
    root = None
    for cl in prop.clauses:
        if not cl.fuzz or cl.strategy is None:
            continue
        if root is None:
            root = tempfile.mkdtemp(prefix="qv_fuzz_")
        for k in range(int(cl.fuzz.get("procs", 2))):
            od = os.path.join(root, f"{cl.name}_{k}")
            seed = derive_seed(base_seed, prop.id, cl.name, 1000 + k) % (2 ** 31 - 1) + 1
            p = subprocess.Popen([sys.executable, "-m", "qv.fuzz", prop.id, cl.name, str(int(cl.fuzz.get("runs", 2000))),
                                  str(seed), od], cwd=VERIF, stdout=subprocess.DEVNULL, stderr=subprocess.DEVNULL,
                                 env=dict(os.environ, PYTHONHASHSEED="0"))
            jobs.append((cl.name, od, p))
    for cname, od, p in jobs:
        try:
            p.wait(timeout=3600)
        except Exception:  # noqa: BLE001 - a time budget hit is "inconclusive", never a violation
            p.kill()
        agg = out.setdefault(cname, {"executions": 0, "distinct_nontrivial": 0, "campaigns": 0, "corpus_files": 0,
                                     "kf_hits": 0, "violations": [], "skipped": None})
        sp = os.path.join(od, "stats.json")
        if os.path.exists(sp):
            try:
                stt = json.load(open(sp))
            except Exception:  # noqa: BLE001
                stt = {}
            if "skipped" in stt:
                agg["skipped"] = stt["skipped"]
            agg["executions"] += int(stt.get("executions", 0))
            agg["distinct_nontrivial"] += int(stt.get("distinct_nontrivial", 0))
            agg["corpus_files"] += int(stt.get("corpus_files", 0))
            agg["kf_hits"] += int(stt.get("kf_hits", 0))
            agg["campaigns"] += 1
        vp_ = os.path.join(od, "violation.json")
        if os.path.exists(vp_):
            agg["violations"].append(json.load(open(vp_)))
    if root:
        shutil.rmtree(root, ignore_errors=True)
    return out


def fuzz_summary_public(fs):
    return {k: {kk: vv for kk, vv in v.items() if kk != "violations"} | {"violations": len(v.get("violations", []))}
            for k, v in fs.items()}


def replay_known(prop):
    """Replay the committed witness of every open known finding; returns lines to print."""
    lines = []
    for e in findings.open_for(prop.id):
        status = "no-witness"
        w = e.get("witness")
        if w:
            path = os.path.join(VERIF, w)
            try:
                doc = replay.read_replay(path)
                cl = next(c for c in prop.clauses if c.name == doc["clause"])
                out = cl.check(doc["case"])
                hit = any(findings.match(prop.id, doc["clause"], f) == e["id"] for f in out.failures)
                status = "witness-fails" if hit else "stale(witness no longer fails)"
            except Exception as ex:  # noqa: BLE001
                status = f"witness-error({type(ex).__name__})"
        lines.append((e["id"], e["what"], status))
    return lines


def check(pid, tier, base_seed):
    t0 = time.time()
    from . import env
    env.load()
    from . import ref
    ref.selfcheck()
    prop = get_property(pid)
    tasks = _plan(prop, tier)
    results = []
    if NPROC <= 1:
        for t in tasks:
            results.append(run_shard(t, base_seed))
    else:
        import multiprocessing as mp
        ctx = mp.get_context("fork")
        with ProcessPoolExecutor(max_workers=NPROC, mp_context=ctx) as ex:
            futs = [ex.submit(run_shard, t, base_seed) for t in tasks]
            for f in as_completed(futs):
                results.append(f.result())
    results.sort(key=lambda r: (r["clause"], r["shard"]))
    fuzz_summary = run_fuzz_campaigns(prop, tier, base_seed) if tier == "thorough" else {}

    errors = [e for r in results for e in r["errors"]]
    per_clause = {}
    nontriv = set()
    labels = Counter()
    ratios = {}
    kf_hits = Counter()
    samples = []
    buckets = {}
    evaluations = 0
    for r in results:
        pc = per_clause.setdefault(r["clause"], {"evaluations": 0, "nontrivial": 0, "enumerated": 0, "wall_s": 0.0})
        pc["evaluations"] += r["evaluations"]
        pc["nontrivial"] += len(r["nontrivial"])
        pc["enumerated"] += r["enumerated"]
        pc["wall_s"] = round(pc["wall_s"] + r["wall"], 2)
        evaluations += r["evaluations"]
        nontriv.update((r["clause"], d) for d in r["nontrivial"])
        labels.update({f'{r["clause"]}:{k}': v for k, v in r["labels"].items()})
        for k, v in r["ratios"].items():
            kk = f'{r["clause"]}:{k}'
            if v > ratios.get(kk, 0.0):
                ratios[kk] = v
        kf_hits.update(r["kf_hits"])
        for s in r["samples"]:
            if sum(1 for x in samples if x["clause"] == s["clause"]) < 1 and len(samples) < 12:
                samples.append(s)
        for v in r["violations"]:
            key = (r["clause"],) + tuple(v["key"])
            buckets.setdefault(key, (r["clause"], v))

    for cname, fz in fuzz_summary.items():
        evaluations += fz.get("executions", 0)
        pc = per_clause.setdefault(cname, {"evaluations": 0, "nontrivial": 0, "enumerated": 0, "wall_s": 0.0})
        pc["fuzz_executions"] = fz.get("executions", 0)
        for v in fz.get("violations", []):
            key = (cname, v["failure"]["site"], tuple(sorted(v["failure"]["tags"])))
            buckets.setdefault(key, (cname, {"case": v["case"], "failure": v["failure"]}))

    # known findings: replay witnesses, print lines
    out_lines = []
    for kid, what, status in replay_known(prop):
        out_lines.append(f"KNOWN-FINDING: property={pid} {kid} {what} [{status}; hits={kf_hits.get(kid, 0)}]")

    # violations -> replay files
    vio_lines = []
    # sensitivity runs on scratch copies (QV_NO_EVIDENCE=1) must not litter /verif/replays
    rdir = os.environ.get("QV_REPLAY_DIR") or os.path.join(VERIF, "replays")
    os.makedirs(rdir, exist_ok=True)
    for key, (cname, v) in sorted(buckets.items(), key=lambda kv: str(kv[0])):
        dg = hashlib.sha1(json.dumps([key, v["case"]], sort_keys=True, default=str).encode()).hexdigest()[:10]
        path = os.path.join(rdir, f"{pid}-{cname}-{dg}.json")
        doc = {"property": pid, "clause": cname, "failure": v["failure"],
               "meta": {"tier": tier, "seed": base_seed}, "case": v["case"]}
        with open(path, "w") as f:
            json.dump(doc, f)
            f.write("\n")
        vio_lines.append(f"VIOLATION property={pid} replay={path}")
        vio_lines.append(f"  clause={cname} site={v['failure']['site']} msg={v['failure']['msg']} "
                         f"value={v['failure']['value']} bound={v['failure']['bound']} tags={v['failure']['tags']}")

    exhaustive_clauses = [c.name for c in prop.clauses if c.enumerate is not None]
    only_exhaustive = all((c.strategy is None and c.machine is None) or c.budget.get(tier, 0) == 0
                          for c in prop.clauses)
    if not samples:
        samples = [{"note": "no non-trivial sample recorded"}]
    evidence = {
        "property_id": pid,
        "tier": tier,
        "seed": int(base_seed),
        "level": "exploration",
        "wall_s": round(time.time() - t0, 2),
        "violations": len(buckets),
        "coverage": {
            "evaluations": int(evaluations),
            "distinct_nontrivial": int(len(nontriv)),
            "rule": prop.rule,
            "samples": samples,
            "exhaustive": bool(exhaustive_clauses) and only_exhaustive,
            "exhaustive_clauses": exhaustive_clauses,
            "exhaustive_note": prop.exhaustive_note,
            "per_clause": per_clause,
            "label_distribution": dict(sorted(labels.items())),
            "worst_error_over_bound": {k: float(f"{v:.3e}") for k, v in sorted(ratios.items())},
            "known_finding_hits": dict(kf_hits),
            "coverage_guided_fuzzing": fuzz_summary_public(fuzz_summary),
            "harness_errors": len(errors),
            "repo": env.REPO,
        },
        "assumptions": prop.assumptions,
    }
    if os.environ.get("QV_NO_EVIDENCE") != "1":   # sensitivity runs on scratch copies never write evidence
        os.makedirs(os.path.join(VERIF, "evidence"), exist_ok=True)
        with open(os.path.join(VERIF, "evidence", f"{pid}.json"), "w") as f:
            json.dump(evidence, f, indent=1)
            f.write("\n")

    if os.environ.get("QV_PRINT_MARGINS"):        # soak runs: bounds used to more than a quarter (candidates for a look)
        for k, v in sorted(ratios.items()):
            if 0.25 < v <= 1.0 and not k.endswith("multipliers <= 1"):
                print(f"MARGIN {pid} {k} worst/bound={v:.3f}")
    for ln in out_lines:
        print(ln)
    for ln in vio_lines:
        print(ln)
    print(f"[qv] {pid} tier={tier} seed={base_seed} evaluations={evaluations} "
          f"distinct_nontrivial={len(nontriv)} violations={len(buckets)} "
          f"kf_hits={sum(kf_hits.values())} errors={len(errors)} wall={time.time() - t0:.1f}s")
    if errors:
        print("HARNESS-ERROR (not a violation):", file=sys.stderr)
        for e in errors[:3]:
            print(e, file=sys.stderr)
    if buckets:
        return 1
    if errors:
        return 2
    return 0


def do_replay(path):
    from . import env
    env.load()
    doc = replay.read_replay(path)
    pid = doc["property"]
    prop = get_property(pid)
    cl = next(c for c in prop.clauses if c.name == doc["clause"])
    from .lib import MalformedResult
    try:
        out = cl.check(doc["case"])
    except MalformedResult as e:
        from .core import Out as _Out
        out = _Out()
        out.true("library result is a well-formed quaternion array / matrix", False, str(e))
    bad = False
    for f in out.failures:
        kf = findings.match(pid, cl.name, f)
        if kf:
            print(f"KNOWN-FINDING: property={pid} {kf} site={f.site} {f.msg}")
        else:
            bad = True
            print(f"VIOLATION property={pid} replay={path}")
            print(f"  clause={cl.name} site={f.site} msg={f.msg} value={f.value} bound={f.bound} tags={list(f.tags)}")
    if not out.failures:
        print(f"[qv] replay {path}: property {pid} clause {cl.name} holds on this case")
    return 1 if bad else 0
