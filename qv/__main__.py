import argparse
import os
import sys


def main():
    if os.environ.get("PYTHONHASHSEED") != "0":
        os.environ["PYTHONHASHSEED"] = "0"
        os.execv(sys.executable, [sys.executable, "-m", "qv"] + sys.argv[1:])
    ap = argparse.ArgumentParser(prog="qv")
    sub = ap.add_subparsers(dest="cmd", required=True)
    c = sub.add_parser("check")
    c.add_argument("property")
    c.add_argument("--tier", default=os.environ.get("VERIF_TIER", "quick"), choices=["quick", "thorough"])
    c.add_argument("--seed", type=int, default=None)
    r = sub.add_parser("replay")
    r.add_argument("path")
    sub.add_parser("selfcheck")
    args = ap.parse_args()
    from . import env
    try:
        if args.cmd == "selfcheck":
            from . import ref
            env.load()
            ref.selfcheck()
            print("[qv] selfcheck ok; repo =", env.REPO)
            return 0
        from . import runner
        if args.cmd == "check":
            seed = args.seed
            if seed is None:
                try:
                    seed = int(os.environ.get("VERIF_SEED", "1"))
                except ValueError:
                    seed = 1
            return runner.check(args.property.upper(), args.tier, seed)
        if args.cmd == "replay":
            return runner.do_replay(args.path)
    except env.HarnessError as e:
        print(f"HARNESS-ERROR: {e}", file=sys.stderr)
        return 2
    return 2


if __name__ == "__main__":
    sys.exit(main())
