"""Known-finding matching.  The file is committed and never written at run time."""
import fnmatch
import json
import os

from .env import VERIF

PATH = os.path.join(VERIF, "known_findings.json")
_cache = None


def load():
    global _cache
    if _cache is None:
        if os.path.exists(PATH):
            with open(PATH) as f:
                _cache = json.load(f)
        else:
            _cache = {"open": [], "fixed": []}
    return _cache


def open_for(prop):
    return [e for e in load().get("open", []) if e["property"] == prop]


def match(prop, clause, failure):
    """Return the id of the open known finding covering this failure, else None.

    A failure is covered iff property, clause, call site AND input-class tags match;
    tags are computed by the check from the input alone."""
    for e in open_for(prop):
        if not any(fnmatch.fnmatchcase(clause, c) for c in e.get("clauses", ["*"])):
            continue
        if not any(fnmatch.fnmatchcase(failure.site, s) for s in e.get("sites", ["*"])):
            continue
        need = e.get("tags_all", [])
        if not all(t in failure.tags for t in need):
            continue
        anyof = e.get("tags_any")
        if anyof and not any(t in failure.tags for t in anyof):
            continue
        return e["id"]
    return None
