"""Clause / Outcome vocabulary shared by all property modules."""
import math
from dataclasses import dataclass, field

import numpy as np

# debugging aid (never set by registered commands): QV_TRACE_RATIO=0.5 [QV_TRACE_SITE=substring] prints every bound used
# beyond that fraction
import os
import sys
_TRACE = float(os.environ["QV_TRACE_RATIO"]) if os.environ.get("QV_TRACE_RATIO") else None
_TRACE_SITE = os.environ.get("QV_TRACE_SITE", "")


@dataclass
class Failure:
    site: str          # call site / sub-clause, e.g. "quaternion_lu(return_p=False):reconstruction"
    msg: str
    value: float | None = None
    bound: float | None = None
    tags: tuple = ()   # input-class tags (computed from the INPUT only)

    def key(self):
        return (self.site, tuple(sorted(self.tags)))

    def as_dict(self):
        return {"site": self.site, "msg": self.msg, "value": _f(self.value), "bound": _f(self.bound),
                "tags": list(self.tags)}


def _f(x):
    if x is None:
        return None
    try:
        x = float(x)
    except Exception:
        return str(x)
    if math.isnan(x) or math.isinf(x):
        return str(x)
    return x


class LibraryRaised(Exception):
    pass


class Out:
    """Result of checking one case."""

    def __init__(self, tags=()):
        self.failures = []
        self.nontrivial = False
        self.labels = []
        self.ratios = {}
        self.tags = tuple(tags)   # default input-class tags for all failures of this case
        self.sample = None        # optional small dict of measured quantities for evidence

    # -- recording ---------------------------------------------------------
    def label(self, *names):
        self.labels.extend(names)

    def le(self, site, value, bound, msg="", tags=None):
        """Require value <= bound (NaN fails).  Tracks the worst value/bound ratio per site."""
        try:
            v = float(value)
            b = float(bound)
        except Exception:
            v, b = float("nan"), float("nan")
        ok = v <= b
        if b > 0 and not math.isnan(v):
            r = v / b
            if r > self.ratios.get(site, 0.0):
                self.ratios[site] = r
            if _TRACE is not None and r > _TRACE and (not _TRACE_SITE or _TRACE_SITE in site):
                print(f"TRACE ratio={r:.3f} site={site} value={v:.3e} bound={b:.3e} tags={self.tags if tags is None else tags} {msg}",
                      file=sys.stderr, flush=True)
        if not ok:
            self.failures.append(Failure(site, msg or "bound exceeded", v, b,
                                         self.tags if tags is None else tuple(tags)))
        return ok

    def true(self, site, cond, msg="", tags=None, value=None):
        if not bool(cond):
            self.failures.append(Failure(site, msg or "condition false", value, None,
                                         self.tags if tags is None else tuple(tags)))
        return bool(cond)

    def equal_bits(self, site, a, b, msg="", tags=None):
        """Bit-for-bit equality of two float arrays (shape included; -0.0 == 0.0 NOT distinguished
        by default because sign of zero is not part of any listed property)."""
        a = np.asarray(a)
        b = np.asarray(b)
        ok = a.shape == b.shape and bool(np.array_equal(a, b))
        if not ok:
            if a.shape != b.shape:
                m = f"shape {a.shape} != {b.shape}"
                val = None
            else:
                val = float(np.max(np.abs(a - b))) if a.size else 0.0
                m = f"max abs diff {val:.3e}"
            self.failures.append(Failure(site, (msg + " " + m).strip(), val, 0.0,
                                         self.tags if tags is None else tuple(tags)))
        return ok

    def call(self, site, fn, *args, tags=None, **kw):
        """Call library code; an exception is a property failure (not a harness error)."""
        try:
            return True, fn(*args, **kw)
        except Exception as e:  # noqa: BLE001 - the library may raise anything
            self.failures.append(Failure(site, f"raised {type(e).__name__}: {e}"[:300], None, None,
                                         self.tags if tags is None else tuple(tags)))
            return False, None


@dataclass
class Clause:
    name: str
    check: callable                    # case -> Out
    strategy: callable = None          # tier -> hypothesis strategy   (generated clause)
    enumerate: callable = None         # tier -> list of cases         (exhaustive clause)
    machine: callable = None           # (tier, hooks) -> RuleBasedStateMachine class (stateful clause); the machine
                                       # records its history as a plain case and calls hooks.after_step(case, out)
                                       # after every step and hooks.done(case, out) in teardown; `check` replays a
                                       # recorded history without Hypothesis
    steps: int = 8                     # stateful_step_count
    fuzz: dict = None                  # thorough tier only: {"runs": N, "procs": P} coverage-guided (atheris) campaigns
                                       # driving this clause's strategy through hypothesis.fuzz_one_input
    budget: dict = field(default_factory=lambda: {"quick": 100, "thorough": 1000})
    max_shards: int = 16
    min_per_shard: int = 10
    shrink: bool = True                # thorough tier: let Hypothesis shrink (disable for very expensive checks)
    doc: str = ""


@dataclass
class Property:
    id: str
    title: str
    rule: str                          # stated non-triviality rule
    clauses: list
    assumptions: list = field(default_factory=list)
    exhaustive_note: str = ""
