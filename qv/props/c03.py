"""C03 - Newton-Schulz solvers converge monotonically to the Moore-Penrose inverse."""
import math

import numpy as np
from hypothesis import strategies as st

from .. import gen, ref
from ..core import Clause, Out, Property
from ..env import L
from ..lib import F, Q, S, ahash, case_flag, quiet

U_ = ref.U
RANK_REL = 1e-10
C_MODEL = 1e3
GAMMAS = [1.0, 0.9, 0.75, 0.5, 0.3, 0.1]


def k_safe(order, gamma):
    """Largest k with (growth of rounding noise in null(A)) * u <= 1e-7."""
    growth = 3.0 if order == 3 else 1.0 + gamma
    return int(math.floor(math.log(1e-7 / U_) / math.log(growth)))


@st.composite
def ns_inputs(draw, tier, full_rank_only=False, rank_def_only=False, wide_range=True):
    hi = 6 if tier == "quick" else 7
    m, n = draw(st.integers(1, hi)), draw(st.integers(1, hi))
    k = min(m, n)
    src = draw(st.sampled_from(["spectrum", "spectrum", "spectrum", "pattern"]))
    if rank_def_only:
        src = "spectrum"
    if src == "spectrum":
        if rank_def_only:
            r = draw(st.integers(0, max(0, k - 1))) if not (m != n and draw(st.booleans())) else draw(st.integers(0, k))
        elif full_rank_only:
            r = k
        else:
            r = draw(st.sampled_from([k, k, k, draw(st.integers(0, k))]))
        s = np.zeros(k)
        if r and wide_range and draw(st.integers(0, 3)) == 0:
            c = draw(st.sampled_from([1e5, 1e6, 1e7, 1e8]))
            s[:r] = [c ** (-(i / max(1, r - 1))) for i in range(r)] if r > 1 else [1.0]
            if r > 2 and draw(st.booleans()):
                s[1:r - 1] = np.sort(np.array(draw(st.lists(st.sampled_from([1.0, 0.5, 0.25, 0.1]), min_size=r - 2, max_size=r - 2))))[::-1]
            s[:r] = s[:r] * 10.0 ** draw(st.integers(-2, 2))
            skind = "wide_dynamic_range"
        elif r:
            s[:r], skind = draw(gen.spectrum(r, kinds=("distinct", "repeated", "clustered", "geometric", "allequal"),
                                             cond_max=1e4, scale_exp=(-3, 3)))
        else:
            skind = "zero"
        A = draw(gen.matrix_with_svals(m, n, s))
        kind = "spectrum:" + skind
    else:
        A, pat = draw(gen.qarray(m, n, draw(st.sampled_from(["generic", "int", "pure_imag", "sparse"]))))
        kind = "pattern:" + pat
    if src == "pattern" and draw(st.integers(0, 3)) == 0 and min(m, n) >= 2:
        # exactly empty rows / columns (structurally empty lines of a sparse operand)
        A = A.copy()
        if draw(st.booleans()):
            A[:, draw(st.integers(0, n - 1))] = 0.0
        else:
            A[draw(st.integers(0, m - 1))] = 0.0
        kind = kind + "|empty_line"
    if draw(st.integers(0, 3)) == 0:
        A = A * 10.0 ** draw(st.sampled_from([-10, -9, -8, -6, 6, 8, -20, -30, -40, 20, 40]))      # the recurrence is scale covariant
        kind = kind + "|scaled"
    return np.ascontiguousarray(A), kind


def info_for(A):
    m, n, _ = A.shape
    sref = ref.svals(A)
    s1 = float(sref[0]) if len(sref) else 0.0
    rank = int(np.sum(sref > RANK_REL * s1)) if s1 > 0 else 0
    smin = float(sref[rank - 1]) if rank else 0.0
    kappa = s1 / smin if rank else 1.0
    # a singular value between the noise level of the reference SVD and the rank threshold is neither "zero" nor part
    # of a well-defined A^+ at working precision: statements about the distance to A^+ are not made for such inputs
    ambiguous = bool(s1 > 0 and np.any((sref > 1e-13 * s1) & (sref <= RANK_REL * s1)))
    return {"sref": sref, "s1": s1, "rank": rank, "smin": smin, "kappa": kappa, "fro": ref.fro(A),
            "pinv_norm": (1.0 / smin if rank else 0.0), "ambiguous_rank": ambiguous}


def model_iterate(A, k, order, gamma):
    """X_k = V diag(t_k/s) U^H evaluated as a matrix function of the complex adjoint (basis independent)."""
    m, n, _ = A.shape
    M = ref.chi_c(A)
    Uc, sc, Vch = np.linalg.svd(M, full_matrices=False)
    fro2 = float(np.sum(sc * sc)) / 2.0           # ||A||_F^2 (each quaternion singular value appears twice)
    if fro2 == 0.0:
        return np.zeros((n, m, 4))
    t = sc * sc / fro2
    for _ in range(k):
        if order == 3:
            t = t * (3.0 - 3.0 * t + t * t)      # = 1-(1-t)^3, written without cancellation for tiny t
        else:
            t = t * (1.0 + gamma * (1.0 - t))
    with np.errstate(divide="ignore", invalid="ignore"):
        # only singular values at the noise level of the reference SVD count as zero here: a small but genuine value
        # (1e-10 relative, say) takes part in the recurrence exactly like the others
        f = np.where(sc > 1e-13 * sc[0], t / sc, 0.0)
    Xc = (Vch.conj().T * f) @ Uc.conj().T
    return ref.from_chi_c(Xc)


def penrose(A, X):
    AX = ref.qmm(A, X)
    XA = ref.qmm(X, A)
    return {"AXA-A": ref.fro(ref.qmm(AX, A) - A), "XAX-X": ref.fro(ref.qmm(XA, X) - X),
            "AX-herm": ref.fro(AX - ref.conjT(AX)), "XA-herm": ref.fro(XA - ref.conjT(XA))}


def _digest(x):
    """Value digest of a returned (X, histories, ...) tuple."""
    if isinstance(x, dict):
        return tuple((str(k), _digest(v)) for k, v in sorted(x.items(), key=lambda kv: str(kv[0])))
    if isinstance(x, (list, tuple)):
        return tuple(_digest(v) for v in x)
    if isinstance(x, np.ndarray):
        return ("nd", x.shape, str(x.dtype), ahash(x))
    return repr(x)


def run_solver(out, order, A, gamma, max_iter, tol, compute_residuals=True, sparse=False, warmup=None):
    """warmup: None, or a matrix on which the SAME solver object is called first (its result is discarded): the
    measured call must not depend on it (every call starts from X0 = A^H/||A||_F^2)."""
    vb = case_flag(A, 6)          # one case in six runs the verbose path: same iterates, same histories
    if vb:
        out.label("verbose=True")
    if order == 3:
        solver = L.solver.HigherOrderNewtonSchulzPseudoinverse(max_iter=max_iter, tol=tol, verbose=vb)
        site = "HigherOrderNS"
    else:
        solver = L.solver.NewtonSchulzPseudoinverse(gamma=gamma, max_iter=max_iter, tol=tol, verbose=vb,
                                                     compute_residuals=compute_residuals)
        site = "NewtonSchulz"
    if warmup is not None:
        okw, kept = out.call(site + ".compute(warm-up call)", quiet, solver.compute, Q(warmup))
        if not okw:
            return site, None
        kept_before = _digest(kept)
    arg = S(A) if sparse else Q(A)
    h0 = ahash(arg)
    ok, r = out.call(site + ".compute", quiet, solver.compute, arg)
    if warmup is not None:
        # what the caller kept from the earlier call (X and the histories that describe it) stays what it was
        out.true(site + ":result of the earlier call on the same solver unchanged by the later call",
                 _digest(kept) == kept_before, "X / histories returned by the warm-up call changed during the next call")
    if not ok:
        return site, None
    out.true(site + ":argument unchanged", ahash(arg) == h0, "input modified")
    X, residuals, third = r
    return site, (F(np.asarray(X)), residuals, third)


# ----------------------------------------------------------------------------
# clause: k-th iterate equals the spectral model; histories are truthful


@st.composite
def model_cases(draw, tier):
    A, kind = draw(ns_inputs(tier))
    order = draw(st.sampled_from([2, 2, 3]))
    gamma = draw(st.sampled_from(GAMMAS)) if order == 2 else 1.0
    K = 12 if tier == "quick" else 30
    if "wide_dynamic_range" in kind:
        K = 70          # the smallest singular direction needs ~log(kappa^2)/log(3) (resp. /log(1+gamma)) sweeps
    k = draw(st.integers(1, K))
    kk = draw(st.integers(k, K))
    return {"A": A, "kind": kind, "order": order, "gamma": gamma, "k": k, "K": kk,
            "compute_residuals": draw(st.booleans()) if order == 2 else True,
            "sparse": draw(st.booleans()) if order == 2 else False,
            "warmup": draw(st.sampled_from([None, None, "same", "perturbed", "transposed_shape"]))}


@st.composite
def long_model_cases(draw, tier):
    """One long dimension against <= 3 (tall / wide), generic full-rank entries."""
    shape_kind = draw(st.sampled_from(["long", "long", "aspect_illcond", "aspect_illcond", "both_large"]))
    order = draw(st.sampled_from([2, 2, 3]))
    Kmax = 10
    if shape_kind == "long":
        Lg, sh = draw(gen.long_dim(cap=257 if tier == "quick" else 520)), draw(st.integers(1, 3))
        A, pat = draw(gen.long_qarray(Lg, sh, draw(st.sampled_from(["generic", "int"]))))
        A = A / 8.0
    elif shape_kind == "aspect_illcond":
        # strongly rectangular (aspect ratio >= 4) AND ill conditioned through its singular vectors (not a row or
        # column scaling), run long enough for the small singular directions to matter
        sh = draw(st.integers(2, 4))
        Lg = sh * draw(st.integers(4, 6))
        c = draw(st.sampled_from([1e5, 1e6, 1e7, 1e8]))
        sv = np.array([c ** (-(i / (sh - 1))) for i in range(sh)])
        A = draw(gen.matrix_with_svals(Lg, sh, sv))
        pat = f"svals:cond{c:g}"
        Kmax = 70
    else:
        # both dimensions past the blocking size 64 (tall, generic, well conditioned), run past convergence
        m_, n_ = draw(st.sampled_from([(80, 64), (96, 65), (70, 66)]))
        A, pat = draw(gen.long_qarray(m_, n_, "generic"))
        A = A / 8.0
        Kmax = 30
    if draw(st.booleans()):
        A = np.ascontiguousarray(ref.conjT(A))
    gamma = draw(st.sampled_from(GAMMAS)) if order == 2 else 1.0
    k = draw(st.integers(1, Kmax))
    if shape_kind != "long":
        k = draw(st.integers(Kmax // 2, Kmax))       # long runs: the late sweeps are where instabilities grow
        if order == 2:
            gamma = draw(st.sampled_from([1.0, 1.0, 1.0, 0.9]))
    kk = draw(st.integers(k, Kmax))
    return {"A": A, "kind": "pattern:" + pat, "order": order, "gamma": gamma, "k": k, "K": kk,
            "compute_residuals": draw(st.sampled_from([False, False, True])) if order == 2 else True,
            "sparse": draw(st.booleans()) if order == 2 else False,
            "warmup": draw(st.sampled_from([None, None, "same"]))}


def check_model(case):
    A, order, gamma, k, K = case["A"], case["order"], case["gamma"], case["k"], case["K"]
    m, n, _ = A.shape
    inf = info_for(A)
    rank_def = inf["rank"] < min(m, n)
    out = Out()
    out.label(case["kind"], f"order={order}", "rank_deficient" if rank_def else "full_rank",
              "wide" if m < n else ("tall" if m > n else "square"))
    if inf["rank"] == 0:
        out.label("zero_matrix")
    if rank_def:
        ks = k_safe(order, gamma)
        k = min(k, ks)
        K = min(max(K, k), ks)
    # rounding noise of size u is injected into null(A) at EVERY step and multiplied by (1+gamma) (resp. 3) per
    # later step: geometric accumulation ((1+gamma)^k - 1)/gamma  (resp. (3^k - 1)/2)
    gr = 3.0 if order == 3 else 1.0 + gamma
    g = ((gr ** k - 1.0) / (gr - 1.0)) if rank_def else 1.0
    wk = case.get("warmup")
    warm = None
    if wk == "same":
        warm = A
    elif wk == "perturbed":
        warm = A * (1.0 + 1.0 / 64.0) + (inf["fro"] / 64.0) * ref.conj(A[::-1, ::-1])
    elif wk == "transposed_shape":
        warm = ref.conjT(A)
    if wk:
        out.label("reused_solver:" + wk)
    site, r = run_solver(out, order, A, gamma, k, 0.0, case["compute_residuals"], case["sparse"], warmup=warm)
    if r is None:
        return out
    X, residuals, third = r
    if not out.true(site + ":X shape", X.shape == (n, m, 4), f"{X.shape}"):
        return out
    if not out.true(site + ":X finite", np.all(np.isfinite(X)), "NaN/inf iterate"):
        return out
    if inf["ambiguous_rank"]:
        out.label("ambiguous_rank(model comparison skipped)")
        return out
    model = model_iterate(A, k, order, gamma)
    scale = inf["kappa"] * inf["pinv_norm"] if inf["rank"] else 1.0
    out.le(site + ":k-th iterate follows the spectral recurrence", ref.fro(X - model),
           C_MODEL * U_ * g * scale * max(1, m, n) + 1e-300,
           f"k={k} gamma={gamma} rank={inf['rank']} kappa={inf['kappa']:.2e}")
    # ---- histories
    floor = 1e3 * U_ * inf["kappa"] * inf["fro"] * g + 1e-300
    if case["compute_residuals"]:
        pen = penrose(A, X)
        okl = all(len(residuals[key]) == k for key in pen)
        out.true(site + ":history length", okl, f"{[len(residuals[key]) for key in pen]} for max_iter={k}, tol=0")
        if okl:
            scl = {"AXA-A": inf["fro"], "XAX-X": ref.fro(X), "AX-herm": 1.0, "XA-herm": 1.0}
            for key, val in pen.items():
                rep = float(residuals[key][k - 1])
                out.le(site + f":residuals[{key}] is the true value for the returned X", abs(rep - val),
                       1e-9 * val + 1e3 * U_ * inf["kappa"] * g * scl[key] * max(m, n) + 1e-300, f"reported {rep:.3e} true {val:.3e}")
            hist = [float(v) for v in residuals["AXA-A"]]
            if len(hist) >= 2:
                worst = max(hist[i + 1] - hist[i] * (1 + 1e-9) for i in range(len(hist) - 1))
                out.le(site + ":||AXA-A|| never increases", worst, floor, f"history {hist[:5]}...")
    if order == 2:
        cov = [float(c) for c in third]
        out.true(site + ":covariance history length", len(cov) == k, f"{len(cov)} for max_iter={k}")
        if cov:
            a2 = inf["fro"] ** 2
            X0 = ref.conjT(A) / a2 if a2 > 0 else np.zeros((n, m, 4))
            E0 = (ref.qmm(X0, A) - ref.qeye(n)) if m >= n else (ref.qmm(A, X0) - ref.qeye(m))
            out.le(site + ":covariances[0] is ||X0 A - I|| for X0 = A^H/||A||_F^2", abs(cov[0] - ref.fro(E0)),
                   1e-9 * ref.fro(E0) + 1e3 * U_ * max(m, n))
    # ---- prefix determinism: run K >= k reproduces run k bit-for-bit on the common prefix
    if K > k:
        site2, r2 = run_solver(out, order, A, gamma, K, 0.0, case["compute_residuals"], case["sparse"])
        if r2 is not None:
            X2, res2, third2 = r2
            if case["compute_residuals"]:
                for key in residuals:
                    out.true(site + ":history prefix is reproducible", list(res2[key][:k]) == list(residuals[key]),
                             f"run(max_iter={K})[:{k}] != run(max_iter={k}) for {key}")
            if order == 2:
                out.true(site + ":covariance prefix is reproducible", list(third2[:k]) == list(third), f"K={K} k={k}")
                if len(third2) > k:
                    Ek = (ref.qmm(X, A) - ref.qeye(n)) if m >= n else (ref.qmm(A, X) - ref.qeye(m))
                    out.le(site + ":covariances[k] is the true deviation of iterate k", abs(float(third2[k]) - ref.fro(Ek)),
                           1e-9 * ref.fro(Ek) + 1e3 * U_ * inf["kappa"] * g * max(m, n), f"k={k}")
    out.nontrivial = rank_def or m < n or inf["kappa"] > 10 or any(t in case["kind"] for t in ("repeated", "clustered", "allequal"))
    out.sample = {"shape": [m, n], "rank": inf["rank"], "kappa": inf["kappa"], "order": order, "gamma": gamma, "k": k}
    return out


# ----------------------------------------------------------------------------
# clause: stop-on-tolerance


@st.composite
def stop_cases(draw, tier):
    A, kind = draw(ns_inputs(tier, full_rank_only=draw(st.booleans())))
    order = draw(st.sampled_from([2, 2, 3]))
    gamma = draw(st.sampled_from([1.0, 0.9, 0.75, 0.5])) if order == 2 else 1.0
    return {"A": A, "kind": kind, "order": order, "gamma": gamma, "tol": 10.0 ** draw(st.integers(-12, -2)),
            "compute_residuals": draw(st.booleans()) if order == 2 else True}


def check_stop(case):
    A, order, gamma, tol = case["A"], case["order"], case["gamma"], case["tol"]
    m, n, _ = A.shape
    inf = info_for(A)
    out = Out()
    rank_def = inf["rank"] < min(m, n)
    out.label(case["kind"], f"order={order}", "rank_deficient" if rank_def else "full_rank")
    if inf["rank"] == 0 or inf["kappa"] > 1e4 or inf["ambiguous_rank"]:
        out.label("skipped(zero, ill-conditioned or a singular value between noise and the rank threshold)")
        return out
    budget = 400 if not rank_def else k_safe(order, gamma)
    site, r = run_solver(out, order, A, gamma, budget, tol, case["compute_residuals"], False)
    if r is None:
        return out
    X, residuals, third = r
    if not out.true(site + ":X finite", np.all(np.isfinite(X)), "NaN/inf"):
        return out
    n_it = len(residuals["AXA-A"]) if case["compute_residuals"] else len(third)
    stopped = n_it < budget
    out.label("stopped_on_tol" if stopped else "budget_exhausted")
    if stopped:
        pinv = ref.pinv(A, rtol=RANK_REL)
        # rank-deficient inputs: the component of X along the numerically-zero singular directions is rounding noise
        # that grows by (1+gamma) (resp. 3) per sweep - the same geometric factor as in the model clause
        gr_ = 3.0 if order == 3 else 1.0 + gamma
        g_ = ((gr_ ** n_it - 1.0) / (gr_ - 1.0)) if rank_def else 1.0
        floor = 1e3 * U_ * inf["kappa"] * inf["pinv_norm"] * max(m, n) * g_
        dist = ref.fro(X - pinv)
        if case["compute_residuals"]:
            pen = penrose(A, X)
            quantity = max(pen.values()) if order == 2 else pen["AXA-A"]
            out.le(site + ":stopped implies true residual below tol", quantity,
                   tol * (1 + 1e-9) + 1e3 * U_ * inf["kappa"] * max(inf["fro"], 1.0) * max(m, n), f"tol={tol:g}")
            out.le(site + ":stopped implies ||X-A^+|| <= tol/s_min^2", dist, tol / inf["smin"] ** 2 + floor,
                   f"tol={tol:g} s_min={inf['smin']:.3e}")
        else:
            # stopping rule: ||X_prev A - I|| < tol for the PREVIOUS iterate  =>  ||X - A^+|| <= tol / s_min
            out.le(site + ":stopped (covariance rule) implies ||X-A^+|| <= tol/s_min", dist, tol / inf["smin"] + floor,
                   f"tol={tol:g} s_min={inf['smin']:.3e}")
    if stopped and n_it >= 1:
        # whatever made the solver stop, the returned X is the n_it-th iterate of the documented recurrence and the last
        # history entries describe THAT matrix (no extra step, no stale entry on the tolerance exit)
        gr = 3.0 if order == 3 else 1.0 + gamma
        g = ((gr ** n_it - 1.0) / (gr - 1.0)) if rank_def else 1.0
        model = model_iterate(A, n_it, order, gamma)
        scale = inf["kappa"] * inf["pinv_norm"]
        out.le(site + ":the returned X is the iterate of the documented recurrence (tolerance exit)", ref.fro(X - model),
               C_MODEL * U_ * g * scale * max(1, m, n) + 1e-300, f"iterations={n_it} gamma={gamma} tol={tol:g}")
        if case["compute_residuals"]:
            pen = penrose(A, X)
            scl = {"AXA-A": inf["fro"], "XAX-X": ref.fro(X), "AX-herm": 1.0, "XA-herm": 1.0}
            lens = {key: len(residuals.get(key, [])) for key in pen}
            out.true(site + ":all residual histories have one entry per sweep (tolerance exit)",
                     all(v == n_it for v in lens.values()), f"{lens} for {n_it} sweeps")
            for key, val in pen.items():
                if len(residuals.get(key, [])) == n_it:
                    rep = float(residuals[key][n_it - 1])
                    out.le(site + f":residuals[{key}][-1] is the true value for the returned X (tolerance exit)",
                           abs(rep - val), 1e-9 * val + 1e3 * U_ * inf["kappa"] * g * scl[key] * max(m, n) + 1e-300,
                           f"reported {rep:.3e} true {val:.3e}")
    out.nontrivial = stopped and (m != n or inf["kappa"] > 10)
    out.sample = {"shape": [m, n], "rank": inf["rank"], "kappa": inf["kappa"], "tol": tol, "iterations": n_it}
    return out


# ----------------------------------------------------------------------------
# clause: rank-deficient inputs beyond the safe budget (known instability region)


@st.composite
def beyond_cases(draw, tier):
    A, kind = draw(ns_inputs(tier, rank_def_only=True))
    order = draw(st.sampled_from([2, 3]))
    gamma = draw(st.sampled_from([1.0, 0.5])) if order == 2 else 1.0
    extra = draw(st.sampled_from([10, 40, 80]))
    return {"A": A, "kind": kind, "order": order, "gamma": gamma, "extra": extra}


def check_beyond(case):
    A, order, gamma = case["A"], case["order"], case["gamma"]
    m, n, _ = A.shape
    inf = info_for(A)
    rank_def = 0 < inf["rank"] < min(m, n)
    tags = ("rank_deficient", "budget>k_safe") if rank_def else ()
    out = Out(tags=tags)
    if not rank_def:
        out.label("not_rank_deficient(skipped)")
        return out
    k = k_safe(order, gamma) + case["extra"]
    out.label(f"order={order}", f"extra={case['extra']}")
    site, r = run_solver(out, order, A, gamma, k, 0.0, True, False)
    if r is None:
        return out
    X, residuals, third = r
    if out.true(site + ":X finite (beyond k_safe)", np.all(np.isfinite(X)), f"NaN/inf after {k} iterations"):
        pinv = ref.pinv(A, rtol=RANK_REL)
        out.le(site + ":X stays at A^+ (beyond k_safe)", ref.fro(X - pinv), 1e-6 * inf["kappa"] * inf["pinv_norm"],
               f"k={k} rank={inf['rank']} of {min(m, n)}")
    out.nontrivial = True
    return out


PROPERTY = Property(
    id="C03",
    title="Newton-Schulz solvers converge monotonically to the Moore-Penrose inverse",
    rule="rank-deficient input, or m < n, or cond(A) > 10, or a repeated/clustered singular value",
    clauses=[
        Clause("spectral_model", check_model, strategy=model_cases, budget={"quick": 900, "thorough": 12000}),
        Clause("spectral_model_long_dimension", check_model, strategy=long_model_cases, budget={"quick": 48, "thorough": 400},
               shrink=False),
        Clause("stop_on_tolerance", check_stop, strategy=stop_cases, budget={"quick": 300, "thorough": 4000}),
        Clause("beyond_safe_budget", check_beyond, strategy=beyond_cases, budget={"quick": 60, "thorough": 600}),
    ],
    assumptions=[
        "spectral model evaluated as a matrix function of the harness's complex adjoint via LAPACK (basis independent)",
        "tol = 0 is used to observe exactly k iterations",
        "rank-deficient inputs are compared with the model only while (1+gamma)^k * u (3^k * u) <= 1e-7; the region beyond "
        "is exercised by a separate clause (known finding KF-C03-1)",
    ],
)
