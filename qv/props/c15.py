"""C15 - matrix norms are genuine, mutually consistent norms.

Oracles (all independent of the library):
  * Frobenius       sqrt of the EXACT rational sum of squares (Fractions)
  * induced 1 / inf max column / row sum of 120-bit moduli (integer sqrt of exact rationals)
  * spectral        sigma_1 from LAPACK on the harness's own complex adjoint chi_c (ref.svals)
  * axioms          homogeneity, triangle inequality, sub-multiplicativity and the cross-norm
                    inequalities are checked on the library's own values; the matrices alpha*A,
                    A+B, A*B are formed by the harness (ref.qmul / ref.qmm / numpy +), never by the
                    library, and the rounding of that formation is part of the stated slack.

Relative accuracies used everywhere (u = 2^-53, A is m x n, N = 4mn real components):
  REL_F   = (8mn + 256) u    numpy/BLAS sum of N squares: <= (N+1)u on the sum, halved by sqrt,
                             +u for the sqrt  =>  <= (2mn+2)u ; constant x4 and +256u head-room
  REL_1   = (4m + 256) u     each modulus <= 3u (4 squares, 3 adds, sqrt), m-term sum <= (m-1)u
  REL_INF = (4n + 256) u
  REL_2   = (64(m+n) + 1024)u LAPACK gesdd on the 4m x 4n real embedding (library) / the 2m x 2n
                             complex adjoint (oracle): |sigma_1 error| <= p(m,n) u sigma_1
Magnitude windows: 10^+-60 for F/1/inf ("wide" mode; squares <= 1e240 are representable),
10^+-8 for every matrix handed to the spectral norm ("svd" mode), as stated in DESIGN.md.
"""
import hashlib
import math
from fractions import Fraction

import numpy as np
from hypothesis import strategies as st
from hypothesis.extra import numpy as hnp
from scipy import sparse as sp

from .. import gen, ref
from ..core import Clause, Out, Property
from ..env import L
from ..lib import ahash, Q, S

U_ = ref.U


# ----------------------------------------------------------------------------
# tolerances


def rel_of(name, m, n):
    if name == "fro":
        return (8 * m * n + 256) * U_
    if name == "one":
        return (4 * m + 256) * U_
    if name == "inf":
        return (4 * n + 256) * U_
    if name == "two":
        return (64 * (m + n) + 1024) * U_
    raise KeyError(name)


NORMS_WIDE = ("fro", "one", "inf")
NORMS_ALL = ("fro", "one", "inf", "two")

# ----------------------------------------------------------------------------
# exact / high-precision oracles


def sqrt_hp(fr):
    """sqrt of a non-negative Fraction as a Fraction with relative error <= 2^-118."""
    if fr == 0:
        return Fraction(0)
    n, d = fr.numerator, fr.denominator
    shift = max(0, 240 - (n.bit_length() - d.bit_length()))
    if shift % 2:
        shift += 1
    val = (n << shift) // d
    return Fraction(math.isqrt(val), 1 << (shift // 2))


def moduli_hp(A):
    """m x n list of 120-bit rational moduli."""
    m, n, _ = A.shape
    out = []
    for i in range(m):
        row = []
        for j in range(n):
            s = Fraction(0)
            for c in range(4):
                f = Fraction(float(A[i, j, c]))
                s += f * f
            row.append(sqrt_hp(s))
        out.append(row)
    return out


def exact_norms(A):
    """dict fro/one/inf (floats, correctly rounded to ~1 ulp) + 'mod' float array of moduli."""
    m, n, _ = A.shape
    mod = moduli_hp(A)
    one = max(sum(mod[i][j] for i in range(m)) for j in range(n))
    inf = max(sum(mod[i][j] for j in range(n)) for i in range(m))
    fro = ref.sqrt_fraction(ref.fro_exact_sq(A))
    return {"fro": fro, "one": float(one), "inf": float(inf),
            "mod": np.array([[float(x) for x in r] for r in mod], dtype=float).reshape(m, n)}


def sigma1(A):
    s = ref.svals(A)
    return float(s[0]) if len(s) else 0.0


# ----------------------------------------------------------------------------
# input classes (from the input alone)


def shape_class(A):
    m, n = A.shape[:2]
    if min(m, n) == 1:
        return "vector_shaped"
    return "tall" if m > n else ("wide" if m < n else "square")


def n_planes(A):
    return int(sum(1 for c in range(4) if np.any(A[..., c] != 0.0)))


def tags_of(A):
    t = [shape_class(A)]
    if not np.any(A != 0.0):
        t.append("zero_matrix")
    elif n_planes(A) == 1:
        t.append("single_axis")
    return tuple(t)


def is_nontrivial(A):
    """min(m,n) >= 2 and A is not (a real matrix) x (a single basis unit)."""
    return min(A.shape[:2]) >= 2 and n_planes(A) >= 2


# ----------------------------------------------------------------------------
# calling the library


def _flt(out, site, r):
    """Library return value -> python float (a non-scalar / non-real return is a failure)."""
    try:
        a = np.asarray(r)
        if a.shape != () or a.dtype.kind not in "fiu":
            raise TypeError(f"returned {type(r).__name__} shape={a.shape} dtype={a.dtype}")
        return float(a)
    except Exception as e:  # noqa: BLE001
        out.true(site + ":returns a real scalar", False, str(e)[:200])
        return None


ORD_OF = {"fro": "fro", "one": 1, "inf": np.inf, "two": 2}


def lib_norm(out, A, name, what=""):
    """matrix_norm(A, ord) for the canonical spelling of `name`; None if the call failed."""
    site = f"matrix_norm(ord={name}){what}"
    ok, r = out.call(site, L.utils.matrix_norm, Q(A), ORD_OF[name])
    if not ok:
        return None
    return _flt(out, site, r)


def lib_norms(out, A, names, what=""):
    vals = {}
    for nm in names:
        v = lib_norm(out, A, nm, what)
        if v is not None:
            vals[nm] = v
    return vals


def ineq(out, site, lhs, rhs, slack, msg=""):
    """lhs <= rhs (1 + slack), recorded as excess (lhs - rhs) against the allowance slack*rhs so
    that the evidence ratio measures consumed slack, not lhs/rhs."""
    if lhs is None or rhs is None:
        return
    if not (math.isfinite(lhs) and math.isfinite(rhs)):
        out.true(site, False, f"non-finite norm value: lhs={lhs!r} rhs={rhs!r} {msg}")
        return
    out.le(site, lhs - rhs, slack * rhs, f"lhs={lhs!r} rhs={rhs!r} {msg}")


def close(out, site, got, want, rel, msg=""):
    if got is None:
        return
    if not math.isfinite(got):
        out.true(site, False, f"non-finite value {got!r} (expected {want!r}) {msg}")
        return
    out.le(site, abs(got - want), rel * abs(want), f"got {got!r} expected {want!r} {msg}")


# ----------------------------------------------------------------------------
# generators

PATS = gen.WEIGHTED_PATTERNS + ("mixed",) * 3 + ("rowscaled",) * 2


@st.composite
def qm(draw, m, n, E, pats=PATS):
    """(A, pattern): entry patterns of gen.qarray plus
       mixed      every component has its own exponent in [-E, E]
       rowscaled  row i multiplied by 10^e_i
    and (one time in three) a uniform scaling by 10^e, |e| <= E."""
    pat = draw(st.sampled_from(pats))
    if pat == "mixed":
        A = draw(hnp.arrays(np.float64, (m, n, 4), elements=gen.dyadic(-E, E, 64), fill=st.nothing()))
    elif pat == "rowscaled":
        A, _ = draw(gen.qarray(m, n, "generic"))
        es = draw(st.lists(st.integers(-E, E), min_size=m, max_size=m))
        A = A * (10.0 ** np.array(es, dtype=float))[:, None, None]
    else:
        A, _ = draw(gen.qarray(m, n, pat, -E, E))
        if pat not in ("scaled", "zero") and draw(st.integers(0, 2)) == 0:
            A = A * 10.0 ** draw(st.integers(-E, E))
            pat = pat + "*10^e"
    return np.ascontiguousarray(A, dtype=float), pat


def _hi(tier):
    return 6 if tier == "quick" else 8


def _dim(tier, size=None):
    if size:
        return st.integers(*size)
    # 1 is a boundary worth generating, but the counts rest on min(m,n) >= 2: bias away from 1
    return st.one_of(st.integers(1, _hi(tier)), st.integers(2, _hi(tier)), st.integers(2, _hi(tier)))


# ----------------------------------------------------------------------------
# clause 1: definitions of F / 1 / inf and agreement of all Frobenius entry points


@st.composite
def definition_cases(draw, tier, size=None):
    m, n = draw(_dim(tier, size)), draw(_dim(tier, size))
    A, pat = draw(qm(m, n, 60))
    if draw(st.integers(0, 7)) == 0:
        # one "flat" line (many entries of modulus 1) that carries the largest sum next to "spiky" lines (a single entry
        # of modulus 0.75 * length): largest sum and largest 2-norm belong to different lines
        Lg = draw(st.integers(6, 12))
        k = draw(st.integers(2, 3))
        A = np.zeros((Lg, k, 4))
        for i in range(Lg):
            A[i, 0] = draw(gen.unit_q(exact=True))
        for j in range(1, k):
            A[draw(st.integers(0, Lg - 1)), j] = draw(gen.unit_q(exact=True)) * (0.75 * Lg)
        if draw(st.booleans()):
            A = np.ascontiguousarray(np.swapaxes(A, 0, 1))
        A = A * 10.0 ** draw(st.sampled_from([0, 0, -20, 20]))
        pat = "flat_and_spiky"
    return {"A": A, "pat": pat}


@st.composite
def long_definition_cases(draw, tier):
    """One long dimension (crossing the blocking sizes) against <= 3, or both moderately long."""
    Lg, sh = draw(gen.long_dim(cap=257 if tier == "quick" else 620)), draw(st.integers(1, 3))
    if draw(st.integers(0, 3)) == 0:
        Lg, sh = draw(st.sampled_from([33, 65])), draw(st.sampled_from([33, 40]))
    elif draw(st.integers(0, 3)) == 0:
        # entry counts that are exact multiples of the usual chunk sizes (256 .. 4096 quaternions = 1024 .. 16384 reals):
        # a chunked accumulation has an EMPTY remainder there
        Lg, sh = draw(st.sampled_from([(256, 1), (256, 2), (512, 1), (128, 4), (64, 8), (256, 4), (1024, 1), (32, 16), (64, 32), (64, 64)]))
    m, n = (Lg, sh) if draw(st.booleans()) else (sh, Lg)
    A, pat = draw(gen.long_qarray(m, n))
    e = draw(st.sampled_from([0, 0, -30, 30]))
    return {"A": np.ascontiguousarray(A * 10.0 ** e), "pat": pat}


@st.composite
def long_spectral_cases(draw, tier):
    if draw(st.integers(0, 2)) == 0:
        # prescribed singular vectors: the DOMINANT right (or left) singular vector is orthogonal to the canonical
        # start vectors of iterative estimators (all ones, e_1), a non-dominant one IS such a vector
        n = draw(st.sampled_from([66, 70, 80, 130]))
        m = draw(st.sampled_from([2, 3, 65, 72]))
        rng = np.random.RandomState(draw(gen.seeds()))
        kind = draw(st.sampled_from(["alternating", "difference", "random_zero_sum"]))
        v1 = {"alternating": np.array([(-1.0) ** i for i in range(n)]),
              "difference": np.concatenate([[1.0, -1.0], np.zeros(n - 2)]),
              "random_zero_sum": (lambda w: w - w.mean())(rng.standard_normal(n))}[kind]
        v1 = v1 / np.sqrt(v1 @ v1)
        v2 = np.ones(n) / np.sqrt(n) if kind != "difference" else np.concatenate([[1.0, 1.0], np.zeros(n - 2)]) / np.sqrt(2.0)
        Uq = gen.householder(rng.standard_normal((m, 4)))
        s1, s2 = draw(st.sampled_from([(3.0, 1.0), (2.0, 1.5), (10.0, 0.125)]))
        A = np.zeros((m, n, 4))
        for (sv, uu, vv) in ((s1, Uq[:, 0], v1), (s2, Uq[:, 1], v2)):
            A += sv * ref.qmul(uu[:, None, :], np.stack([vv, 0 * vv, 0 * vv, 0 * vv], axis=-1)[None, :, :])
        if draw(st.booleans()):
            A = ref.conjT(A)
        A = A * 10.0 ** draw(st.sampled_from([0, 0, -6, 6]))
        return {"A": np.ascontiguousarray(A), "kind": "special_singular_vectors", "pat": kind, "rank_ub": 2}
    c = draw(long_definition_cases(tier))
    A = c["A"]
    return {"A": A, "kind": "pattern", "pat": c["pat"], "rank_ub": min(A.shape[:2])}


@st.composite
def far_scale_cases(draw, tier):
    hi = 5 if tier == "quick" else 7
    m, n = draw(st.integers(1, hi)), draw(st.integers(1, hi))
    A, pat = draw(gen.qarray(m, n, draw(st.sampled_from(["generic", "int", "sparse", "full53"]))))
    if not A.any():
        A[0, 0, 1] = 1.0
    e = draw(st.sampled_from([-250, -200, -170, 150, 180, 250]))
    return {"A": np.ascontiguousarray(A * 2.0 ** int(round(e * 3.321928))), "pat": pat, "exp10": e}


def check_far_scale(case):
    """Largest singular value of a matrix whose entries are near the ends of the double range: the value itself is
    representable (the sums of squares behind the other norms are not, and nothing is claimed for them)."""
    u = L.utils
    A = case["A"]
    m, n, _ = A.shape
    out = Out(tags=tags_of(A))
    out.label(f"1e{case['exp10']:+d}", shape_class(A))
    amax = float(np.max(np.abs(A)))
    sc = 2.0 ** -int(np.floor(np.log2(amax)))
    s1 = sigma1(A * sc) / sc                       # exact rescaling by a power of two
    for name, fn in {"matrix_norm(ord=2)": lambda: u.matrix_norm(Q(A), 2), "spectral_norm_2": lambda: u.spectral_norm_2(Q(A)),
                     "matrix_norm(A^H,ord=2)": lambda: u.matrix_norm(Q(ref.conjT(A)), 2)}.items():
        ok, rr = out.call(name + "[far scale]", fn)
        if ok:
            v = _flt(out, name + "[far scale]", rr)
            if v is not None:
                out.le(name + "[far scale]:equals largest singular value", abs(v * sc - s1 * sc), rel_of("two", m, n) * s1 * sc,
                       f"got {v!r} expected {s1!r}")
    out.nontrivial = min(m, n) >= 2
    out.sample = {"shape": [m, n], "exp10": case["exp10"], "sigma1": s1}
    return out


def _coo_with_duplicates(P):
    """COO matrix equal to P whose stored triplets repeat positions: each entry a is stored as a/2 + a/2 (exact)."""
    r, c = np.nonzero(P)
    v = P[r, c] / 2.0
    return sp.coo_matrix((np.concatenate([v, v]), (np.concatenate([r, r]), np.concatenate([c, c]))), shape=P.shape)


def planes(A, kind):
    if kind == "sparse":
        return tuple(sp.csr_matrix(A[..., c]) for c in range(4))
    if kind == "sparse_csc":
        return tuple(sp.csc_matrix(A[..., c]) for c in range(4))
    if kind == "sparse_coo_dup":
        return tuple(_coo_with_duplicates(np.ascontiguousarray(A[..., c])) for c in range(4))
    if kind == "sparse_dia":
        return tuple(sp.dia_matrix(A[..., c]) for c in range(4))
    if kind == "sparse_lil":
        return tuple(sp.lil_matrix(A[..., c]) for c in range(4))
    if kind == "1d":
        return tuple(np.ascontiguousarray(A[..., c]).ravel() for c in range(4))
    return tuple(np.ascontiguousarray(A[..., c]) for c in range(4))


def fro_entry_points(A):
    u, t = L.utils, L.tensor
    m, n, _ = A.shape
    return {
        "matrix_norm()": lambda: u.matrix_norm(Q(A)),
        "matrix_norm(ord=None)": lambda: u.matrix_norm(Q(A), None),
        "matrix_norm(ord='fro')": lambda: u.matrix_norm(Q(A), "fro"),
        "matrix_norm(ord='F')": lambda: u.matrix_norm(Q(A), "F"),
        "quat_frobenius_norm(dense)": lambda: u.quat_frobenius_norm(Q(A)),
        "quat_frobenius_norm(sparse)": lambda: u.quat_frobenius_norm(S(A)),
        "normQ": lambda: u.normQ(Q(A)),
        "normQsparse(dense planes)": lambda: u.normQsparse(*planes(A, "dense")),
        "normQsparse(sparse planes)": lambda: u.normQsparse(*planes(A, "sparse")),
        "normQsparse(1-D planes)": lambda: u.normQsparse(*planes(A, "1d")),
        "normQsparse(sparse CSC planes)": lambda: u.normQsparse(*planes(A, "sparse_csc")),
        "normQsparse(sparse COO planes with repeated triplets)": lambda: u.normQsparse(*planes(A, "sparse_coo_dup")),
        "normQsparse(sparse DIA planes)": lambda: u.normQsparse(*planes(A, "sparse_dia")),
        "normQsparse(sparse LIL planes)": lambda: u.normQsparse(*planes(A, "sparse_lil")),
        "tensor_frobenius_norm(order 2)": lambda: t.tensor_frobenius_norm(Q(A)),
        "tensor_frobenius_norm(order 3)": lambda: t.tensor_frobenius_norm(Q(A).reshape(m, 1, n)),
        "tensor_frobenius_norm(order 1)": lambda: t.tensor_frobenius_norm(Q(A).reshape(m * n)),
    }


def check_frobenius_points(out, A, ex):
    m, n, _ = A.shape
    rel = rel_of("fro", m, n)
    got = {}
    for name, fn in fro_entry_points(A).items():
        ok, r = out.call(name, fn)
        if not ok:
            continue
        v = _flt(out, name, r)
        if v is None:
            continue
        got[name] = v
        close(out, name + ":equals sqrt(sum |a_ij|^2)", v, ex["fro"], rel)
    if len(got) >= 2 and all(math.isfinite(v) for v in got.values()):
        lo = min(got, key=got.get)
        hi = max(got, key=got.get)
        out.le("Frobenius entry points agree", got[hi] - got[lo], 2 * rel * ex["fro"], f"{hi} vs {lo}")
    return got


def check_abs(out, A, ex):
    t = L.tensor
    m, n, _ = A.shape
    for name, shp in (("order 2", (m, n)), ("order 3", (m, 1, n))):
        site = f"tensor_entrywise_abs({name})"
        ok, r = out.call(site, t.tensor_entrywise_abs, Q(A).reshape(shp))
        if not ok:
            continue
        r = np.asarray(r)
        if not out.true(site + ":real array of the tensor's shape", r.shape == shp and r.dtype.kind == "f",
                        f"shape {r.shape} dtype {r.dtype}, expected {shp} float"):
            continue
        want = ex["mod"].reshape(shp)
        err = np.abs(r - want)
        bound = 256 * U_ * want
        zero_ok = bool(np.all(r[want == 0.0] == 0.0))
        out.true(site + ":zero entries have modulus 0", zero_ok, "non-zero modulus for a zero entry")
        nz = want > 0
        if np.any(nz):
            worst = float(np.max(np.where(np.isfinite(err[nz]), err[nz] / bound[nz], np.inf)))
            out.le(site + ":equals |t_ijk|", worst, 1.0, "max entrywise error / (256u |t|)")


def check_one_inf(out, A, ex):
    u = L.utils
    m, n, _ = A.shape
    AH = ref.conjT(A)
    # ONE array object serves all the calls, the way a caller evaluates several norms of the same matrix: a norm
    # must not leave its argument changed for the next one
    Aq, AHq = Q(A), Q(AH)
    hA, hAH = ahash(Aq), ahash(AHq)
    # the same matrix in other memory layouts (Fortran order as LAPACK wrappers return it, a transposed view as A.T.T
    # or the transpose of a stored A^T gives it): a norm is a function of the values
    AF, AV = np.asfortranarray(Aq), np.ascontiguousarray(Aq.T).T
    calls = {
        "one": {"matrix_norm(ord=1)": lambda: u.matrix_norm(Aq, 1),
                "matrix_norm(F-ordered,ord=1)": lambda: u.matrix_norm(AF, 1),
                "induced_matrix_norm_1(transposed view)": lambda: u.induced_matrix_norm_1(AV),
                "induced_matrix_norm_1": lambda: u.induced_matrix_norm_1(Aq),
                "matrix_norm(A^H,ord=np.inf)": lambda: u.matrix_norm(AHq, np.inf)},
        "inf": {"matrix_norm(ord=np.inf)": lambda: u.matrix_norm(Aq, np.inf),
                "matrix_norm(transposed view,ord=np.inf)": lambda: u.matrix_norm(AV, np.inf),
                "induced_matrix_norm_inf(F-ordered)": lambda: u.induced_matrix_norm_inf(AF),
                "matrix_norm(ord='inf')": lambda: u.matrix_norm(Aq, "inf"),
                "induced_matrix_norm_inf": lambda: u.induced_matrix_norm_inf(Aq),
                "matrix_norm(A^H,ord=1)": lambda: u.matrix_norm(AHq, 1)},
    }
    what = {"one": "max column sum of moduli", "inf": "max row sum of moduli"}
    for nm, table in calls.items():
        # the A^H spellings sum the same moduli along the other axis: accuracy is that of the longer sum
        rel = max(rel_of("one", m, n), rel_of("inf", m, n))
        for name, fn in table.items():
            ok, r = out.call(name, fn)
            if ok:
                close(out, f"{name}:equals {what[nm]}", _flt(out, name, r), ex[nm], rel)
            out.true(f"{name}:the caller's matrix is unchanged", ahash(Aq) == hA and ahash(AHq) == hAH,
                     "the argument was modified in place")


def check_definitions(case):
    A = case["A"]
    m, n, _ = A.shape
    out = Out(tags=tags_of(A))
    out.label("pat=" + case["pat"], shape_class(A))
    ex = exact_norms(A)
    check_frobenius_points(out, A, ex)
    check_abs(out, A, ex)
    check_one_inf(out, A, ex)
    out.nontrivial = is_nontrivial(A)
    if ex["one"] != ex["inf"]:
        out.label("one_norm!=inf_norm")
    out.sample = {"shape": [m, n], "pattern": case["pat"], "fro": ex["fro"], "one": ex["one"], "inf": ex["inf"]}
    return out


# ----------------------------------------------------------------------------
# clause 2: spectral norm = sigma_1, cross-norm inequalities, constructed rank


@st.composite
def spectral_cases(draw, tier, size=None):
    m, n = draw(_dim(tier, size)), draw(_dim(tier, size))
    kind = draw(st.sampled_from(["pattern", "pattern", "spectrum", "spectrum", "lowrank_int", "unitary_multiple",
                                 "dependent_early_column"]))
    r = min(m, n)
    pat = kind
    if kind == "pattern":
        A, pat = draw(qm(m, n, 8))
        rank_ub = min(m, n)
    elif kind == "spectrum":
        s, skind = draw(gen.spectrum(r, cond_max=1e6))
        A = draw(gen.matrix_with_svals(m, n, s))
        A = A * 10.0 ** draw(st.integers(-8, 6))
        rank_ub = int(np.sum(s > 0))
        pat = "spectrum:" + skind
    elif kind == "dependent_early_column":
        # an EARLY column is an exact right multiple of another one, independent columns follow (rank deficiency that a
        # column-by-column factorisation meets before it is done)
        A, pat = draw(gen.qarray(m, n, draw(st.sampled_from(["int", "generic"]))))
        A = A.copy()
        if n >= 2:
            j = draw(st.integers(1, max(1, n - 2)))
            i = draw(st.integers(0, j - 1))
            A[:, j] = ref.qmul(A[:, i], draw(gen.unit_q(exact=True)).reshape(1, 4))
        rank_ub = min(m, max(1, n - 1)) if n >= 2 else min(m, n)
    elif kind == "lowrank_int":
        rr = draw(st.integers(1, r))
        B, _ = draw(gen.qarray(m, rr, "int"))
        C, _ = draw(gen.qarray(rr, n, "int"))
        A = ref.qmm(B, C)                         # small integers: exact, rank(A) <= rr exactly
        A = A * 10.0 ** draw(st.sampled_from([0, 0, -8, -3, 3, 6]))
        rank_ub = rr
    else:
        m = n = r
        A = draw(gen.unitary(r)) * (draw(st.integers(1, 64)) / 8.0) * 10.0 ** draw(st.integers(-8, 6))
        rank_ub = r
    return {"A": np.ascontiguousarray(A), "kind": kind, "pat": pat, "rank_ub": rank_ub}


def check_spectral(case):
    u = L.utils
    A = case["A"]
    m, n, _ = A.shape
    r = int(case["rank_ub"])
    out = Out(tags=tags_of(A) + (("rank_deficient",) if r < min(m, n) else ()))
    out.label("kind=" + case["kind"], "pat=" + case["pat"], shape_class(A))
    if r < min(m, n):
        out.label("rank_deficient")
    if r == 1:
        out.label("rank_one")
    s1 = sigma1(A)
    rel2 = rel_of("two", m, n)
    vals = {}
    AH = ref.conjT(A)
    for name, fn in {"matrix_norm(ord=2)": lambda: u.matrix_norm(Q(A), 2),
                     "spectral_norm_2": lambda: u.spectral_norm_2(Q(A)),
                     "matrix_norm(A^H,ord=2)": lambda: u.matrix_norm(Q(AH), 2)}.items():
        ok, rr = out.call(name, fn)
        if ok:
            v = _flt(out, name, rr)
            if v is not None:
                vals[name] = v
                close(out, name + ":equals largest singular value", v, s1, rel2)
    two = vals.get("matrix_norm(ord=2)")
    other = lib_norms(out, A, NORMS_WIDE)
    fro, one, inf = other.get("fro"), other.get("one"), other.get("inf")
    sq = math.sqrt(m * n)
    # ||A||_2 <= ||A||_F : both values carry their own relative error
    ineq(out, "||A||_2 <= ||A||_F", two, fro, rel2 + rel_of("fro", m, n))
    # ||A||_F <= sqrt(rank) ||A||_2 with the constructed rank bound r.  A = A0 + E, rank(A0) <= r exactly,
    # ||E||_F <= (4 max(m,n) + 8) u sqrt(mn) ||A||_2 (two float products / one scaling by the harness), hence
    # ||A||_F <= sqrt(r)||A||_2 + (sqrt(r)+1)||E||_F ; stated slack = 64 (m+n) sqrt(mn) u + REL_2 + REL_F.
    if two is not None and fro is not None:
        slack = 64 * (m + n) * sq * U_ + rel2 + rel_of("fro", m, n)
        ineq(out, "||A||_F <= sqrt(rank) ||A||_2", fro, math.sqrt(r) * two, slack, f"constructed rank bound {r}")
    # ||A||_2^2 <= ||A||_1 ||A||_inf
    if two is not None and one is not None and inf is not None:
        ineq(out, "||A||_2^2 <= ||A||_1 ||A||_inf", two * two, one * inf,
             2 * rel2 + rel_of("one", m, n) + rel_of("inf", m, n))
    out.nontrivial = is_nontrivial(A)
    out.sample = {"shape": [m, n], "kind": case["kind"], "rank_bound": r, "sigma1_ref": s1, "lib": vals}
    return out


# ----------------------------------------------------------------------------
# clause 3: absolute homogeneity (real and quaternion scalars, either side)


@st.composite
def quat_scalar(draw, E):
    kind = draw(st.sampled_from(["basis_unit", "unit", "general", "general", "real", "zero"]))
    if kind == "basis_unit":
        q = draw(st.sampled_from(gen.BASIS_UNITS)).copy()
    elif kind == "unit":
        q = draw(gen.unit_q())
    elif kind == "general":
        q = draw(gen.nonzero_q()) * 10.0 ** draw(st.integers(-E, E))
    elif kind == "real":
        q = np.array([draw(gen.reals(-E, E)), 0.0, 0.0, 0.0])
    else:
        q = np.zeros(4)
    return np.asarray(q, dtype=float), kind


@st.composite
def homogeneity_cases(draw, tier):
    m, n = draw(_dim(tier)), draw(_dim(tier))
    mode = draw(st.sampled_from(["wide", "svd"]))
    EA, Ea = (60, 30) if mode == "wide" else (4, 4)
    A, pat = draw(qm(m, n, EA))
    alpha = draw(st.one_of(gen.reals(-Ea, Ea), gen.positive(-Ea, Ea).map(lambda x: -x)))
    q, qkind = draw(quat_scalar(Ea))
    return {"A": A, "pat": pat, "mode": mode, "alpha": float(alpha), "q": q, "qkind": qkind}


def qmod(q):
    return float(sqrt_hp(sum(Fraction(float(x)) ** 2 for x in q)))


def check_homogeneity(case):
    A, mode, alpha, q = case["A"], case["mode"], case["alpha"], case["q"]
    m, n, _ = A.shape
    out = Out(tags=tags_of(A) + ("mode=" + mode,))
    out.label("mode=" + mode, "pat=" + case["pat"], "q=" + case["qkind"], shape_class(A))
    if alpha < 0:
        out.label("alpha<0")
    if alpha == 0:
        out.label("alpha=0")
    names = NORMS_WIDE if mode == "wide" else NORMS_ALL
    base = lib_norms(out, A, names)
    qv = q.reshape(1, 1, 4)
    variants = {
        "real alpha": (alpha * A, abs(alpha)),
        "left quaternion alpha": (ref.qmul(qv, A), qmod(q)),
        "right quaternion alpha": (ref.qmul(A, qv), qmod(q)),
    }
    for vname, (B, a) in variants.items():
        got = lib_norms(out, B, names, what=f" of alpha*A [{vname}]")
        for nm in names:
            if nm not in base or nm not in got:
                continue
            # formation of alpha*A by the harness: entrywise modulus error <= 16u |alpha||a_ij|  (4 products,
            # 3 additions per component), i.e. <= 16u in F/1/inf and <= 16u sqrt(min(m,n)) in the spectral norm
            form = 16 * U_ * (math.sqrt(min(m, n)) if nm == "two" else 1.0)
            slack = 2 * rel_of(nm, m, n) + form + 8 * U_
            want = a * base[nm]
            close(out, f"homogeneity[{nm}]:{vname}", got[nm], want, slack, f"|alpha|={a!r} ||A||={base[nm]!r}")
    out.nontrivial = is_nontrivial(A) and (alpha != 0 or bool(np.any(q != 0)))
    if out.nontrivial and int(np.sum(q[1:] != 0)) >= 1:
        out.label("nonreal_scalar_on_nontrivial_matrix")
    out.sample = {"shape": [m, n], "mode": mode, "alpha": alpha, "q": q, "norms": base}
    return out


# ----------------------------------------------------------------------------
# clause 4: triangle inequality (pairs and triples)


@st.composite
def triangle_cases(draw, tier):
    m, n = draw(_dim(tier)), draw(_dim(tier))
    mode = draw(st.sampled_from(["wide", "svd"]))
    E = 60 if mode == "wide" else 8
    A, pa = draw(qm(m, n, E))
    kind = draw(st.sampled_from(["independent", "independent", "independent", "B=-A", "B=tA", "B=Aq", "B=-A+tiny"]))
    if kind == "independent":
        B, _ = draw(qm(m, n, E))
    elif kind == "B=-A":
        B = -A
    elif kind == "B=tA":
        B = A * (draw(st.integers(1, 64)) / 16.0)
    elif kind == "B=Aq":
        B = ref.qmul(A, draw(gen.unit_q()).reshape(1, 1, 4))
    else:
        D, _ = draw(gen.qarray(m, n, "generic"))
        B = -A + D * (float(np.max(np.abs(A))) * 2.0 ** -30)
    C, _ = draw(qm(m, n, E))
    return {"A": A, "B": np.ascontiguousarray(B), "C": C, "mode": mode, "kind": kind, "pat": pa}


def check_triangle(case):
    A, B, C, mode = case["A"], case["B"], case["C"], case["mode"]
    m, n, _ = A.shape
    out = Out(tags=tags_of(A) + ("mode=" + mode,))
    out.label("mode=" + mode, "kind=" + case["kind"], shape_class(A))
    names = NORMS_WIDE if mode == "wide" else NORMS_ALL
    nA, nB, nC = (lib_norms(out, X, names, what=f" of {w}") for X, w in ((A, "A"), (B, "B"), (C, "C")))
    nAB = lib_norms(out, A + B, names, what=" of A+B")
    nABC = lib_norms(out, (A + B) + C, names, what=" of A+B+C")
    tight = 0
    for nm in names:
        if not all(nm in d for d in (nA, nB, nC, nAB, nABC)):
            continue
        # A+B is rounded entrywise by the harness (relative u per component => relative u sqrt(min) in norm);
        # each of the three library values carries REL.
        slack = 3 * rel_of(nm, m, n) + 8 * U_ * math.sqrt(min(m, n))
        ineq(out, f"triangle[{nm}]:||A+B|| <= ||A||+||B||", nAB[nm], nA[nm] + nB[nm], slack)
        ineq(out, f"triangle[{nm}]:||A+B+C|| <= ||A||+||B||+||C||", nABC[nm], nA[nm] + nB[nm] + nC[nm],
             4 * rel_of(nm, m, n) + 16 * U_ * math.sqrt(min(m, n)))
        if nA[nm] + nB[nm] > 0 and nAB[nm] >= (1 - 1e-9) * (nA[nm] + nB[nm]):
            tight += 1
    if tight:
        out.label("equality_case")
    out.nontrivial = is_nontrivial(A) and bool(np.any(B != 0))
    out.sample = {"shape": [m, n], "mode": mode, "kind": case["kind"], "A": nA, "B": nB, "A+B": nAB}
    return out


# ----------------------------------------------------------------------------
# clause 5: sub-multiplicativity (pairs and triples, conformable rectangular shapes)


@st.composite
def submult_cases(draw, tier):
    hi = 5 if tier == "quick" else 7
    m, k, n, p = (draw(st.integers(1, hi)) for _ in range(4))
    mode = draw(st.sampled_from(["wide", "svd"]))
    E = 30 if mode == "wide" else 2
    kind = draw(st.sampled_from(["generic", "generic", "generic", "unitary_left", "unitary_right"]))
    if kind == "unitary_left":
        m = k
        A = draw(gen.unitary(k))
    else:
        A, _ = draw(qm(m, k, E))
    if kind == "unitary_right":
        n = k
        B = draw(gen.unitary(k))
    else:
        B, _ = draw(qm(k, n, E))
    C, _ = draw(qm(n, p, E))
    return {"A": np.ascontiguousarray(A), "B": np.ascontiguousarray(B), "C": C, "mode": mode, "kind": kind}


def check_submult(case):
    A, B, C, mode = case["A"], case["B"], case["C"], case["mode"]
    m, k, _ = A.shape
    n = B.shape[1]
    p = C.shape[1]
    out = Out(tags=tags_of(A) + ("mode=" + mode,))
    out.label("mode=" + mode, "kind=" + case["kind"], shape_class(A))
    names = NORMS_WIDE if mode == "wide" else NORMS_ALL
    AB = ref.qmm(A, B)
    ABC = ref.qmm(AB, C)
    nA, nB, nC = (lib_norms(out, X, names, what=f" of {w}") for X, w in ((A, "A"), (B, "B"), (C, "C")))
    nAB = lib_norms(out, AB, names, what=" of A*B")
    nABC = lib_norms(out, ABC, names, what=" of A*B*C")
    d = max(m, k, n, p)
    tight = 0
    for nm in names:
        if not all(nm in x for x in (nA, nB, nC, nAB, nABC)):
            continue
        # harness product: |E_ij| <= 2(k+3)u (|A||B|)_ij  =>  ||E|| <= 2(k+3)u ||A|| ||B|| in F/1/inf and
        # <= 2(k+3)u ||A||_F||B||_F <= 2(k+3) k u ||A||_2||B||_2 in the spectral norm; stated with 16(k+1)u.
        form = 16 * (k + 1) * U_ * (k if nm == "two" else 1)
        rel = max(rel_of(nm, a, b) for a, b in ((m, k), (k, n), (m, n)))
        ineq(out, f"submultiplicative[{nm}]:||AB|| <= ||A|| ||B||", nAB[nm], nA[nm] * nB[nm], 3 * rel + form)
        form3 = 2 * 16 * (d + 1) * U_ * (d if nm == "two" else 1)
        rel3 = rel_of(nm, d, d)
        ineq(out, f"submultiplicative[{nm}]:||ABC|| <= ||A|| ||B|| ||C||", nABC[nm], nA[nm] * nB[nm] * nC[nm],
             4 * rel3 + form3)
        if nA[nm] * nB[nm] > 0 and nAB[nm] >= (1 - 1e-9) * nA[nm] * nB[nm]:
            tight += 1
    if tight:
        out.label("equality_case")
    out.nontrivial = is_nontrivial(A) and k >= 2 and bool(np.any(AB != 0))
    out.sample = {"shapes": [m, k, n, p], "mode": mode, "A": nA, "B": nB, "AB": nAB}
    return out


# ----------------------------------------------------------------------------
# clause 6 (exhaustive): the ord table - every supported spelling and a list of illegal ones,
# on a fixed family of matrices of every shape class

LEGAL = {
    "<omitted>": ("omit", "fro"), "None": (None, "fro"), "'fro'": ("fro", "fro"), "'F'": ("F", "fro"),
    "1": (1, "one"), "2": (2, "two"), "np.inf": (np.inf, "inf"), "'inf'": ("inf", "inf"),
    "float('inf')": (float("inf"), "inf"),
    # the same VALUES as numpy scalars / floats (a loop variable from np.array([1, 2]), a parsed configuration value)
    "np.int64(1)": (np.int64(1), "one"), "np.int32(2)": (np.int32(2), "two"), "np.int64(2)": (np.int64(2), "two"),
    "np.uint8(1)": (np.uint8(1), "one"), "2.0": (2.0, "two"), "1.0": (1.0, "one"), "np.float64(2.0)": (np.float64(2.0), "two"),
    "np.float64(np.inf)": (np.float64(np.inf), "inf"),
}
ILLEGAL = {
    "'nuc'": "nuc", "3": 3, "-1": -1, "0": 0, "'Inf'": "Inf", "'1'": "1",          # DESIGN.md list
    "'2'": "2", "-np.inf": -np.inf, "'FRO'": "FRO", "'f'": "f", "'INF'": "INF", "1.5": 1.5, "-2": -2,
    "'fro '": "fro ", "''": "", "'one'": "one", "np.nan": float("nan"),
    "np.int64(7)": np.int64(7), "np.int64(-1)": np.int64(-1), "np.float64(1.5)": np.float64(1.5), "(2,)": (2,), "[1]": [1],
    "'spectral'": "spectral", "'max'": "max", "'-inf'": "-inf",
}
TABLE_SHAPES = [(1, 1), (1, 3), (3, 1), (2, 2), (2, 3), (3, 2), (4, 4)]


def _hval(*key):
    h = hashlib.sha256(repr(key).encode()).digest()
    return (int.from_bytes(h[:4], "big") % 65 - 32) / 16.0


def table_matrix(m, n, d):
    A = np.array([[[_hval("c15", m, n, d, i, j, c) for c in range(4)] for j in range(n)] for i in range(m)],
                 dtype=float).reshape(m, n, 4)
    if d == 1:
        A = A * 1e-7
    if d == -1:
        A = A * 0.0            # the zero matrix: every legal norm is 0, every illegal ord is still rejected
    return A


def enum_table(tier):
    cases = []
    for (m, n) in TABLE_SHAPES:
        for d in [-1] + list(range(2 if tier == "quick" else 3)):
            for name in LEGAL:
                cases.append({"shape": [m, n], "draw": d, "ord": name, "legal": True})
            for name in ILLEGAL:
                cases.append({"shape": [m, n], "draw": d, "ord": name, "legal": False})
    return cases


def check_table(case):
    u = L.utils
    m, n = case["shape"]
    A = table_matrix(m, n, case["draw"])
    name = case["ord"]
    out = Out(tags=tags_of(A) + ("ord=" + name,))
    out.label("legal" if case["legal"] else "illegal", shape_class(A))
    out.nontrivial = is_nontrivial(A)
    if case["legal"]:
        ordv, which = LEGAL[name]
        site = f"matrix_norm(ord={name})"
        if ordv == "omit":
            ok, r = out.call(site, u.matrix_norm, Q(A))
        else:
            ok, r = out.call(site, u.matrix_norm, Q(A), ordv)
        if ok:
            want = sigma1(A) if which == "two" else exact_norms(A)[which]
            close(out, f"{site}:is the {which} norm", _flt(out, site, r), want, rel_of(which, m, n))
            ok2, r2 = out.call(site + " keyword", u.matrix_norm, Q(A), **({} if ordv == "omit" else {"ord": ordv}))
            if ok2:
                close(out, f"{site}:keyword form is the {which} norm", _flt(out, site, r2), want, rel_of(which, m, n))
        return out
    ordv = ILLEGAL[name]
    site = f"matrix_norm(ord={name}):rejected"
    for storage, mk in (("dense", Q), ("sparse", S)):
        try:
            r = u.matrix_norm(mk(A), ordv)
            raised = None
        except Exception as e:  # noqa: BLE001 - rejection is the expected behaviour
            raised = e
        if raised is None:
            out.true(f"{site}[{storage}]", False, f"unknown norm type accepted, returned {r!r}"[:200])
        else:
            out.label("raises " + type(raised).__name__)
    return out


# ----------------------------------------------------------------------------

PROPERTY = Property(
    id="C15",
    title="Matrix norms are genuine, mutually consistent norms",
    rule=("min(m,n) >= 2 and the (first) matrix has at least two non-zero component planes, i.e. it is not a real "
          "matrix times a single basis unit (homogeneity: additionally a non-zero scalar; triangle: B != 0; "
          "sub-multiplicativity: inner dimension >= 2 and AB != 0). Distinct = distinct input digest."),
    clauses=[
        Clause("definitions", check_definitions, strategy=definition_cases, budget={"quick": 1200, "thorough": 16000}),
        Clause("spectral", check_spectral, strategy=spectral_cases, budget={"quick": 900, "thorough": 12000}),
        Clause("definitions_moderate_size", check_definitions, strategy=lambda tier: definition_cases(tier, size=(9, 20 if tier == "quick" else 40)),
               budget={"quick": 30, "thorough": 300}, shrink=False),
        Clause("spectral_moderate_size", check_spectral, strategy=lambda tier: spectral_cases(tier, size=(9, 20 if tier == "quick" else 40)),
               budget={"quick": 40, "thorough": 400}, shrink=False),
        Clause("spectral_far_scale", check_far_scale, strategy=far_scale_cases, budget={"quick": 200, "thorough": 2000}),
        Clause("definitions_long_dimension", check_definitions, strategy=long_definition_cases,
               budget={"quick": 32, "thorough": 320}, shrink=False),
        Clause("spectral_long_dimension", check_spectral, strategy=long_spectral_cases,
               budget={"quick": 24, "thorough": 240}, shrink=False),
        Clause("homogeneity", check_homogeneity, strategy=homogeneity_cases, budget={"quick": 800, "thorough": 10000}),
        Clause("triangle", check_triangle, strategy=triangle_cases, budget={"quick": 700, "thorough": 10000}),
        Clause("submultiplicative", check_submult, strategy=submult_cases, budget={"quick": 700, "thorough": 10000}),
        Clause("ord_table_exhaustive", check_table, enumerate=enum_table, budget={"quick": 0, "thorough": 0}),
    ],
    assumptions=[
        "Frobenius oracle = sqrt of the exact rational sum of squares; 1/inf oracles = exact sums of 120-bit moduli",
        "spectral oracle = LAPACK singular values of the harness's own complex adjoint chi_c (qv/ref.py)",
        "alpha*A, A+B, A*B are formed by the harness (never by the library); their rounding is inside the stated slack",
        "magnitudes 10^+-60 for F/1/inf and 10^+-8 for every input of the spectral norm (no overflow/underflow claims)",
        "the rank in ||A||_F <= sqrt(rank)||A||_2 is a constructed upper bound (exact integer low-rank products, "
        "prescribed spectra with exact zeros)",
        "an unknown ord is 'rejected' iff matrix_norm raises (any exception type) instead of returning a value",
    ],
    exhaustive_note=("ord_table_exhaustive: 9 supported spellings (positional and keyword) and 17 illegal ones x 7 shapes "
                     "(1x1, row, column, square, wide, tall, 4x4) x 2-3 fixed matrices, dense and sparse storage for "
                     "the illegal ones"),
)
