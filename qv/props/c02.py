"""C02 - real and complex embeddings are faithful *-homomorphisms with exact round trip.

Code under test (quatica/utils.py, quatica/solver.py):
    real_expand / real_contract          entry-interleaved 4m x 4n real representation and its inverse
    Realp                                component-blocked 4m x 4n real representation (matrix and scalar form)
    A2A0123                              column-blocked component split of [A0 A2 A1 A3]
    quaternion_to_complex_adjoint        2n x 2n complex adjoint [[C, D], [-conj D, conj C]]
    QGMRESSolver._quat_to_components / _components_to_quat

Oracle: the embeddings of qv/ref.py (chi_r is derived from the Hamilton table `ham`, column c of a block =
components of q*e_c; chi_c written from q = (w+xi) + (y+zi)j), exact rational products (mat_mul_exact) and exact
rational Frobenius norms.  The library is never used as its own oracle; numpy matmul / numpy norm are applied to
the matrices the library returns only to *state* the homomorphism / norm identities about them.
"""
import itertools

import numpy as np
from hypothesis import strategies as st
from scipy import sparse as sp

from .. import gen, ref
from ..core import Clause, Out, Property
from ..env import L
from ..lib import F, Q, S

U_ = ref.U
TINY = 1e-300

# Tolerance constants (derivations next to their use).
C_DOT = 16.0     # forward dot-product bound: C_DOT*(len+4)*u*sum|partial products|; rigorous value is (len+1)*u
C_NORM = 8.0    # Frobenius norm of N reals via numpy: rigorous relative error (N/2+2)u; we allow C_NORM*(N+8)*u


# ----------------------------------------------------------------------------
# helpers (harness side, independent of the library)


def planes(A, view=False):
    """The four component planes; `view=True` gives the strided views the library itself passes around."""
    if view:
        return tuple(A[..., c] for c in range(4))
    return tuple(np.ascontiguousarray(A[..., c]) for c in range(4))


def blocked_from_interleaved(R, m, n):
    """Component-blocked permutation of an entry-interleaved 4m x 4n matrix:
    blocked[p*m+i, q*n+j] = interleaved[4i+p, 4j+q]."""
    rows = [4 * i + p for p in range(4) for i in range(m)]
    cols = [4 * j + q for q in range(4) for j in range(n)]
    return R[np.ix_(rows, cols)]


def imag_axes(A):
    return int(sum(1 for c in (1, 2, 3) if np.any(A[..., c] != 0.0)))


def shape_class(m, n):
    return "square" if m == n else ("wide" if m < n else "tall")


def as_real(out, site, X, shape):
    """Library result -> float64 ndarray of the expected shape, or None (failure recorded)."""
    try:
        R = np.asarray(X)
    except Exception as e:  # noqa: BLE001
        out.true(site + ":returns an array", False, f"{type(e).__name__}: {e}"[:200])
        return None
    if not out.true(site + ":real dtype", R.dtype.kind == "f", f"dtype {R.dtype}"):
        return None
    if not out.true(site + ":shape", R.shape == tuple(shape), f"shape {R.shape}, expected {tuple(shape)}"):
        return None
    return np.array(R, dtype=float)


def as_complex(out, site, X, shape):
    try:
        M = np.asarray(X)
    except Exception as e:  # noqa: BLE001
        out.true(site + ":returns an array", False, f"{type(e).__name__}: {e}"[:200])
        return None
    if not out.true(site + ":complex dtype", M.dtype.kind == "c", f"dtype {M.dtype}"):
        return None
    if not out.true(site + ":shape", M.shape == tuple(shape), f"shape {M.shape}, expected {tuple(shape)}"):
        return None
    return np.array(M, dtype=complex)


def equal_bits_c(out, site, a, b, msg=""):
    """Bit-for-bit equality of complex arrays (real and imaginary planes)."""
    a = np.asarray(a)
    b = np.asarray(b)
    if a.shape != b.shape:
        return out.true(site, False, f"{msg} shape {a.shape} != {b.shape}".strip())
    ok1 = out.equal_bits(site, a.real, b.real, (msg + " real part").strip())
    ok2 = out.equal_bits(site, a.imag, b.imag, (msg + " imaginary part").strip())
    return ok1 and ok2


def lib_expand(out, A, site="real_expand"):
    m, n, _ = A.shape
    ok, R = out.call(site, L.utils.real_expand, Q(A))
    R = as_real(out, site, R, (4 * m, 4 * n)) if ok else None
    if R is not None and min(m, n) >= 2:
        # the same matrix handed over in other memory layouts (Fortran order, transposed view, strided view):
        # the embedding depends on the values only
        views = {"F-ordered": np.asfortranarray(Q(A)), "transposed view": Q(np.swapaxes(A, 0, 1)).T}
        big = np.zeros((2 * m, 2 * n), dtype=np.quaternion)
        big[::2, ::2] = Q(A)
        views["strided view"] = big[::2, ::2]
        for nm, Av in views.items():
            okv, Rv = out.call(f"{site}({nm} argument)", L.utils.real_expand, Av)
            if okv:
                Rv = as_real(out, f"{site}({nm} argument)", Rv, (4 * m, 4 * n))
                if Rv is not None:
                    out.equal_bits(f"{site}({nm} argument):same embedding as for the C-contiguous argument", Rv, R)
    return R


def lib_realp(out, A, site="Realp(matrices)", view=False):
    m, n, _ = A.shape
    ok, R = out.call(site, L.utils.Realp, *planes(A, view))
    return as_real(out, site, R, (4 * m, 4 * n)) if ok else None


def lib_adjoint(out, A, site="quaternion_to_complex_adjoint"):
    n = A.shape[0]
    ok, M = out.call(site, L.utils.quaternion_to_complex_adjoint, Q(A))
    M = as_complex(out, site, M, (2 * n, 2 * n)) if ok else None
    if M is not None and n >= 2:
        for nm, Av in {"F-ordered": np.asfortranarray(Q(A)), "transposed view": Q(np.swapaxes(A, 0, 1)).T}.items():
            okv, Mv = out.call(f"{site}({nm} argument)", L.utils.quaternion_to_complex_adjoint, Av)
            if okv:
                Mv = as_complex(out, f"{site}({nm} argument)", Mv, (2 * n, 2 * n))
                if Mv is not None:
                    out.equal_bits(f"{site}({nm} argument):same adjoint as for the C-contiguous argument",
                                   np.stack([Mv.real, Mv.imag]), np.stack([M.real, M.imag]))
    return M


def lib_contract(out, R, m, n, site):
    ok, Aq = out.call(site, L.utils.real_contract, R, m, n)
    if not ok:
        return None
    try:
        X = F(Aq)
    except Exception as e:  # noqa: BLE001
        out.true(site + ":returns a quaternion array", False, f"{type(e).__name__}: {e}"[:200])
        return None
    if not out.true(site + ":shape", X.shape == (m, n, 4), f"shape {X.shape}, expected {(m, n, 4)}"):
        return None
    return X


def dot_ratio(P, want, Sabs, length):
    """max entrywise |P - want| / bound, bound = C_DOT*(length+4)*u*Sabs.

    P is a numpy/BLAS product of two matrices whose entries are exact copies of input components, so every entry
    is a floating dot product of `length` terms: |fl - exact| <= gamma_length * sum|x_i y_i| for ANY summation
    order (Higham, Accuracy and Stability, sec. 3.1).  `want` is the exact rational product rounded once
    (<= u*|exact| <= u*Sabs), Sabs itself is a float sum of non-negative terms (relative error <= length*u).
    Rigorous constant (length+1)*u*(1+O(u)); we allow C_DOT*(length+4)*u."""
    bound = C_DOT * (length + 4) * U_ * Sabs + TINY
    return float(np.max(np.abs(P - want) / bound)) if P.size else 0.0


# ----------------------------------------------------------------------------
# clause 1 (exhaustive): one basis unit at every position of every shape m,n <= 3


def enum_units(tier):
    cases = []
    for m, n in itertools.product((1, 2, 3), repeat=2):
        for i in range(m):
            for j in range(n):
                for c in range(4):
                    for sgn in (1.0, -1.0):
                        cases.append({"shape": [m, n], "pos": [i, j], "c": c, "sign": sgn})
    return cases


def check_units(case):
    out = Out()
    m, n = case["shape"]
    A = np.zeros((m, n, 4))
    A[case["pos"][0], case["pos"][1], case["c"]] = case["sign"]
    out.label(f"unit=e{case['c']}", shape_class(m, n))
    check_layout(out, A)
    check_scalar_realp(out, A)
    check_transpose(out, A)
    check_components(out, A)
    if m == n:
        check_adjoint_layout(out, A)
    # exhaustive clause: an imaginary unit placed in a matrix with min(m,n) >= 2
    out.nontrivial = min(m, n) >= 2 and case["c"] > 0
    return out


# ----------------------------------------------------------------------------
# clause 2 (exhaustive): products of two basis units at every pair of positions, shapes {1,2}^3 - exact


def enum_unit_pairs(tier):
    cases = []
    for (m, k, n) in itertools.product((1, 2), repeat=3):
        for i in range(m):
            for t in range(k):
                for t2 in range(k):
                    for j in range(n):
                        for a in range(4):
                            for b in range(4):
                                cases.append({"shape": [m, k, n], "pa": [i, t], "pb": [t2, j], "a": a, "b": b})
    return cases


def check_unit_pairs(case):
    out = Out()
    m, k, n = case["shape"]
    a, b = case["a"], case["b"]
    A = np.zeros((m, k, 4))
    B = np.zeros((k, n, 4))
    A[case["pa"][0], case["pa"][1], a] = 1.0
    B[case["pb"][0], case["pb"][1], b] = 1.0
    C = np.zeros((m, n, 4))
    meet = case["pa"][1] == case["pb"][0]
    ea = [1.0 if c == a else 0.0 for c in range(4)]
    eb = [1.0 if c == b else 0.0 for c in range(4)]
    prod = ref.ham(ea, eb)
    if meet:
        C[case["pa"][0], case["pb"][1]] = prod
    # products of 0/+-1 are exact in binary64: compare exactly with the independent embedding of the product
    EA, EB = lib_expand(out, A), lib_expand(out, B)
    if EA is not None and EB is not None:
        out.equal_bits("real_expand:E(A)E(B)=E(AB) on basis units", EA @ EB, ref.chi_r(C), f"e{a}*e{b}")
    RA, RB = lib_realp(out, A), lib_realp(out, B)
    if RA is not None and RB is not None:
        out.equal_bits("Realp(matrices):E(A)E(B)=E(AB) on basis units", RA @ RB, ref.chi_r_blocked(C), f"e{a}*e{b}")
    if m == k == n:
        MA, MB = lib_adjoint(out, A), lib_adjoint(out, B)
        if MA is not None and MB is not None:
            equal_bits_c(out, "quaternion_to_complex_adjoint:E(A)E(B)=E(AB) on basis units", MA @ MB, ref.chi_c(C),
                         f"e{a}*e{b}")
    if (m, k, n) == (1, 1, 1):
        ok1, Sa = out.call("Realp(scalars)", L.utils.Realp, *[np.float64(v) for v in ea])
        ok2, Sb = out.call("Realp(scalars)", L.utils.Realp, *[np.float64(v) for v in eb])
        if ok1 and ok2:
            Sa = as_real(out, "Realp(scalars)", Sa, (4, 4))
            Sb = as_real(out, "Realp(scalars)", Sb, (4, 4))
            if Sa is not None and Sb is not None:
                out.equal_bits("Realp(scalars):E(p)E(q)=E(pq) on basis units", Sa @ Sb, ref._Lmat(prod), f"e{a}*e{b}")
                # the way ggivens uses it: Realp(p) @ components(x) = components(p*x)
                out.equal_bits("Realp(scalars):E(p)vec(x)=vec(p*x) on basis units", Sa @ np.array(eb),
                               np.array(prod, dtype=float), f"e{a}*e{b}")
    out.label("meet" if meet else "miss")
    out.nontrivial = meet and a != b and a > 0 and b > 0
    return out


# ----------------------------------------------------------------------------
# sub-checks shared by exhaustive and generated clauses


def check_layout(out, A, view=False):
    """Layout (bit-for-bit against the independent embedding), injectivity, round trip."""
    m, n, _ = A.shape
    want = ref.chi_r(A)
    wantb = blocked_from_interleaved(want, m, n)
    E = lib_expand(out, A)
    if E is not None:
        out.equal_bits("real_expand:equals left-multiplication embedding chi_r", E, want)
        # round trip through the library's own expand (injectivity, exact)
        X = lib_contract(out, E, m, n, "real_contract(real_expand(A))")
        if X is not None:
            out.equal_bits("real_contract(real_expand(A)):returns A bit-for-bit", X, A)
    # contraction of the independent embedding (pins the contract layout on its own)
    X = lib_contract(out, want, m, n, "real_contract(chi_r(A))")
    if X is not None:
        out.equal_bits("real_contract(chi_r(A)):returns A bit-for-bit", X, A)
    Rb = lib_realp(out, A, view=view)
    if Rb is not None:
        out.equal_bits("Realp(matrices):equals component-blocked permutation of chi_r", Rb, wantb)
        # injective: the first block column holds the four planes
        for p in range(4):
            out.equal_bits("Realp(matrices):first block column holds the planes", Rb[p * m:(p + 1) * m, 0:n], A[..., p])
        # planes of mixed dtype: any plane whose values happen to be integers may arrive as an integer array
        # (e.g. np.eye(n, dtype=int) or np.zeros((m, n), dtype=int) as real part); the embedding is the same
        pl = planes(A, view)
        mixed = [np.asarray(x).astype(np.int64) if np.all(np.asarray(x) == np.round(np.asarray(x))) and np.all(np.abs(x) < 2 ** 52)
                 else x for x in pl]
        if any(np.asarray(x).dtype.kind == "i" for x in mixed) and not all(np.asarray(x).dtype.kind == "i" for x in mixed):
            okm, Rm = out.call("Realp(matrices, mixed dtypes)", L.utils.Realp, *mixed)
            if okm:
                Rm = as_real(out, "Realp(matrices, mixed dtypes)", Rm, (4 * m, 4 * n))
                if Rm is not None:
                    out.equal_bits("Realp(matrices, mixed dtypes):same embedding as with float planes", Rm, wantb)
                    out.label("mixed_dtype_planes")
        # planes that SHARE memory: the same array passed for two or all imaginary planes, overlapping windows of one
        # buffer (quaternion matrices with equal / shifted components arise from real data lifted to H); the embedding
        # depends on the values only and the caller's arrays stay untouched
        base = [np.array(A[..., p], dtype=float) for p in range(4)]
        buf = np.concatenate([base[1], base[2]], axis=0)
        sh = max(1, m // 2)
        combos = {"same array twice (x, y)": [base[0], base[1], base[1], base[3]],
                  "same array twice (y, z)": [base[0], base[3], base[1], base[1]],
                  "same array twice (x, z)": [base[0], base[1], base[3], base[1]],
                  "one array for all planes": [base[2], base[2], base[2], base[2]],
                  "overlapping windows of one buffer": [base[0], buf[0:m], buf[sh:sh + m], base[3]]}
        for nm, pl in combos.items():
            wantp = ref.chi_r_copy(np.stack([np.array(x) for x in pl], axis=-1), blocked=True)
            before = [np.array(x) for x in pl]
            oks, Rs = out.call(f"Realp(matrices, {nm})", L.utils.Realp, *pl)
            if oks:
                Rs = as_real(out, f"Realp(matrices, {nm})", Rs, (4 * m, 4 * n))
                if Rs is not None:
                    out.equal_bits(f"Realp(matrices, {nm}):same embedding as for independent planes", Rs, wantp)
                out.true(f"Realp(matrices, {nm}):planes unchanged",
                         all(np.array_equal(a, b, equal_nan=True) for a, b in zip(before, pl)), "a plane was modified")
    return E, Rb


def check_scalar_realp(out, A, pyfloat=False):
    m, n, _ = A.shape
    conv = float if pyfloat else np.float64
    for i in range(m):
        for j in range(n):
            q = A[i, j]
            ok, R = out.call("Realp(scalars)", L.utils.Realp, *[conv(v) for v in q])
            if not ok:
                return
            R = as_real(out, "Realp(scalars)", R, (4, 4))
            if R is None:
                return
            if not out.equal_bits("Realp(scalars):equals the 4x4 left-multiplication matrix", R, ref._Lmat(q)):
                return


def check_transpose(out, A, view=False):
    m, n, _ = A.shape
    AH = ref.conjT(A)
    E, EH = lib_expand(out, A), lib_expand(out, AH, "real_expand(A^H)")
    if E is not None and EH is not None:
        out.equal_bits("real_expand:E(A^H)=E(A)^T", EH, E.T)
    R, RH = lib_realp(out, A, view=view), lib_realp(out, AH, "Realp(matrices of A^H)", view=view)
    if R is not None and RH is not None:
        out.equal_bits("Realp(matrices):E(A^H)=E(A)^T", RH, R.T)


def check_adjoint_layout(out, A):
    n = A.shape[0]
    M = lib_adjoint(out, A)
    if M is None:
        return None
    equal_bits_c(out, "quaternion_to_complex_adjoint:equals chi_c = [[C,D],[-conj D,conj C]]", M, ref.chi_c(A))
    out.equal_bits("quaternion_to_complex_adjoint:injective (A recovered from the top block row)", ref.from_chi_c(M), A)
    MH = lib_adjoint(out, ref.conjT(A), "quaternion_to_complex_adjoint(A^H)")
    if MH is not None:
        equal_bits_c(out, "quaternion_to_complex_adjoint:E(A^H)=E(A)^H", MH, M.conj().T)
    return M


def check_components(out, A):
    """A2A0123 and the dense/sparse <-> component conversions of the Krylov solver: pure data movement."""
    m, n, _ = A.shape
    P = planes(A)
    stored = np.hstack([P[0], P[2], P[1], P[3]])            # documented storage order [A0 A2 A1 A3]
    ok, r = out.call("A2A0123", L.utils.A2A0123, stored)
    if ok:
        good = out.true("A2A0123:returns four planes", isinstance(r, (tuple, list)) and len(r) == 4, f"{type(r).__name__}")
        if good:
            for c in range(4):
                out.equal_bits("A2A0123(hstack[A0,A2,A1,A3]):returns (A0,A1,A2,A3) bit-for-bit", np.asarray(r[c]), P[c],
                               f"plane {c}")
    # image-side split / merge of a (H, W, 4) component array (also for H = 1 or W = 1)
    ok, ch = out.call("split_quat_channels", L.qslst.split_quat_channels, A.copy())
    if ok and out.true("split_quat_channels:returns four planes", isinstance(ch, (tuple, list)) and len(ch) == 4, f"{type(ch).__name__}"):
        shapes_ok = all(np.shape(ch[c]) == (m, n) for c in range(4))
        if out.true("split_quat_channels:every plane has the image's shape", shapes_ok, f"{[np.shape(x) for x in ch]} for {m}x{n}"):
            for c in range(4):
                out.equal_bits("split_quat_channels:plane c is component c bit-for-bit", np.asarray(ch[c]), P[c], f"plane {c}")
            ok2, back = out.call("stack_quat_channels(split_quat_channels(A))", L.qslst.stack_quat_channels, *ch)
            if ok2:
                out.equal_bits("stack_quat_channels(split_quat_channels(A)):returns A bit-for-bit", np.asarray(back), A)
            # the planes of one split merged in another order / replicated: the merge answers for the planes it is given
            for perm in ((0, 3, 2, 1), (1, 1, 1, 1), (3, 0, 1, 2)):
                ok3, bp = out.call("stack_quat_channels(permuted planes of one split)", L.qslst.stack_quat_channels,
                                   *[ch[c] for c in perm])
                if ok3:
                    out.equal_bits("stack_quat_channels(permuted planes of one split):component c is the plane passed as c",
                                   np.asarray(bp), A[..., list(perm)], f"order {perm}")
    ok, solver = out.call("QGMRESSolver()", L.solver.QGMRESSolver)
    if not ok:
        return
    ok, comp = out.call("_quat_to_components(dense)", solver._quat_to_components, Q(A))
    if ok and out.true("_quat_to_components(dense):returns four planes", len(comp) == 4, f"{len(comp)} items"):
        for c in range(4):
            out.equal_bits("_quat_to_components(dense):planes of A bit-for-bit", np.asarray(comp[c]), P[c], f"plane {c}")
        ok2, back = out.call("_components_to_quat(_quat_to_components(dense))", solver._components_to_quat, *comp)
        if ok2:
            try:
                X = F(back)
            except Exception as e:  # noqa: BLE001
                X = None
                out.true("_components_to_quat:returns a quaternion array", False, f"{type(e).__name__}: {e}"[:200])
            if X is not None:
                out.equal_bits("_components_to_quat(_quat_to_components(A)):returns A bit-for-bit", X, A)
    # from the harness's own planes (pins _components_to_quat on its own)
    ok, back = out.call("_components_to_quat(planes)", solver._components_to_quat, *P)
    if ok:
        try:
            out.equal_bits("_components_to_quat(planes):equals A bit-for-bit", F(back), A)
        except Exception as e:  # noqa: BLE001
            out.true("_components_to_quat:returns a quaternion array", False, f"{type(e).__name__}: {e}"[:200])
    ok, comps = out.call("_quat_to_components(sparse)", solver._quat_to_components, S(A))
    if ok and out.true("_quat_to_components(sparse):returns four planes", len(comps) == 4, f"{len(comps)} items"):
        for c in range(4):
            out.equal_bits("_quat_to_components(sparse):planes equal those of the dense form", np.asarray(comps[c]), P[c],
                           f"plane {c}")
    # already-in-component-format pass-through (documented third branch)
    ok, same = out.call("_quat_to_components(tuple)", solver._quat_to_components, tuple(P))
    if ok and out.true("_quat_to_components(tuple):returns four planes", len(same) == 4, f"{len(same)} items"):
        for c in range(4):
            out.equal_bits("_quat_to_components(tuple):pass-through", np.asarray(same[c]), P[c], f"plane {c}")


def check_norm(out, site, E, A, factor_sq):
    """||E(A)||_F = sqrt(factor_sq) * ||A||_F.  Oracle: exact rational sum of squares of A.

    numpy's norm sums N = E.size squares (only N/factor_sq... all of them copies of components) in some order:
    relative error of the sum <= (N+1)u, of the root <= (N/2+2)u; the exact root is rounded with <= 2u.
    Bound C_NORM*(N+8)*u relative."""
    exact = ref.sqrt_fraction(ref.fro_exact_sq(A) * factor_sq)
    got = float(np.linalg.norm(E))
    N = E.size * (2 if np.iscomplexobj(E) else 1)
    out.le(site, abs(got - exact), C_NORM * (N + 8) * U_ * exact + (TINY if exact == 0.0 else 0.0),
           f"||E(A)||_F={got!r}, sqrt({factor_sq})*||A||_F={exact!r}")


# ----------------------------------------------------------------------------
# generator: the shared entry patterns (magnitudes 10^+-60) plus a component mask, so that every subset of
# the four components (in particular "exactly two imaginary axes") occurs with healthy frequency


@st.composite
def qinput(draw, m, n):
    A, pat = draw(gen.qarray(m, n, None, -60, 60))
    if pat not in ("zero", "unit", "axis") and draw(st.integers(0, 2)) == 0:
        keep = draw(st.lists(st.booleans(), min_size=4, max_size=4))
        A = A * np.array(keep, dtype=float)
        pat = pat + "+mask"
    return np.ascontiguousarray(A, dtype=float), pat


# ----------------------------------------------------------------------------
# clause 3 (generated): the two real embeddings


@st.composite
def real_cases(draw, tier, size=None):
    lo_, hi = size or (1, 6 if tier == "quick" else 8)
    m, k, n = draw(st.integers(lo_, hi)), draw(st.integers(lo_, hi)), draw(st.integers(lo_, hi))
    A, pa = draw(qinput(m, k))
    B, pb = draw(qinput(k, n))
    A2, pa2 = draw(qinput(m, k))
    if m == k and draw(st.integers(0, 3)) == 0:
        # exactly Hermitian (or skew-Hermitian) operand: a value-dependent structural class that basis units and generic
        # matrices never enter
        sgn = draw(st.sampled_from([1.0, 1.0, -1.0]))
        A = A + sgn * ref.conjT(A)
        pa = pa + ("+hermitian" if sgn > 0 else "+skew_hermitian")
    a = draw(gen.reals())
    b = draw(gen.reals())
    return {"A": A, "B": B, "A2": A2, "a": a, "b": b, "pa": pa, "pb": pb, "view": draw(st.booleans()),
            "pyfloat": draw(st.booleans())}


@st.composite
def long_real_cases(draw, tier):
    """One of m / k long (crossing the blocking sizes), the other dimensions <= 2."""
    which = draw(st.sampled_from(["m", "k"]))
    Lg = draw(gen.long_dim(cap=200 if tier == "quick" else 300))
    m, k, n = (Lg, draw(st.integers(1, 2)), 1) if which == "m" else (draw(st.integers(1, 2)), Lg, draw(st.integers(1, 2)))
    A, pa = draw(gen.long_qarray(m, k))
    B, pb = draw(gen.long_qarray(k, n))
    A2, _ = draw(gen.long_qarray(m, k))
    return {"A": A, "B": B, "A2": A2, "a": draw(gen.reals()), "b": draw(gen.reals()), "pa": pa, "pb": pb,
            "view": draw(st.booleans()), "pyfloat": False}


@st.composite
def long_component_cases(draw, tier):
    m, n = draw(gen.long_dim(cap=300)), draw(st.integers(1, 3))
    if draw(st.booleans()):
        m, n = n, m
    A, pa = draw(gen.long_qarray(m, n))
    return {"A": A, "pa": pa}


@st.composite
def long_adjoint_cases(draw, tier):
    n = draw(gen.long_dim(cap=129 if tier == "quick" else 257))
    A, pa = draw(gen.long_qarray(n, n))
    return {"A": A, "pa": pa}


def check_adjoint_long(case):
    """Layout, injectivity and the conjugate-transpose law for a long square matrix (the product law needs an n^3
    exact oracle and stays with the small sizes)."""
    out = Out()
    A = case["A"]
    out.label("patA=" + case["pa"], f"n={A.shape[0]}")
    M = check_adjoint_layout(out, A)
    if M is not None:
        check_norm(out, "quaternion_to_complex_adjoint:||E(A)||_F = sqrt(2)||A||_F", M, A, 2)
    out.nontrivial = imag_axes(A) >= 2
    out.sample = {"n": int(A.shape[0]), "pattern": case["pa"]}
    return out


def check_real(case):
    out = Out()
    A, B, A2, a, b = case["A"], case["B"], case["A2"], float(case["a"]), float(case["b"])
    view = bool(case["view"])
    m, k, _ = A.shape
    n = B.shape[1]
    axes = imag_axes(A)
    out.label("patA=" + case["pa"], shape_class(m, k), f"imag_axes={axes}", "planes=view" if view else "planes=contig")
    EA, RA = check_layout(out, A, view=view)
    check_scalar_realp(out, A, pyfloat=bool(case["pyfloat"]))
    check_transpose(out, A, view=view)
    EB, RB = lib_expand(out, B, "real_expand(B)"), lib_realp(out, B, "Realp(matrices of B)", view=view)
    # ---- homomorphism: E(A) E(B) (numpy matmul on what the library returned) vs E(exact product)
    Ce, _ = ref.mat_mul_exact(A, B)
    Cx = ref.exact_to_float(Ce)
    if EA is not None and EB is not None:
        Sabs = np.abs(ref.chi_r(A)) @ np.abs(ref.chi_r(B))
        out.le("real_expand:E(A)E(B)=E(AB)", dot_ratio(EA @ EB, ref.chi_r(Cx), Sabs, 4 * k), 1.0,
               f"max entrywise error/bound, shapes {m}x{k}x{n}")
        # contraction of a computed structured product returns the product (how QR/Q-SVD/Schur use it)
        X = lib_contract(out, ref.chi_r(A) @ ref.chi_r(B), m, n, "real_contract(chi_r(A) chi_r(B))")
        if X is not None:
            Sq = np.stack([Sabs[p::4, 0::4] for p in range(4)], axis=-1)
            bnd = C_DOT * (4 * k + 4) * U_ * Sq + TINY
            out.le("real_contract(chi_r(A) chi_r(B)):equals AB", float(np.max(np.abs(X - Cx) / bnd)), 1.0)
    if RA is not None and RB is not None:
        Sabs = np.abs(ref.chi_r_blocked(A)) @ np.abs(ref.chi_r_blocked(B))
        out.le("Realp(matrices):E(A)E(B)=E(AB)", dot_ratio(RA @ RB, ref.chi_r_blocked(Cx), Sabs, 4 * k), 1.0,
               f"max entrywise error/bound, shapes {m}x{k}x{n}")
    # ---- real-linearity: X = fl(a*A + b*A2) formed by the harness; E(X) vs a*E(A) + b*E(A2).
    # Both sides apply the same two roundings per entry (round-to-nearest is sign-symmetric), so agreement is
    # expected to the last bit; the stated tolerance is 2u relative to |a||E(A)|+|b||E(A2)|.
    X = a * A + b * A2
    for nm, emb, refemb in (("real_expand", lib_expand, ref.chi_r), ("Realp(matrices)", lib_realp, ref.chi_r_blocked)):
        E1, E2, EX = emb(out, A, nm), emb(out, A2, nm + " of A2"), emb(out, X, nm + " of aA+bB")
        if E1 is not None and E2 is not None and EX is not None:
            bnd = 2 * U_ * (abs(a) * np.abs(refemb(A)) + abs(b) * np.abs(refemb(A2))) + TINY
            out.le(f"{nm}:E(aA+bB)=aE(A)+bE(B)", float(np.max(np.abs(EX - (a * E1 + b * E2)) / bnd)), 1.0)
    # ---- Frobenius norm scales by exactly 2 (every component appears 4 times)
    if EA is not None:
        check_norm(out, "real_expand:||E(A)||_F = 2||A||_F", EA, A, 4)
    if RA is not None:
        check_norm(out, "Realp(matrices):||E(A)||_F = 2||A||_F", RA, A, 4)
    out.nontrivial = min(m, k) >= 2 and axes >= 2
    out.sample = {"shape": [m, k, n], "patterns": [case["pa"], case["pb"]], "imag_axes": axes}
    return out


# ----------------------------------------------------------------------------
# clause 4 (generated): the complex adjoint (square)


@st.composite
def adjoint_cases(draw, tier, size=None):
    n = draw(st.integers(*size) if size else st.integers(1, 6 if tier == "quick" else 8))
    A, pa = draw(qinput(n, n))
    B, pb = draw(qinput(n, n))
    A2, _ = draw(qinput(n, n))
    return {"A": A, "B": B, "A2": A2, "a": draw(gen.reals()), "b": draw(gen.reals()), "pa": pa, "pb": pb}


def check_adjoint(case):
    out = Out()
    A, B, A2, a, b = case["A"], case["B"], case["A2"], float(case["a"]), float(case["b"])
    n = A.shape[0]
    axes = imag_axes(A)
    out.label("patA=" + case["pa"], f"n={n}", f"imag_axes={axes}")
    MA = check_adjoint_layout(out, A)
    MB = lib_adjoint(out, B, "quaternion_to_complex_adjoint(B)")
    if MA is not None and MB is not None:
        Ce, _ = ref.mat_mul_exact(A, B)
        want = ref.chi_c(ref.exact_to_float(Ce))
        # complex dot products of 2n terms: each complex product costs <= sqrt(5)u|x||y| (Brent/Percival/
        # Zimmermann), the 2n-term sum <= (2n-1)u; bound relative to sum of moduli products; rigorous ~(2n+2)u.
        Sabs = np.abs(ref.chi_c(A)) @ np.abs(ref.chi_c(B))
        out.le("quaternion_to_complex_adjoint:E(A)E(B)=E(AB)", dot_ratio(MA @ MB, want, Sabs, 2 * n), 1.0,
               f"max entrywise error/bound, n={n}")
    X = a * A + b * A2
    M2, MX = lib_adjoint(out, A2, "quaternion_to_complex_adjoint(A2)"), lib_adjoint(out, X, "quaternion_to_complex_adjoint(aA+bB)")
    if MA is not None and M2 is not None and MX is not None:
        bnd = 2 * U_ * (abs(a) * np.abs(ref.chi_c(A)) + abs(b) * np.abs(ref.chi_c(A2))) + TINY
        out.le("quaternion_to_complex_adjoint:E(aA+bB)=aE(A)+bE(B)", float(np.max(np.abs(MX - (a * MA + b * M2)) / bnd)), 1.0)
    if MA is not None:
        check_norm(out, "quaternion_to_complex_adjoint:||E(A)||_F = sqrt(2)||A||_F", MA, A, 2)
    out.nontrivial = n >= 2 and axes >= 2
    out.sample = {"n": n, "patterns": [case["pa"], case["pb"]], "imag_axes": axes}
    return out


# ----------------------------------------------------------------------------
# clause 5 (generated): component split / merge is lossless


@st.composite
def component_cases(draw, tier, size=None):
    lo_, hi = size or (1, 6 if tier == "quick" else 8)
    m, n = draw(st.integers(lo_, hi)), draw(st.integers(lo_, hi))
    A, pa = draw(qinput(m, n))
    return {"A": A, "pa": pa}


def check_component_case(case):
    out = Out()
    A = case["A"]
    m, n, _ = A.shape
    axes = imag_axes(A)
    out.label("patA=" + case["pa"], shape_class(m, n), f"imag_axes={axes}")
    check_components(out, A)
    out.nontrivial = min(m, n) >= 2 and axes >= 2
    out.sample = {"shape": [m, n], "pattern": case["pa"]}
    return out



# ----------------------------------------------------------------------------
# clause 6 (generated): the round trip / split-merge is a COPY - every binary64 value survives it bit-for-bit
# (signed zeros, infinities, NaN, subnormals, the largest finite number): "for all entry values ... returns the
# original matrix bit-for-bit ... splitting/merging the four component planes is lossless".  The complex adjoint is
# not part of this clause: it is formed arithmetically (w + 1j*x) and the property's bit-for-bit sentence is about
# the real round trip and the plane split only.

SPECIAL_VALUES = [0.0, -0.0, float("inf"), float("-inf"), float("nan"), 5e-324, -5e-324, 2.2250738585072014e-308,
                  1.7976931348623157e308, -1.7976931348623157e308, 1.0, -1.0, 0.1, 3.0]


def same_bytes(out, site, a, b, msg=""):
    a = np.ascontiguousarray(np.asarray(a, dtype=float))
    b = np.ascontiguousarray(np.asarray(b, dtype=float))
    if a.shape != b.shape:
        return out.true(site, False, f"{msg} shape {a.shape} != {b.shape}".strip())
    ok = a.tobytes() == b.tobytes()
    if not ok:
        bad = np.argwhere(a.view(np.uint64) != b.view(np.uint64))
        i = tuple(int(v) for v in bad[0])
        out.true(site, False, f"{msg} {len(bad)} entries differ in their bit pattern, first at {i}: {a[i]!r} vs {b[i]!r}".strip())
    return ok


def same_values(out, site, a, b):
    """Equality of values with NaN == NaN (sign of zero / NaN payload not distinguished): used where the embedding
    negates components, which is a value-level statement."""
    a, b = np.asarray(a, dtype=float), np.asarray(b, dtype=float)
    return out.true(site, a.shape == b.shape and bool(np.array_equal(a, b, equal_nan=True)), "values differ")


@st.composite
def special_cases(draw, tier):
    hi = 4 if tier == "quick" else 6
    m, n = draw(st.integers(1, hi)), draw(st.integers(1, hi))
    A, pa = draw(gen.qarray(m, n, draw(st.sampled_from(["generic", "int", "sparse", "zero"]))))
    A = np.array(A, dtype=float)
    k = draw(st.integers(1, max(1, min(6, m * n * 4))))
    kinds = set()
    for _ in range(k):
        i, j, c = draw(st.integers(0, m - 1)), draw(st.integers(0, n - 1)), draw(st.integers(0, 3))
        v = draw(st.sampled_from(SPECIAL_VALUES))
        A[i, j, c] = v
        kinds.add("nan" if v != v else ("inf" if abs(v) == float("inf") else ("negzero" if (v == 0 and np.signbit(v)) else
                  ("subnormal" if 0 < abs(v) < 2.3e-308 else ("huge" if abs(v) > 1e300 else "ordinary")))))
    return {"A": A, "kinds": sorted(kinds)}


def check_special(case):
    out = Out()
    A = case["A"]
    m, n, _ = A.shape
    out.label(*["has_" + k for k in case["kinds"]], shape_class(m, n))
    with np.errstate(all="ignore"):
        ok, R = out.call("real_expand(special values)", L.utils.real_expand, Q(A))
        if ok:
            R = as_real(out, "real_expand(special values)", R, (4 * m, 4 * n))
        if ok and R is not None:
            same_values(out, "real_expand(special values):equals chi_r (NaN==NaN)", R, ref.chi_r_copy(A))
            X = lib_contract(out, R, m, n, "real_contract(real_expand(A)) special values")
            if X is not None:
                same_bytes(out, "real_contract(real_expand(A)):returns A bit-for-bit incl. signed zero/inf/NaN", X, A)
        X = lib_contract(out, ref.chi_r_copy(A), m, n, "real_contract(chi_r(A)) special values")
        if X is not None:
            same_bytes(out, "real_contract(chi_r(A)):returns A bit-for-bit incl. signed zero/inf/NaN", X, A)
        Rb = lib_realp(out, A, "Realp(matrices, special values)")
        if Rb is not None:
            same_values(out, "Realp(matrices, special values):equals blocked chi_r (NaN==NaN)", Rb, ref.chi_r_copy(A, blocked=True))
            for p in range(4):
                same_bytes(out, "Realp(matrices, special values):first block column holds the planes bit-for-bit",
                           Rb[p * m:(p + 1) * m, 0:n], A[..., p])
        P = planes(A)
        stored = np.hstack([P[0], P[2], P[1], P[3]])
        ok, r = out.call("A2A0123(special values)", L.utils.A2A0123, stored)
        if ok and out.true("A2A0123:returns four planes", isinstance(r, (tuple, list)) and len(r) == 4, f"{type(r).__name__}"):
            for c in range(4):
                same_bytes(out, "A2A0123(special values):planes bit-for-bit", np.asarray(r[c]), P[c], f"plane {c}")
        ok, solver = out.call("QGMRESSolver()", L.solver.QGMRESSolver)
        if ok:
            ok, comp = out.call("_quat_to_components(dense, special values)", solver._quat_to_components, Q(A))
            if ok and out.true("_quat_to_components(dense):returns four planes", len(comp) == 4, f"{len(comp)} items"):
                for c in range(4):
                    same_bytes(out, "_quat_to_components(dense, special values):planes bit-for-bit", np.asarray(comp[c]), P[c],
                               f"plane {c}")
                ok2, back = out.call("_components_to_quat(special values)", solver._components_to_quat, *comp)
                if ok2:
                    try:
                        same_bytes(out, "_components_to_quat(_quat_to_components(A)):returns A bit-for-bit incl. signed zero/inf/NaN",
                                   F(back), A)
                    except Exception as e:  # noqa: BLE001
                        out.true("_components_to_quat:returns a quaternion array", False, f"{type(e).__name__}: {e}"[:200])
    out.nontrivial = any(k != "ordinary" for k in case["kinds"])
    out.sample = {"shape": [m, n], "kinds": case["kinds"]}
    return out


PROPERTY = Property(
    id="C02",
    title="Real and complex embeddings are faithful *-homomorphisms with exact round trip",
    rule=("generated clauses: min(m,n) >= 2 and at least two distinct imaginary axes carry a non-zero component of A "
          "(special_values_round_trip: at least one planted entry is a signed zero, infinity, NaN, subnormal or > 1e300); "
          "exhaustive unit clause: an imaginary basis unit placed in a shape with min(m,n) >= 2; exhaustive pair clause: "
          "two distinct imaginary units meeting at a matching inner index. Distinct = distinct input digest."),
    clauses=[
        Clause("units_exhaustive", check_units, enumerate=enum_units, budget={"quick": 0, "thorough": 0}),
        Clause("unit_pairs_exhaustive", check_unit_pairs, enumerate=enum_unit_pairs, budget={"quick": 0, "thorough": 0}),
        Clause("real_embeddings", check_real, strategy=real_cases, budget={"quick": 2400, "thorough": 20000}),
        Clause("complex_adjoint", check_adjoint, strategy=adjoint_cases, budget={"quick": 1600, "thorough": 16000}),
        Clause("component_split", check_component_case, strategy=component_cases, budget={"quick": 800, "thorough": 6000}),
        Clause("real_embeddings_moderate_size", check_real, strategy=lambda tier: real_cases(tier, size=(9, 16 if tier == "quick" else 32)),
               budget={"quick": 16, "thorough": 160}, shrink=False),
        Clause("component_split_moderate_size", check_component_case, strategy=lambda tier: component_cases(tier, size=(9, 16 if tier == "quick" else 32)),
               budget={"quick": 16, "thorough": 160}, shrink=False),
        Clause("complex_adjoint_moderate_size", check_adjoint, strategy=lambda tier: adjoint_cases(tier, size=(9, 14 if tier == "quick" else 24)),
               budget={"quick": 12, "thorough": 120}, shrink=False),
        Clause("real_embeddings_long_dimension", check_real, strategy=long_real_cases, budget={"quick": 24, "thorough": 240},
               shrink=False),
        Clause("component_split_long_dimension", check_component_case, strategy=long_component_cases,
               budget={"quick": 24, "thorough": 240}, shrink=False),
        Clause("complex_adjoint_long_dimension", check_adjoint_long, strategy=long_adjoint_cases,
               budget={"quick": 16, "thorough": 120}, shrink=False),
        Clause("special_values_round_trip", check_special, strategy=special_cases, budget={"quick": 1200, "thorough": 10000}),
    ],
    assumptions=[
        "oracle embeddings chi_r / chi_r_blocked / chi_c are the harness's own (qv/ref.py, derived from the Hamilton table and "
        "self-checked for the homomorphism at start-up); the library is never its own oracle",
        "numpy-quaternion dtype conversions (as_quat_array/as_float_array) are trusted",
        "layout clauses are bit-for-bit (sign of zero not distinguished); the special_values_round_trip clause compares the raw "
        "64-bit patterns of round trips and plane splits (signed zeros, infinities, NaN, subnormals, largest finite numbers); products use the forward dot-product bound "
        "16*(len+4)*u*sum|partial products| against the exact rational product; norms 8*(N+8)*u relative to the exact rational norm",
        "magnitudes restricted to 10^+-60 so products and squared norms are representable (no overflow/underflow claims)",
        "documented domains only: 2-D quaternion ndarrays for real_expand, square for the adjoint, 2-D float planes or "
        "real scalars for Realp, column count divisible by 4 for A2A0123",
    ],
    exhaustive_note=("units_exhaustive: +-{1,i,j,k} at every position of every shape m,n<=3 (288 cases), all layouts, transposes, "
                     "round trips and component conversions compared exactly; unit_pairs_exhaustive: all 16 unit pairs at every "
                     "pair of positions of shapes {1,2}^3 (720 cases), E(A)E(B)=E(AB) compared exactly for the three embeddings "
                     "and the scalar Realp form"),
)
