"""C08 - Hermitian eigendecomposition and tridiagonalisation are exact unitary reductions.

Code under test: decomp/tridiagonalize.py (tridiagonalize, internal_tridiagonalizer, check_tridiagonal,
householder_matrix / householder_vector, column branch) and decomp/eigen.py (quaternion_eigendecomposition,
quaternion_eigenvalues, quaternion_eigenvectors).

Oracle.  Every product, norm and spectrum below is the harness's own (qv/ref.py: Hamilton table, LAPACK on the
harness's complex adjoint chi_c); no library routine checks itself.  u = 2^-53, a = ||A||_F, n the order.

  tridiagonalize(A) -> (P, B), n >= 2
    structure     B has EXACTLY zero i/j/k parts and EXACTLY zero entries off the three diagonals
    symmetry      max_i |B[i+1,i] - B[i,i+1]|              <= C_SYM  * n   * u * a
    unitarity     ||P^H P - I||_F, ||P P^H - I||_F          <= C_UNIT * n   * u
    similarity    ||P A P^H - B||_F                         <= C_SIM  * n^2 * u * a
                  (a real test: the clean-up step DISCARDS whatever is off-band or imaginary, so only a
                   correct reduction with the right phases satisfies it)
    spectrum      max_i |lam_i(B) - lam_i(A)|               <= C_EIG  * (n+3)^2 * u * a   (ref.eigvalsh of both)
  quaternion_eigendecomposition(A) -> (w, V), n >= 1
    real          max |Im w|                                <= C_EIG  * (n+3)^2 * u * a
    spectrum      max_i |sort(Re w)_i - lam_i(A)|           <= C_EIG  * (n+3)^2 * u * a
    unitarity     ||V^H V - I||_F                           <= C_UNIT * n   * u
    eigenpairs    ||A V - V diag(Re w)||_F                  <= C_SIM  * (n+3)^2 * u * a
    reconstruction||A - V diag(Re w) V^H||_F                <= C_SIM  * (n+3)^2 * u * a
    accessors     quaternion_eigenvalues / quaternion_eigenvectors return the pair bit-for-bit
  both            argument unchanged (byte hash)
  rejections      non-square input, and input that is non-Hermitian by a clear margin, raise (all four entry points)
  reflector       householder_matrix(a, e1) (column branch, a of length k): ||h^H h - I||_F <= C_UNIT (k+1) u and
                  ||h a - |a| e1||_F <= C_UNIT (k+1) u |a|   (the step both reductions are built from)

Derivation of the constants (n <= 8 is generated):
  * one reduction step does P <- fl(Q P), B <- fl(fl(P A) P^H); a quaternion dot product of length n has 4n real
    terms, so every product has forward error <= gamma_{4n} |X||Y|, in norm <= 4 n u sqrt(n) ||Y||_F for a unitary
    factor.  n-1 steps, two products each: residual <= 8 n^2.5 u a, plus the harness's own two products
    (8 n^1.5 u a) and the discarded off-band / imaginary rounding residue (same order): C_SIM n^2 with
    C_SIM = 100 dominates for n <= 100.
  * P: n-1 products with error <= 4 n^2 u plus the defect of a computed reflector (a few sqrt(n) u, |zeta| = 1 and
    ||u||^2 = 2 to a few u): (n-1)(4 n^2 + 20 sqrt(n)) u <= 2200 u at n = 8 <= C_UNIT n u = 8000 u, C_UNIT = 1000.
    V = P^H V_B adds one product and the orthogonality of a symmetric eigensolver (O(n u)): same bound.
  * eigenvalues: Weyl - a perturbation E of a Hermitian matrix moves every eigenvalue by <= ||E||_2, so the
    similarity residual bounds it; LAPACK's own error on B and on chi_c(A) is O(n u a) (dominates for n <= 2).
  * B[i+1,i] and B[i,i+1] are the real parts of two separately rounded entries of the same Hermitian product:
    they differ by two dot-product errors, <= 8 n u a each step: C_SYM n with C_SYM = 100.
  * (n+3)^2 instead of n^2 in the eigen lines: the n-independent costs (the tridiagonal eigensolver, LAPACK on
    the harness's 2n x 2n adjoint, the harness's own two or three products with V) have O(1) constants that dominate
    for n <= 3; with "+3" the measured worst error/bound is flat in n (calibration run, 9000 cases, n = 1..8).
  Observed worst error/bound on a tree with a symmetric eigensolver: <= ~1e-2 on every line (evidence/C08.json);
  the planted mutants exceed the bounds by >= 1e8 (or trip an exact structure line); np.linalg.eig on the
  tridiagonal matrix (the unitarity defect found on the tree as delivered) exceeds the V^H V bound by ~1e3..1e4
  for clustered and by 1e9..1e12 for repeated eigenvalues.

Input classes (tags, computed from the INPUT only: ref.eigvalsh(A) and the zero pattern of A):
  eig_repeated   min gap of the reference spectrum <= 1e-9 * max|lam|      (a multiple eigenvalue; zero matrix included)
  eig_clustered  1e-9 < relative gap < 1e-2
  eig_separated  relative gap >= 1e-2 (or n = 1)
  diagonal / nondiagonal
  zero_subcolumn some sub-column A[k+1:, k], k <= n-2, is exactly zero, or its leading entry A[k+1, k] is exactly
                 zero while the rest is not (alpha == 0 / r == 0 reflector branches)
"""
import contextlib
import hashlib
import io

import numpy as np
from hypothesis import strategies as st
from hypothesis.extra import numpy as hnp

from .. import gen, ref
from ..core import Clause, Out, Property
from ..env import L
from ..lib import F, Q, ahash, case_flag

U_ = ref.U
C_UNIT = 1000.0
C_SIM = 100.0
C_EIG = 100.0
C_SYM = 100.0

REP_GAP = 1e-9
CLU_GAP = 1e-2

# rejection domain: some entry pair violates a_ij = conj(a_ji) by >= REJ_REL * max|a| and by >= REJ_ABS
REJ_REL = 1e-3
REJ_ABS = 1e-8


def _quiet(fn, *a, **kw):
    """Call library code with its print() chatter (guards and clean-up print warnings) dropped."""
    with contextlib.redirect_stdout(io.StringIO()):
        return fn(*a, **kw)


# ----------------------------------------------------------------------------
# input classification (INPUT only)


def herm_from_upper(X):
    """Hermitian matrix, bit-for-bit: upper triangle of X, its conjugate below, real diagonal."""
    X = np.asarray(X, dtype=float)
    n = X.shape[0]
    A = np.zeros((n, n, 4))
    iu = np.triu_indices(n, 1)
    A[iu] = X[iu]
    low = X[iu].copy()
    low[..., 1:] = -low[..., 1:]
    A[(iu[1], iu[0])] = low
    for i in range(n):
        A[i, i, 0] = X[i, i, 0]
    return A + 0.0          # normalise -0.0


def branch_profile(A):
    """Reflector branches that are CERTAINLY taken, derived from the zero pattern of A alone.

    While the sub-column A[k+1:, k] is exactly zero the step is the identity (alpha == 0) and the matrix is
    passed on unchanged (products with an exact identity are exact), so the next step can be predicted too.
    Returns (alpha0_steps, r0_step or None)."""
    n = A.shape[0]
    nz = np.any(A != 0.0, axis=-1)
    alpha0 = []
    r0 = None
    k = 0
    while k <= n - 2:
        col = nz[k + 1:, k]
        if not col.any():
            alpha0.append(k)
            k += 1
            continue
        if not col[0]:
            r0 = k
        break
    return alpha0, r0


def classify(A):
    n = A.shape[0]
    nz = np.any(A != 0.0, axis=-1)
    labels = [f"n={n}"]
    lam = ref.eigvalsh(A) if n else np.zeros(0)
    lmax = float(np.max(np.abs(lam))) if n else 0.0
    if n >= 2:
        gap = float(np.min(np.diff(lam)))
        relgap = gap / lmax if lmax > 0 else 0.0
    else:
        relgap = np.inf
    if relgap <= REP_GAP:
        gapclass = "eig_repeated"
    elif relgap < CLU_GAP:
        gapclass = "eig_clustered"
    else:
        gapclass = "eig_separated"
    labels.append(gapclass)
    offdiag = nz & ~np.eye(n, dtype=bool)
    diagonal = not offdiag.any()
    labels.append("diagonal" if diagonal else "nondiagonal")
    if not nz.any():
        labels.append("zero_matrix")
    tridiagonal = n >= 3 and not np.any(nz[np.tril_indices(n, -2)])
    if tridiagonal and not diagonal:
        labels.append("already_tridiagonal")
    zero_sub = False
    for k in range(0, n - 1):
        col = nz[k + 1:, k]
        if (not col.any()) or (not col[0] and col[1:].any()):
            zero_sub = True
    if zero_sub:
        labels.append("zero_subcolumn")
    alpha0, r0 = branch_profile(A)
    if alpha0:
        labels.append("branch_alpha0")
        if any(k > 0 for k in alpha0) and not diagonal:
            labels.append("branch_alpha0_deep")
    if r0 is not None:
        labels.append("branch_r0")
        if r0 > 0:
            labels.append("branch_r0_deep")
    if n >= 1 and lmax > 0:
        if np.any(lam > 1e-9 * lmax) and np.any(lam < -1e-9 * lmax):
            labels.append("mixed_sign")
        nzero = int(np.sum(np.abs(lam) <= 1e-9 * lmax))
        if nzero >= 1:
            labels.append("has_zero_eig")
        if nzero >= 2:
            labels.append("multi_zero_eig")
        if n >= 2 and gapclass == "eig_repeated" and float(lam[-1] - lam[0]) <= REP_GAP * lmax:
            labels.append("all_equal_eig")
    if nz.any():
        mx = float(np.max(ref.modulus(A)))
        if mx >= 1e4:
            labels.append("large_scale")
        if mx <= 1e-4:
            labels.append("small_scale")
        if mx < 1e4 and np.all(A == np.round(A)):
            labels.append("integer")
    tags = (gapclass, "diagonal" if diagonal else "nondiagonal") + (("zero_subcolumn",) if zero_sub else ())
    nontrivial = n >= 3 and (gapclass == "eig_repeated" or zero_sub)
    return {"labels": labels, "tags": tags, "nontrivial": nontrivial, "lam": lam, "relgap": relgap}


# ----------------------------------------------------------------------------
# oracles


def check_tridiag(A, out, lam):
    n = A.shape[0]
    s = "tridiagonalize"
    Aq = Q(A)
    h0 = ahash(Aq)
    ok, r = out.call(s, _quiet, L.tridiag.tridiagonalize, Aq)
    if not ok:
        return
    if not out.true(f"{s}:returns (P, B)", isinstance(r, tuple) and len(r) == 2, f"returned {type(r).__name__}"):
        return
    Pq, Bq = r
    shp = (getattr(Pq, "shape", None), getattr(Bq, "shape", None))
    if not out.true(f"{s}:shapes", shp == ((n, n), (n, n)), f"P, B shapes {shp} for n={n}"):
        return
    if not out.true(f"{s}:dtype", getattr(Pq, "dtype", None) == np.quaternion
                    and getattr(Bq, "dtype", None) == np.quaternion, "P or B is not a quaternion array"):
        return
    out.true(f"{s}:argument unchanged", ahash(Aq) == h0, "input array modified")
    P, B = F(Pq), F(Bq)
    if not out.true(f"{s}:finite", bool(np.all(np.isfinite(P)) and np.all(np.isfinite(B))), "NaN/Inf in P or B"):
        return
    a = ref.fro(A)
    tiny = 1e-300 if a == 0.0 else 0.0
    nu = n * U_
    # ---- structure (exact)
    out.true(f"{s}:B is real (exactly)", not np.any(B[..., 1:] != 0.0),
             f"max |vector part of B| = {float(np.max(np.abs(B[..., 1:]))):.3e}")
    off = np.abs(np.subtract.outer(np.arange(n), np.arange(n))) > 1
    out.true(f"{s}:B is tridiagonal (exactly)", not np.any(B[off] != 0.0), "non-zero entry off the three diagonals")
    Br = B[..., 0]
    sub = np.array([Br[i + 1, i] for i in range(n - 1)])
    sup = np.array([Br[i, i + 1] for i in range(n - 1)])
    out.le(f"{s}:B symmetric", float(np.max(np.abs(sub - sup))) if n > 1 else 0.0, C_SYM * nu * a + tiny,
           "max_i |B[i+1,i] - B[i,i+1]|")
    # ---- P unitary
    out.le(f"{s}:P^H P = I", ref.unitarity_defect(P), C_UNIT * nu, "||P^H P - I||_F")
    out.le(f"{s}:P P^H = I", ref.fro(ref.qmm(P, ref.conjT(P)) - ref.qeye(n)), C_UNIT * nu, "||P P^H - I||_F")
    # ---- similarity
    res = ref.fro(ref.qmm(ref.qmm(P, A), ref.conjT(P)) - B)
    out.le(f"{s}:P A P^H = B", res, C_SIM * n * nu * a + tiny, f"||P A P^H - B||_F, ||A||_F={a:.3e}")
    # ---- spectrum of the real symmetric tridiagonal B (LAPACK on the harness's adjoint of B)
    lamB = ref.eigvalsh(B)
    out.le(f"{s}:spectrum of B = spectrum of A", float(np.max(np.abs(lamB - lam))), C_EIG * (n + 3) ** 2 * U_ * a + tiny,
           "max_i |lam_i(B) - lam_i(A)|")
    out.sample = dict(out.sample or {}, n=n, normA=a, P_unitarity_defect=ref.unitarity_defect(P),
                      similarity_residual_rel=(res / a) if a else 0.0)


def check_eigen(A, out, lam):
    n = A.shape[0]
    s = "quaternion_eigendecomposition"
    Aq = Q(A)
    h0 = ahash(Aq)
    E = L.eigen
    vb = case_flag(A, 4)          # the verbose path must return the same decomposition
    if vb:
        s = "quaternion_eigendecomposition(verbose=True)"
        out.label("verbose=True")
        ok, r = out.call(s, _quiet, E.quaternion_eigendecomposition, Aq, verbose=True)
    else:
        ok, r = out.call(s, _quiet, E.quaternion_eigendecomposition, Aq)
    if not ok:
        return
    if not out.true(f"{s}:returns (eigenvalues, eigenvectors)", isinstance(r, tuple) and len(r) == 2,
                    f"returned {type(r).__name__}"):
        return
    w, Vq = r
    w = np.asarray(w)
    shp = (w.shape, getattr(Vq, "shape", None))
    if not out.true(f"{s}:shapes", shp == ((n,), (n, n)), f"eigenvalues, eigenvectors shapes {shp} for n={n}"):
        return
    if not out.true(f"{s}:dtypes", w.dtype.kind in "fc" and getattr(Vq, "dtype", None) == np.quaternion,
                    f"eigenvalues dtype {w.dtype}, eigenvectors dtype {getattr(Vq, 'dtype', None)}"):
        return
    out.true(f"{s}:argument unchanged", ahash(Aq) == h0, "input array modified")
    out.label("eigenvalues_dtype=" + str(w.dtype))
    wr = np.array(np.real(w), dtype=float)
    wi = np.array(np.imag(w), dtype=float)
    V = F(Vq)
    if not out.true(f"{s}:finite", bool(np.all(np.isfinite(wr)) and np.all(np.isfinite(wi)) and np.all(np.isfinite(V))),
                    "NaN/Inf in eigenvalues or eigenvectors"):
        return
    a = ref.fro(A)
    tiny = 1e-300 if a == 0.0 else 0.0
    nu = n * U_
    beig = C_EIG * (n + 3) ** 2 * U_ * a + tiny
    out.le(f"{s}:eigenvalues real", float(np.max(np.abs(wi))), beig, "max |Im lambda|")
    if not np.any(wi != 0.0):
        out.label("eigenvalues_imag_exactly_zero")
    out.le(f"{s}:eigenvalues = spectrum of A", float(np.max(np.abs(np.sort(wr) - lam))), beig,
           "max_i |sort(Re lambda)_i - lam_i(A)| (LAPACK on the harness's complex adjoint)")
    defect = ref.unitarity_defect(V)
    out.le(f"{s}:V^H V = I", defect, C_UNIT * nu, "||V^H V - I||_F")
    VL = ref.scale_cols(V, wr)
    bres = C_SIM * (n + 3) ** 2 * U_ * a + tiny
    r1 = ref.fro(ref.qmm(A, V) - VL)
    out.le(f"{s}:A V = V diag(lambda)", r1, bres, f"||A V - V Lambda||_F, ||A||_F={a:.3e}")
    r2 = ref.fro(A - ref.qmm(VL, ref.conjT(V)))
    out.le(f"{s}:A = V diag(lambda) V^H", r2, bres, f"||A - V Lambda V^H||_F, ||A||_F={a:.3e}")
    # ---- the two accessors return the same pair
    ok, w2 = out.call("quaternion_eigenvalues", _quiet, E.quaternion_eigenvalues, Aq)
    if ok:
        w2 = np.asarray(w2)
        if out.true("quaternion_eigenvalues:shape", w2.shape == (n,) and w2.dtype.kind in "fc",
                    f"shape {w2.shape} dtype {w2.dtype}"):
            out.equal_bits("quaternion_eigenvalues:equals the pair's eigenvalues",
                           np.stack([np.real(w2), np.imag(w2)]).astype(float), np.stack([wr, wi]))
    ok, V2 = out.call("quaternion_eigenvectors", _quiet, E.quaternion_eigenvectors, Aq)
    if ok:
        if out.true("quaternion_eigenvectors:shape", getattr(V2, "shape", None) == (n, n)
                    and getattr(V2, "dtype", None) == np.quaternion, "wrong shape/dtype"):
            out.equal_bits("quaternion_eigenvectors:equals the pair's eigenvectors", F(V2), V)
    out.true("accessors:argument unchanged", ahash(Aq) == h0, "input array modified")
    # ---- same buffer, new contents: the spectrum must be that of the argument's current VALUE
    A2 = 0.5 * A + (1.0 + a) * ref.qeye(n)            # Hermitian, spectrum 0.5*lam + (1+a)
    Aq[...] = Q(A2)
    ok, w3 = out.call("quaternion_eigenvalues(reused buffer)", _quiet, E.quaternion_eigenvalues, Aq)
    if ok:
        w3 = np.asarray(w3)
        if out.true("quaternion_eigenvalues(reused buffer):shape", w3.shape == (n,), f"{w3.shape}"):
            want = np.sort(0.5 * np.asarray(lam, dtype=float) + (1.0 + a))
            out.le("quaternion_eigenvalues(reused buffer):spectrum of the NEW contents",
                   float(np.max(np.abs(np.sort(np.real(w3)) - want))), 1000.0 * (n + 3) ** 2 * ref.U * (1.0 + 2.0 * a))
    out.sample = dict(out.sample or {}, n=n, normA=a, V_unitarity_defect=defect,
                      eigenpair_residual_rel=(r1 / a) if a else 0.0,
                      reconstruction_residual_rel=(r2 / a) if a else 0.0)


def run_case(A, what):
    A = np.ascontiguousarray(np.asarray(A, dtype=float))
    info = classify(A)
    out = Out(tags=info["tags"])
    out.label(*info["labels"])
    n = A.shape[0]
    if "tri" in what and n >= 2:
        check_tridiag(A, out, info["lam"])
    if "eig" in what:
        check_eigen(A, out, info["lam"])
    out.nontrivial = info["nontrivial"]
    if out.sample is not None:
        out.sample["relative_spectral_gap"] = float(info["relgap"]) if np.isfinite(info["relgap"]) else None
    return out


# ----------------------------------------------------------------------------
# generators

SPEC_KINDS = ("simple", "simple", "repeated", "repeated", "allequal", "zeros", "mixed_pm", "clustered", "clustered",
              "projector", "rank1")


@st.composite
def spectra(draw, n):
    """(lam, kind): prescribed real spectrum of length n, any signs, unsorted."""
    kind = draw(st.sampled_from(SPEC_KINDS))
    if kind == "simple":
        ks = draw(st.lists(st.integers(-64, 64), min_size=n, max_size=n, unique=True))
        lam = np.array(ks, dtype=float) / 8.0
    elif kind == "repeated":
        base = draw(st.lists(st.integers(-32, 32), min_size=1, max_size=max(1, n - 1), unique=True))
        idx = draw(st.lists(st.integers(0, len(base) - 1), min_size=n, max_size=n))
        lam = np.array([base[i] for i in idx], dtype=float) / 4.0
        if n >= 2 and len(set(lam.tolist())) == n:
            lam[1] = lam[0]
    elif kind == "allequal":
        lam = np.full(n, draw(st.integers(-32, 32)) / 4.0)
    elif kind == "zeros":
        nzr = draw(st.integers(1, n))
        ks = draw(st.lists(st.integers(-64, 64), min_size=n - nzr, max_size=n - nzr))
        lam = np.array(ks + [0] * nzr, dtype=float) / 8.0
    elif kind == "mixed_pm":
        v = draw(st.lists(st.integers(1, 32), min_size=(n + 1) // 2, max_size=(n + 1) // 2))
        lam = np.array(([float(x) for x in v] + [-float(x) for x in v])[:n]) / 4.0
    elif kind == "clustered":
        ks = draw(st.lists(st.integers(-32, 32), min_size=n, max_size=n))
        eps = draw(st.sampled_from([1e-3, 1e-5, 1e-7]))
        lam = np.array(ks, dtype=float) / 4.0 + eps * np.arange(n)
    elif kind == "projector":
        r = draw(st.integers(0, n))
        lam = np.array([1.0] * r + [0.0] * (n - r))
    else:  # rank1
        lam = np.zeros(n)
        lam[0] = draw(st.integers(-32, 32).filter(lambda k: k != 0)) / 4.0
    perm = draw(st.permutations(list(range(n))))
    return np.ascontiguousarray(lam[list(perm)]), kind


def _dense_hermitian(n, pattern):
    return gen.qarray(n, n, pattern).map(lambda t: herm_from_upper(t[0]))


@st.composite
def block_hermitian(draw, n):
    """Small Hermitian block used inside direct sums."""
    mode = draw(st.sampled_from(["int", "generic", "spectrum", "zero_lead"]))
    if mode == "spectrum" and n >= 1:
        lam, _ = draw(spectra(n))
        return draw(gen.hermitian_with_spectrum(n, lam))
    B = draw(_dense_hermitian(n, "int" if mode != "generic" else "generic"))
    if mode == "zero_lead" and n >= 3:
        B[1, 0] = 0.0
        B[0, 1] = 0.0
    return B


def _direct_sum(blocks):
    n = sum(b.shape[0] for b in blocks)
    A = np.zeros((n, n, 4))
    o = 0
    for b in blocks:
        k = b.shape[0]
        A[o:o + k, o:o + k] = b
        o += k
    return A


STRUCT_MODES = ("zero_subcol0", "zero_lead0", "lead_diag_zero_lead", "zero_subcol_k", "zero_lead_k", "mask",
                "blockdiag", "dup_blocks", "arrow", "pentadiagonal", "tridiagonal", "tridiagonal_real", "diagonal",
                "gram", "reflector", "dilation", "dilation", "nearly_diagonal", "hollow")

KINDS = ("spectrum",) * 6 + ("generic", "generic", "integer", "integer", "pure_imag_offdiag", "axis") + STRUCT_MODES


@st.composite
def hermitian_cases(draw, tier, nmin=1, size=None):
    nmax = 6 if tier == "quick" else 8
    sizes = [s for s in (1, 2, 3, 3, 4, 4, 4, 5, 5, 6, 6, 7, 8) if nmin <= s <= nmax]
    if size:
        sizes = list(range(size[0], size[1] + 1))
    n = draw(st.sampled_from(sizes))
    kind = draw(st.sampled_from(KINDS))
    sub = ""
    if kind == "spectrum":
        lam, sub = draw(spectra(n))
        umode = draw(st.sampled_from(["reflectors", "reflectors", "reflectors", "exact", "block"]))
        if umode == "block" and n >= 3:
            # U = I_p (+) U': a zero sub-column together with a prescribed (possibly repeated) spectrum
            p = draw(st.integers(1, n - 2))
            Us = draw(gen.unitary(n - p, exact=False))
            Um = _direct_sum([ref.qeye(p), Us])
            A = ref.qmm(ref.scale_cols(Um, lam), ref.conjT(Um))
            A = gen.make_hermitian(A)
        else:
            A = draw(gen.hermitian_with_spectrum(n, lam, exact_factors=(umode == "exact")))
        sub = sub + "/" + umode
    elif kind == "generic":
        A = draw(_dense_hermitian(n, "generic"))
    elif kind == "integer":
        A = draw(_dense_hermitian(n, "int"))
    elif kind == "pure_imag_offdiag":
        A = draw(_dense_hermitian(n, "pure_imag"))
        d = draw(st.lists(st.integers(-8, 8), min_size=n, max_size=n))
        for i in range(n):
            A[i, i, 0] = float(d[i])
    elif kind == "axis":
        A = draw(_dense_hermitian(n, "axis"))
    else:
        X = draw(_dense_hermitian(n, draw(st.sampled_from(["int", "generic"]))))
        A = X.copy()
        if kind == "zero_subcol0":
            A[1:, 0] = 0.0
            A[0, 1:] = 0.0
        elif kind == "zero_lead0":
            if n >= 2:
                A[1, 0] = 0.0
                A[0, 1] = 0.0
        elif kind == "lead_diag_zero_lead":
            # k leading steps are identities (alpha == 0), then a block whose sub-column starts with an exact zero
            k = draw(st.integers(1, max(1, n - 3)))
            for i in range(min(k, n)):
                A[i, i + 1:] = 0.0
                A[i + 1:, i] = 0.0
            if k + 1 < n:
                A[k + 1, k] = 0.0
                A[k, k + 1] = 0.0
        elif kind == "zero_subcol_k":
            for k in draw(st.lists(st.integers(0, max(0, n - 2)), min_size=1, max_size=2)):
                A[k + 1:, k] = 0.0
                A[k, k + 1:] = 0.0
        elif kind == "zero_lead_k":
            for k in draw(st.lists(st.integers(0, max(0, n - 2)), min_size=1, max_size=3)):
                if k + 1 < n:
                    A[k + 1, k] = 0.0
                    A[k, k + 1] = 0.0
        elif kind == "mask":
            M = draw(hnp.arrays(np.bool_, (n, n), elements=st.booleans(), fill=st.nothing()))
            M = np.triu(M, 1)
            M = M | M.T | np.eye(n, dtype=bool)
            A = A * M[..., None]
        elif kind == "blockdiag":
            sizes_ = []
            left = n
            while left > 0:
                k = draw(st.integers(1, left))
                sizes_.append(k)
                left -= k
            A = _direct_sum([draw(block_hermitian(k)) for k in sizes_])
        elif kind == "dup_blocks":
            p = max(1, n // 2)
            Bk = draw(block_hermitian(p))
            blocks = [Bk, Bk] if n >= 2 else [Bk]
            rest = n - p * len(blocks)
            if rest > 0:
                blocks = blocks + [draw(block_hermitian(rest))]
            order = draw(st.permutations(list(range(len(blocks)))))
            A = _direct_sum([blocks[i] for i in order])
        elif kind == "arrow":
            keep = np.eye(n, dtype=bool)
            keep[0, :] = True
            keep[:, 0] = True
            A = A * keep[..., None]
        elif kind == "pentadiagonal":
            band = np.abs(np.subtract.outer(np.arange(n), np.arange(n))) <= 2
            A = A * band[..., None]
        elif kind in ("tridiagonal", "tridiagonal_real"):
            band = np.abs(np.subtract.outer(np.arange(n), np.arange(n))) <= 1
            A = A * band[..., None]
            if kind == "tridiagonal_real":
                A[..., 1:] = 0.0
            for k in draw(st.lists(st.integers(0, max(0, n - 2)), min_size=0, max_size=2)):
                if k + 1 < n and draw(st.booleans()):
                    A[k + 1, k] = 0.0
                    A[k, k + 1] = 0.0
        elif kind == "diagonal":
            A = A * np.eye(n, dtype=bool)[..., None]
            if n >= 2 and draw(st.booleans()):
                i = draw(st.integers(0, n - 1))
                j = draw(st.integers(0, n - 1))
                A[i, i] = A[j, j]
        elif kind == "gram":
            r = draw(st.integers(1, max(1, n - 1)))
            Y, _ = draw(gen.qarray(n, r, "int"))
            A = herm_from_upper(ref.qmm(Y, ref.conjT(Y)))      # integer arithmetic: exact, exactly rank <= r
            if draw(st.booleans()):
                A = A + draw(st.integers(-4, 4)) * ref.qeye(n)   # shifted: a repeated NON-zero eigenvalue
        elif kind == "dilation":
            # Hermitian dilation [[0, X], [X^H, 0]]: spectrum +-sigma(X) (and zeros), identically zero diagonal blocks
            p = draw(st.integers(1, max(1, n - 1))) if n >= 2 else 1
            A = X.copy()
            A[:p, :p] = 0.0
            A[p:, p:] = 0.0
        elif kind == "hollow":
            for i in range(n):
                A[i, i] = 0.0
        elif kind == "nearly_diagonal":
            # tiny but non-zero coupling: off-diagonal entries scaled by 1e-6 .. 1e-15 relative to the diagonal
            f = draw(st.sampled_from([1e-6, 1e-9, 1e-11, 1e-13, 1e-15]))
            off = ~np.eye(n, dtype=bool)
            A[off] = A[off] * f
            d = draw(st.lists(st.integers(-max(8, n), max(8, n)), min_size=n, max_size=n, unique=True))
            for i in range(n):
                A[i, i] = [float(d[i]) + 0.5, 0, 0, 0]
        elif kind == "reflector":
            uvec = draw(hnp.arrays(np.float64, (n, 4), elements=gen.small_ints(), fill=st.nothing()))
            A = gen.make_hermitian(gen.householder(uvec))       # eigenvalues -1 (once) and +1 (n-1 times)
        A = A + 0.0
    se = draw(st.sampled_from([0, 0, 0, 0, 0, 0, -8, -6, -4, -2, 2, 4, 6, 8]))
    if se:
        A = A * 10.0 ** se          # the same factor on a_ij and conj(a_ij): still Hermitian bit-for-bit
    return {"A": np.ascontiguousarray(A, dtype=float), "kind": kind, "sub": sub, "scale_exp": se}


@st.composite
def long_hermitian_cases(draw, tier):
    """Hermitian matrices of order just past the blocking sizes 32 / 64: dense, banded or block diagonal."""
    n = draw(st.sampled_from([33, 40, 64, 65] if tier == "quick" else [33, 40, 64, 65, 100, 129]))
    X, pat = draw(gen.long_qarray(n, n, draw(st.sampled_from(["generic", "int", "sparse"]))))
    A = herm_from_upper(X)
    kind = draw(st.sampled_from(["dense", "dense", "banded", "block"]))
    if kind == "banded":
        bw = draw(st.sampled_from([1, 2, 5, 31]))
        idx = np.arange(n)
        A = A * (np.abs(idx[:, None] - idx[None, :]) <= bw)[..., None]
    elif kind == "block":
        c = draw(st.sampled_from([1, 16, 32, n - 1]))
        A[c:, :c] = 0.0
        A[:c, c:] = 0.0
    e = draw(st.sampled_from([0, 0, -6, 6]))
    return {"A": np.ascontiguousarray(A * 10.0 ** e), "kind": "long:" + kind, "scale_exp": e}


def check_long_generated(case):
    _assert_hermitian_input(case["A"])
    out = run_case(case["A"], ("tri", "eig"))
    _labels_of_case(out, case)
    return out


def _labels_of_case(out, case):
    out.label("kind=" + str(case.get("kind")))
    if case.get("sub"):
        out.label("spectrum=" + str(case["sub"]).split("/")[0], "U=" + str(case["sub"]).split("/")[-1])
    if case.get("scale_exp"):
        out.label("scaled", "scaled_1e%+d" % case["scale_exp"])


def _assert_hermitian_input(A):
    # generator invariant (a harness error if broken, never a violation): bit-for-bit Hermitian
    if not np.array_equal(A, ref.conjT(A)):
        raise AssertionError("C08 generator produced a non-Hermitian matrix")


def check_tri_generated(case):
    _assert_hermitian_input(case["A"])
    out = run_case(case["A"], ("tri",))
    _labels_of_case(out, case)
    return out


def check_eig_generated(case):
    _assert_hermitian_input(case["A"])
    out = run_case(case["A"], ("eig",))
    _labels_of_case(out, case)
    return out


# ----------------------------------------------------------------------------
# enumerated witnesses: a fixed grid spectrum pattern x unitary factor x order x scale (hash-valued, no RNG)


def _hval(*key):
    h = hashlib.sha256(repr(key).encode()).digest()
    v = int.from_bytes(h[:4], "big") % 16 - 8
    if v >= 0:
        v += 1
    return float(v)


def _wit_spectrum(name, n):
    if name == "distinct":
        return np.array([float(2 * i - n) + 0.5 for i in range(n)])
    if name == "allequal":
        return np.full(n, 2.0)
    if name == "allzero":
        return np.zeros(n)
    if name == "pair":                         # exactly one double eigenvalue
        lam = np.array([float(i + 1) for i in range(n)])
        if n >= 2:
            lam[-1] = lam[0]
        return lam
    if name == "projector":
        return np.array([1.0] * ((n + 1) // 2) + [0.0] * (n // 2))
    if name == "rank1":
        lam = np.zeros(n)
        lam[n // 2] = -3.0
        return lam
    if name == "pm":
        return np.array([(-1.0) ** i * float(1 + i // 2) for i in range(n)])
    if name == "two_clusters":
        return np.array([1.0 if i % 2 else -2.0 for i in range(n)])
    raise ValueError(name)


WIT_SPECTRA = ("distinct", "allequal", "allzero", "pair", "projector", "rank1", "pm", "two_clusters")
WIT_U = ("identity", "signed_perm", "reflector1", "reflector2", "block_reflector")
WIT_SCALES = (0, -8, 8)


def enum_witnesses(tier):
    cases = []
    nmax = 6 if tier == "quick" else 8
    for n in range(1, nmax + 1):
        for sp in WIT_SPECTRA:
            for um in WIT_U:
                for se in WIT_SCALES:
                    if se and um in ("identity", "signed_perm") and sp not in ("pair", "distinct"):
                        continue
                    cases.append({"n": n, "spectrum": sp, "U": um, "scale_exp": se})
    return cases


def build_witness(case):
    n, sp, um, se = case["n"], case["spectrum"], case["U"], case["scale_exp"]
    lam = _wit_spectrum(sp, n)
    if um == "identity":
        Um = ref.qeye(n)
    elif um == "signed_perm":
        Um = np.zeros((n, n, 4))
        for i in range(n):
            Um[i, (i + 1) % n] = gen.BASIS_UNITS[(i * 3 + n) % 8]
    else:
        def refl(m, tag):
            v = np.array([[_hval(tag, n, sp, i, c) for c in range(4)] for i in range(m)]).reshape(m, 4)
            return gen.householder(v)
        if um == "reflector1":
            Um = refl(n, "a")
        elif um == "reflector2":
            Um = ref.qmm(refl(n, "a"), refl(n, "b"))
        else:  # block_reflector: I_1 (+) reflector, a zero first sub-column with a dense trailing block
            Um = _direct_sum([ref.qeye(1), refl(n - 1, "c")]) if n >= 2 else ref.qeye(1)
    A = ref.qmm(ref.scale_cols(Um, lam), ref.conjT(Um))
    A = gen.make_hermitian(A) + 0.0
    if se:
        A = A * 10.0 ** se
    return A


def check_witness(case):
    A = build_witness(case)
    _assert_hermitian_input(A)
    out = run_case(A, ("tri", "eig"))
    out.label("spectrum=" + case["spectrum"], "U=" + case["U"])
    if case["scale_exp"]:
        out.label("scaled")
    return out


# ----------------------------------------------------------------------------
# rejections

REJ_KINDS = ("nonsquare", "nonsquare", "diag_imag", "offdiag_one_entry", "skew_part", "complex_symmetric",
             "generic_square", "sign_flip")


@st.composite
def rejection_cases(draw, tier):
    kind = draw(st.sampled_from(REJ_KINDS))
    if kind == "nonsquare":
        m = draw(st.integers(1, 6))
        n = draw(st.integers(1, 6).filter(lambda k: k != m))
        A, _ = draw(gen.qarray(m, n, draw(st.sampled_from(["generic", "int", "zero", "sparse"]))))
        if draw(st.integers(0, 4)) == 0:
            # every entry the same real constant: A and A^H broadcast against each other to an all-equal array
            A = np.zeros((m, n, 4))
            A[..., 0] = float(draw(st.integers(-3, 3)))
        if draw(st.booleans()):
            # Hermitian leading square block: only the shape is wrong
            k = min(m, n)
            A = A.copy()
            A[:k, :k] = herm_from_upper(A[:k, :k])
        se = draw(st.sampled_from([0, 0, -8, 8]))
        return {"A": np.ascontiguousarray(A * 10.0 ** se), "kind": kind}
    n = draw(st.integers(1, 6))
    H = draw(_dense_hermitian(n, draw(st.sampled_from(["generic", "int", "generic"]))))
    if draw(st.integers(0, 4)) == 0:
        H = H * np.eye(n, dtype=bool)[..., None]
    amax = float(np.max(ref.modulus(H))) if H.size else 0.0
    rel = draw(st.sampled_from([2e-3, 5e-3, 1e-2, 1e-1, 1.0]))
    delta = rel * max(amax, 1.0)
    A = H.copy()
    comp = draw(st.integers(1, 3))
    if kind == "diag_imag" or n == 1:
        kind = "diag_imag"
        i = draw(st.integers(0, n - 1))
        A[i, i, comp] = delta * draw(st.sampled_from([1.0, -1.0]))
    elif kind == "offdiag_one_entry":
        i = draw(st.integers(0, n - 1))
        j = draw(st.integers(0, n - 1).filter(lambda k: k != i))
        A[i, j, draw(st.integers(0, 3))] += delta
    elif kind == "skew_part":
        G, _ = draw(gen.qarray(n, n, "generic"))
        S = G - ref.conjT(G)                       # anti-Hermitian part: A - A^H = 2 c S
        smax = float(np.max(ref.modulus(S)))
        if smax == 0.0:
            A[0, n - 1, comp] += delta
        else:
            A = A + S * (delta / smax)
    elif kind == "complex_symmetric":
        # A = A^T without conjugation (the classic slip): off-diagonal vector parts equal instead of opposite
        A = H.copy()
        iu = np.triu_indices(n, 1)
        A[(iu[1], iu[0])] = A[iu]
        if not np.any(A[iu][..., 1:] != 0.0):
            A[0, n - 1, comp] = delta
            A[n - 1, 0, comp] = delta
    elif kind == "generic_square":
        A, _ = draw(gen.qarray(n, n, draw(st.sampled_from(["generic", "int", "pure_imag"]))))
        A = A.copy()
        if np.array_equal(A, ref.conjT(A)):
            A[0, n - 1, comp] += 1.0
            if n == 1:
                A[0, 0, comp] = 1.0
    elif kind == "sign_flip":
        # Hermitian up to the sign of one off-diagonal entry
        i = draw(st.integers(0, n - 1))
        j = draw(st.integers(0, n - 1).filter(lambda k: k != i))
        if not np.any(A[i, j] != 0.0):
            A[i, j, 0] = max(amax, 1.0)
            A[j, i, 0] = max(amax, 1.0)
        A[i, j] = -A[i, j]
    se = draw(st.sampled_from([0, 0, 0, -4, -2, 2, 4, 8]))
    A = A * 10.0 ** se
    return {"A": np.ascontiguousarray(A, dtype=float), "kind": kind}


def hermitian_margin(A):
    """(asym, amax): largest |a_ij - conj(a_ji)| and largest modulus (INPUT only)."""
    D = A - ref.conjT(A)
    return float(np.max(ref.modulus(D))), float(np.max(ref.modulus(A)))


def check_rejection(case):
    A = np.ascontiguousarray(np.asarray(case["A"], dtype=float))
    m, n = A.shape[:2]
    out = Out()
    out.label("kind=" + str(case.get("kind")))
    if m != n:
        cls = "nonsquare"
        must = True
    else:
        asym, amax = hermitian_margin(A)
        must = asym >= REJ_REL * amax and asym >= REJ_ABS
        cls = "nonhermitian_by_margin" if must else "inside_margin"
        if must:
            rel = asym / amax
            out.label("asym_rel<1e-2" if rel < 1e-2 else ("asym_rel<1e-1" if rel < 1e-1 else "asym_rel>=1e-1"))
            out.label("asym_abs<1e-1" if asym < 1e-1 else "asym_abs>=1e-1")
    out.tags = (cls, f"n={n}" if n <= 1 else "n>=2")
    out.label(cls, f"shape={m}x{n}" if m != n else f"n={n}")
    if not must:
        return out                     # not in the documented rejection domain: no demand
    Aq = Q(A)
    h0 = ahash(Aq)
    fns = [("quaternion_eigendecomposition", L.eigen.quaternion_eigendecomposition),
           ("quaternion_eigenvalues", L.eigen.quaternion_eigenvalues),
           ("quaternion_eigenvectors", L.eigen.quaternion_eigenvectors),
           ("tridiagonalize", L.tridiag.tridiagonalize)]
    for name, fn in fns:
        try:
            _quiet(fn, Aq)
            raised = None
        except Exception as e:  # noqa: BLE001 - "rejected with an error": any exception is a rejection
            raised = e
        out.true(f"{name}:rejects {cls}", raised is not None,
                 f"accepted a {m}x{n} input" + ("" if m != n else f" with |a_ij - conj(a_ji)| up to {asym:.3e} "
                                                                   f"(max modulus {amax:.3e})"))
        if raised is not None:
            out.label(f"{name}:raised {type(raised).__name__}")
    out.true("rejections:argument unchanged", ahash(Aq) == h0, "input array modified")
    return out


# ----------------------------------------------------------------------------
# the reflector both reductions are built from (column branch, v = e1)


@st.composite
def reflector_cases(draw, tier):
    k = draw(st.integers(1, 6))
    pat = draw(st.sampled_from(["generic", "int", "pure_imag", "axis", "sparse", "zero", "unit"]))
    a, _ = draw(gen.qarray(k, 1, pat))
    a = a.reshape(k, 4).copy()
    mode = draw(st.sampled_from(["plain", "plain", "zero_lead", "only_lead", "real_lead"]))
    if mode == "zero_lead":
        a[0] = 0.0
    elif mode == "only_lead":
        a[1:] = 0.0
    elif mode == "real_lead":
        a[0, 1:] = 0.0
    se = draw(st.sampled_from([0, 0, 0, -8, 8]))
    return {"a": np.ascontiguousarray(a * 10.0 ** se), "mode": mode}


def check_reflector(case):
    a = np.ascontiguousarray(np.asarray(case["a"], dtype=float))
    k = a.shape[0]
    alpha = ref.fro(a)
    lead = float(np.sqrt(np.sum(a[0] * a[0])))
    branch = "alpha0" if alpha == 0.0 else ("r0" if lead == 0.0 else "generic")
    out = Out(tags=(branch,))
    out.label("branch=" + branch, f"k={k}")
    aq = Q(a)
    h0 = ahash(aq)
    e1 = np.zeros(k)
    e1[0] = 1.0
    s = "householder_matrix(a, e1)"
    ok, hq = out.call(s, _quiet, L.tridiag.householder_matrix, aq, e1)
    if not ok:
        return out
    if not out.true(f"{s}:shape", getattr(hq, "shape", None) == (k, k) and getattr(hq, "dtype", None) == np.quaternion,
                    "wrong shape/dtype"):
        return out
    out.true(f"{s}:argument unchanged", ahash(aq) == h0, "input vector modified")
    h = F(hq)
    if not out.true(f"{s}:finite", bool(np.all(np.isfinite(h))), "NaN/Inf in the reflector"):
        return out
    out.le(f"{s}:unitary", ref.unitarity_defect(h), C_UNIT * (k + 1) * U_, "||h^H h - I||_F")
    ha = ref.qmm(h, a.reshape(k, 1, 4)).reshape(k, 4)
    target = np.zeros((k, 4))
    target[0, 0] = alpha
    out.le(f"{s}:h a = |a| e1", ref.fro(ha - target), C_UNIT * (k + 1) * U_ * alpha + (1e-300 if alpha == 0 else 0.0),
           "||h a - |a| e1||_F")
    return out


PROPERTY = Property(
    id="C08",
    title="Hermitian eigendecomposition and tridiagonalisation are exact unitary reductions",
    rule=("reduction / eigen / witness clauses: n >= 3 and (the reference spectrum of A has a repeated eigenvalue "
          "[relative gap <= 1e-9], or some sub-column A[k+1:, k] is exactly zero or starts with an exact zero "
          "[alpha == 0 / r == 0 reflector branches]). Rejection and reflector clauses are never counted. "
          "Distinct = distinct input digest."),
    clauses=[
        Clause("tridiagonalize", check_tri_generated, strategy=lambda tier: hermitian_cases(tier, nmin=2),
               budget={"quick": 4000, "thorough": 60000}),
        Clause("eigendecomposition", check_eig_generated, strategy=lambda tier: hermitian_cases(tier, nmin=1),
               budget={"quick": 4000, "thorough": 60000}),
        Clause("moderate_size", check_long_generated, strategy=lambda tier: hermitian_cases(tier, size=(9, 20 if tier == "quick" else 40)),
               budget={"quick": 40, "thorough": 400}, shrink=False),
        Clause("long_dimension", check_long_generated, strategy=long_hermitian_cases, budget={"quick": 16, "thorough": 160},
               shrink=False),
        Clause("witness_grid", check_witness, enumerate=enum_witnesses, budget={"quick": 0, "thorough": 0}),
        Clause("rejections", check_rejection, strategy=rejection_cases, budget={"quick": 1200, "thorough": 12000}),
        Clause("reflector", check_reflector, strategy=reflector_cases, budget={"quick": 800, "thorough": 8000}),
    ],
    assumptions=[
        "numpy-quaternion dtype conversions (as_quat_array/as_float_array) are trusted",
        "all products/norms use the harness's Hamilton table (qv/ref.py); reference spectra come from LAPACK "
        "(eigvalsh) on the harness's complex adjoint chi_c",
        "inputs are Hermitian bit-for-bit (upper triangle copied/conjugated, real diagonal); entries k/16, small "
        "integers or U diag(lam) U^H with generated unitary U, scaled by 10^e, e in [-8, 8]",
        "rejection is demanded only for non-square input or when some |a_ij - conj(a_ji)| >= 1e-3 * max|a| and "
        ">= 1e-8 (a factor >= 50 beyond the code's documented allclose(atol=1e-10, rtol=1e-5) acceptance test); "
        "any exception counts as a rejection",
        "eigenvalues may be returned as a complex or a real array; imaginary parts must vanish to rounding",
        "library print() output (guard / clean-up warnings) is discarded",
    ],
    exhaustive_note=("witness_grid enumerates a fixed grid: n = 1..6 (thorough: 1..8) x 8 spectrum patterns "
                     "(distinct, all equal, all zero, one double eigenvalue, projector, rank one, +-pairs, two "
                     "clusters) x 5 unitary factors (identity, signed permutation, one / two reflectors, "
                     "I_1 (+) reflector) x scales 1, 1e-8, 1e8; it is a witness list, not an exhaustive domain"),
)
