"""C19 - power iteration returns a unit vector and converges to the dominant eigenpair.

Entry points (quatica/utils.py): power_iteration, power_iteration_nonhermitian.

Oracles (all independent of the library):
  * spectra / spectral norm: LAPACK on the harness's own complex adjoint (ref.eigvalsh, ref.svals);
  * products / residuals / Rayleigh quotients: the harness's Hamilton product (ref.qmm);
  * the complex-adjoint variant is compared against M = ref.chi_c(A) (written from the definition
    q = (w + x i) + (y + z i) j, the same convention the library documents for axis "x").

The start vector of power_iteration comes from the *global* numpy RNG (data_gen.create_test_matrix),
so every case carries a generated integer seed and the check calls np.random.seed(seed) right before
each library call; the complex variant additionally gets a generated `seed=` argument.
"""
import math

import numpy as np
from hypothesis import strategies as st

from .. import gen, ref
from ..core import Clause, Out, Property
from ..env import L
from ..lib import ahash, F, Q, case_flag, quiet

U_ = ref.U

# ---------------------------------------------------------------------------------------------
# tolerances (derivations)
#
# UNIT: ||v||_F is produced by one division by a computed Frobenius norm: |‖v‖-1| <= (4n+3)u ~ 1e-14
#       for n <= 8.  The design fixes the stated tolerances 1e-12 (power_iteration) and 1e-10
#       (complex-adjoint variant); a vector that is not normalised misses them by >= 1e-3.
# RQ  : the library forms (v^H A) v, the harness v^H (A v); each is a double sum of <= 4n*4n products,
#       so both carry an absolute error <= gamma_{8n} ||A||_F ||v||^2; the quotient by v^H v = 1 +- 8nu
#       adds a relative 8nu.  |est - |v^H A v|/(v^H v)| <= C_RQ * n * u * ||A||_F with C_RQ = 1024
#       (observed worst ratio ~4e-3).
# SIG : |v^H A v| <= sigma_1 ||v||^2 exactly; with the rounding above and the LAPACK error of sigma_1
#       (a few u sigma_1):  est - sigma_1 <= C_RQ * n * u * ||A||_F.
# EST : Hermitian with gap rho = |lam_2/lam_1| <= 0.8.  Write the iterate v = cos(t) e_1 + sin(t) w.
#       est = |lam_1 cos^2 t + (w^H A w) sin^2 t|, so | est - |lam_1| | <= 2 |lam_1| t^2.
#       Exit by the difference test (lam_1 > 0): ||v_{k+1}-v_k|| ~ t (1 -+ rho) < tol  => t <= 5 tol.
#       Exit by the stagnation test (lam_1 < 0, the iterate flips sign, ||v_{k+1}-v_k|| ~ 2 - t^2(1-+rho)^2/4):
#       |d_k - d_{k-1}| = t^2 (1-+rho)^2 (1-rho^2)/4 < 1e-3 tol  =>  residual/|lam_1| = t(1-+rho)
#       <= sqrt(4e-3 tol / (1-rho^2)) = 1.05e-6 for tol = 1e-10, rho = 0.8, and t^2 <= 2.8e-11.
#       Exit by max_iterations: the schedule guarantees rho^K <= 1e-13 (see _schedule), so
#       t <= 1e-13 tan(t_0); tan(t_0) > 1e3 has probability < 1e-10 for a Gaussian quaternion start.
#       Hence |est-|lam_1|| <= 1e-10 |lam_1| and residual <= 1.1e-6 |lam_1| for tol <= 1e-10; the stated
#       bounds 1e-6 |lam_1| and 1e-4 |lam_1| leave >= 100x headroom.
#       For lam_1 > 0 the exit is the documented difference test: on e_1^perp the map B = A/lam_1 has
#       ||B|| <= rho, so ||v_{k+1}-v_k|| >= (1-rho) t_k and t_{k+1} <= rho t_k <= rho tol/(1-rho); the
#       returned v_{k+1} has residual <= (1+rho) t_{k+1} |lam_1| <= rho(1+rho)/(1-rho) tol |lam_1|
#       = 7.2e-10 |lam_1| (tol = 1e-10, rho = 0.8); bound used: 1e-7 |lam_1| (139x headroom).  A
#       premature stagnation exit for lam_1 > 0 needs two consecutive differences > tol that agree to
#       1e-3 tol, i.e. a contraction factor > 0.999, impossible with rho <= 0.8 outside a set of starts of
#       probability ~1e-12.
# RES : residual lists: both sides evaluate ||M z - lam z|| (or ||A v - v lam||_F) in double precision
#       on vectors that agree to a few u: |difference| <= C_RES * n * u * (||A||_F + |lam|), C_RES = 1024.
C_RQ = 1024.0
C_RES = 1024.0
TOL_UNIT_PI = 1e-12
TOL_UNIT_NH = 1e-10
REL_EST = 1e-6
REL_RESID = 1e-4        # lambda_1 < 0 (stagnation exit)
REL_RESID_POS = 1e-7    # lambda_1 > 0 (difference-test exit)
GAP_MAX = 0.8


# ---------------------------------------------------------------------------------------------
# helpers (harness side only)


def _rayleigh_mod(A, v):
    """|v^H A v| / (v^H v) with the harness's own Hamilton product; v is (n,1,4)."""
    num = ref.qmm(ref.conjT(v), ref.qmm(A, v))
    den = float(np.sum(v * v))
    if not den > 0.0:
        return float("nan")          # zero vector: the unit-norm clause reports it; NaN makes dependent clauses fail too
    return float(np.sqrt(np.sum(num * num))) / den


def _sigma1(A):
    s = ref.svals(A)
    return float(s[0]) if len(s) else 0.0


def _is_hermitian_exact(A):
    return bool(np.array_equal(A, ref.conjT(A)))


def _spectrum_info(A):
    """(lam_1 signed, rho, mixed, ev) from LAPACK on chi_c(A); A Hermitian."""
    ev = ref.eigvalsh(A)
    order = np.argsort(-np.abs(ev), kind="stable")
    lam1 = float(ev[order[0]])
    if len(ev) >= 2 and lam1 != 0.0:
        rho = float(abs(ev[order[1]]) / abs(lam1))
    else:
        rho = 0.0
    scale = abs(lam1) if lam1 != 0.0 else 1.0
    signs = {int(np.sign(x)) for x in ev if abs(x) > 1e-9 * scale}
    mixed = (1 in signs) and (-1 in signs)
    return lam1, rho, mixed, ev


def _herm_tags(n, lam1, rho, mixed):
    tags = ["lam1_neg" if lam1 < 0 else ("lam1_pos" if lam1 > 0 else "lam1_zero")]
    if mixed:
        tags.append("mixed_signs")
    tags.append("gap>=0.5" if rho >= 0.5 else "gap<0.5")
    if n == 1:
        tags.append("n=1")
    return tuple(tags)


def _schedule(rho, mult):
    """Iterations that make rho^K <= 1e-13 (times a generated multiplier >= 1)."""
    r = min(max(rho, 0.05), 0.999)
    k0 = int(math.ceil(math.log(1e-13) / math.log(r))) + 10
    return k0 * mult


def _as_vec(out, site, v, n, shape):
    """Library vector -> (n,1,4) float array, or None (and a recorded failure)."""
    ok = isinstance(v, np.ndarray) and v.dtype == np.quaternion and v.shape == shape
    if not out.true(f"{site}:vector type/shape", ok,
                    f"expected quaternion array of shape {shape}, got {type(v).__name__} "
                    f"{getattr(v, 'dtype', None)} {getattr(v, 'shape', None)}"):
        return None
    return F(v).reshape(n, 1, 4)


def _real_scalar(out, site, x):
    ok = isinstance(x, (float, np.floating, int, np.integer)) and not isinstance(x, bool)
    if not out.true(f"{site}:estimate is a real scalar", ok, f"got {type(x).__name__}: {x!r}"[:200]):
        return None
    return float(x)


def _unit(out, site, v, tol):
    nv = ref.fro(v)
    return out.le(f"{site}:unit norm", abs(nv - 1.0) if np.isfinite(nv) else float("nan"), tol,
                  f"||v||_F = {nv!r}")


def _pi_kwargs(case):
    kw = {}
    if case.get("max_iterations") is not None:
        kw["max_iterations"] = int(case["max_iterations"])
    if case.get("tol") is not None:
        kw["tol"] = float(case["tol"])
    return kw


def _common_pi_checks(out, site, A, v, est):
    """Clauses that hold for EVERY square input: unit vector, est = |RQ(v)|, est <= sigma_1."""
    n = A.shape[0]
    anorm = ref.fro(A)
    _unit(out, site, v, TOL_UNIT_PI)
    if not np.all(np.isfinite(v)):
        return
    slack = C_RQ * n * U_ * anorm + 1e-300
    rq = _rayleigh_mod(A, v)
    out.le(f"{site}:estimate is |Rayleigh quotient| of the returned vector", abs(est - rq), slack,
           f"estimate {est!r} vs |v^H A v|/(v^H v) = {rq!r}")
    s1 = _sigma1(A)
    out.le(f"{site}:estimate <= spectral norm", max(0.0, est - s1) if np.isfinite(est) else float("nan"), slack,
           f"estimate {est!r} > sigma_1 = {s1!r}")
    out.true(f"{site}:estimate >= 0", est >= 0.0, f"estimate {est!r}")


# ---------------------------------------------------------------------------------------------
# generators


@st.composite
def gap_spectrum(draw, n):
    """(lam, info): lam[0] = lam_1 with |lam_1| in 10^[-3,3]; the rest k_i/40 * lam_1, |k_i| <= 32."""
    sign = draw(st.sampled_from([1.0, -1.0]))
    if draw(st.integers(0, 9)) == 0:
        mag = draw(st.sampled_from([1e-3, 1.0, 1e3]))
    else:
        # the iteration is scale free; a 1-in-5 share of far scales exposes absolute thresholds in the code
        mag = draw(st.integers(16, 159)) / 16.0 * 10.0 ** draw(
            st.sampled_from([-3, -2, -1, 0, 0, 1, 2, -3, -2, -1, 0, 0, 1, 2, -12, -9, 8, 12, -100, 100]))
    lam1 = sign * mag
    if n == 1:
        return np.array([lam1]), {"gap": "n1", "rest": "none"}
    gap = draw(st.sampled_from(["tiny", "mid", "wide", "wide", "edge", "edge"]))
    lo, hi = {"tiny": (0, 4), "mid": (5, 19), "wide": (20, 31), "edge": (32, 32)}[gap]
    ktop = draw(st.integers(lo, hi))
    rest_kind = draw(st.sampled_from(["same", "opposite", "mixed", "mixed"]))
    ks = [ktop] + [draw(st.integers(0, ktop)) for _ in range(n - 2)]
    if draw(st.booleans()) and n >= 3:
        ks[1] = ktop                      # repeated second eigenvalue (modulus)
    rs = []
    for k in ks:
        if rest_kind == "same":
            sg = 1.0
        elif rest_kind == "opposite":
            sg = -1.0
        else:
            sg = draw(st.sampled_from([1.0, -1.0]))
        rs.append(sg * k / 40.0)
    lam = np.array([lam1] + [lam1 * r for r in rs], dtype=float)
    return lam, {"gap": gap, "rest": rest_kind}


@st.composite
def hermitian_gap_matrix(draw, nmax, nmin=1):
    n = draw(st.integers(nmin, nmax))
    lam, info = draw(gap_spectrum(n))
    if n >= 2 and draw(st.integers(0, 4)) == 0:
        # a "canonical" vector (all ones, e_1, e_n, alternating signs) is an EXACT-to-rounding eigenvector of a
        # NON-dominant eigenvalue: the property quantifies over every random start, so nothing may depend on the
        # iteration happening to start at (or collapse onto) such a vector
        kind = draw(st.sampled_from(["ones", "e1", "en", "alternating"]))
        v0 = {"ones": np.ones(n), "e1": np.eye(n)[0], "en": np.eye(n)[-1],
              "alternating": np.array([(-1.0) ** i for i in range(n)])}[kind]
        v0 = v0 / np.sqrt(np.sum(v0 * v0))
        w = np.eye(n)[0] - v0
        Hh = np.eye(n) if not w.any() else np.eye(n) - 2.0 * np.outer(w, w) / float(w @ w)     # real reflector, first column v0
        Uq = np.zeros((n, n, 4))
        Uq[..., 0] = Hh
        j = draw(st.integers(1, n - 1))
        lam2 = np.array(lam, dtype=float).copy()
        lam2[[0, j]] = lam2[[j, 0]]                                                             # column 0 gets a non-dominant value
        A = gen.make_hermitian(ref.qmm(ref.scale_cols(Uq, lam2), ref.conjT(Uq)))
        info = dict(info, special_eigenvector=kind)
        return A, lam, info
    A = draw(gen.hermitian_with_spectrum(n, lam))
    return A, lam, info


@st.composite
def hermitian_cases(draw, tier, size=None):
    A, lam, info = draw(hermitian_gap_matrix(size[1], size[0]) if size else hermitian_gap_matrix(7))
    mult = draw(st.sampled_from([1, 1, 2, 5]))
    tol = draw(st.sampled_from([None, None, 1e-10, 1e-11, 1e-12]))
    return {"A": A, "lam": lam, "gen": info, "seed": draw(gen.seeds()), "mult": mult, "tol": tol}


@st.composite
def long_hermitian_cases(draw, tier):
    """Orders just past the blocking sizes 32 / 64: one quaternion reflector around a prescribed gap spectrum."""
    n = draw(st.sampled_from([33, 64, 65] if tier == "quick" else [33, 64, 65, 100, 129]))
    lam, info = draw(gap_spectrum(n))
    rng = np.random.RandomState(draw(gen.seeds()))
    Uq = gen.householder(rng.standard_normal((n, 4)))
    A = gen.make_hermitian(ref.qmm(ref.scale_cols(Uq, np.asarray(lam, dtype=float)), ref.conjT(Uq)))
    return {"A": A, "lam": lam, "gen": dict(info, long=True), "seed": draw(gen.seeds()),
            "mult": draw(st.sampled_from([1, 2])), "tol": draw(st.sampled_from([None, 1e-10, 1e-12]))}


@st.composite
def long_arbitrary_cases(draw, tier):
    n = draw(st.sampled_from([33, 64, 65] if tier == "quick" else [33, 64, 65, 100, 129]))
    A, pat = draw(gen.long_qarray(n, n))
    kind = draw(st.sampled_from(["plain", "plain", "nilpotent", "hermitian", "scaled"]))
    if kind == "nilpotent":
        for i in range(n):
            A[i, : i + 1] = 0.0
    elif kind == "hermitian":
        A = gen.make_hermitian(A)
    elif kind == "scaled":
        A = A * 10.0 ** draw(st.sampled_from([-9, -3, 3, 9]))
    return {"A": np.ascontiguousarray(A), "kind": kind, "seed": draw(gen.seeds()),
            "max_iterations": draw(st.sampled_from([None, 0, 1, 3, 30])), "tol": draw(st.sampled_from([None, 1e-10]))}


ARB_KINDS = ("plain",) * 8 + ("scaled",) * 3 + ("nilpotent",) * 2 + ("rank_one",) * 2 + ("complex",) * 2 + (
    "hermitian", "neg_identity", "hollow", "hollow_hermitian")
ARB_PATTERNS = ("generic",) * 6 + ("int",) * 3 + ("pure_imag",) * 2 + ("sparse",) * 2 + ("axis", "unit", "zero")


@st.composite
def arbitrary_matrix(draw, nmax, nmin=1):
    n = draw(st.integers(nmin, nmax))
    kind = draw(st.sampled_from(ARB_KINDS))
    A, _pat = draw(gen.qarray(n, n, draw(st.sampled_from(ARB_PATTERNS))))
    A = A.copy()
    if kind == "scaled":
        A = A * 10.0 ** draw(st.sampled_from([-12, -9, -3, -2, -1, 1, 2, 3, 9, 12, -100, 100]))
    elif kind == "nilpotent":
        for i in range(n):
            A[i, : i + 1] = 0.0
    elif kind == "hermitian":
        A = gen.make_hermitian(A)
    elif kind == "rank_one":
        x = draw(gen.qmat(n, 1, patterns=("generic", "int")))
        y = draw(gen.qmat(1, n, patterns=("generic", "int")))
        A = ref.qmm(x, y)
    elif kind in ("hollow", "hollow_hermitian"):
        if kind == "hollow_hermitian":
            A = gen.make_hermitian(A)
        for i in range(n):
            A[i, i] = 0.0                 # zero diagonal, non-zero matrix (adjacency-type)
    elif kind == "neg_identity":
        A = -ref.qeye(n) * draw(st.sampled_from([1.0, 0.5, 3.0]))
    elif kind == "complex":
        A[..., 2:] = 0.0                  # entries in the complex subfield span{1, i}
    return np.ascontiguousarray(A), kind


@st.composite
def arbitrary_cases(draw, tier, size=None):
    A, kind = draw(arbitrary_matrix(size[1], size[0]) if size else arbitrary_matrix(7))
    mi = draw(st.sampled_from([None, 0, 1, 2, 3, 7, 30, 100]))
    tol = draw(st.sampled_from([None, None, 1e-10, 1e-6, 1e-13]))
    return {"A": A, "kind": kind, "seed": draw(gen.seeds()), "max_iterations": mi, "tol": tol}


@st.composite
def nh_cases(draw, tier, size=None):
    lo_, hi_ = size or (1, 6)
    which = draw(st.sampled_from(["hermitian_gap", "arbitrary", "arbitrary"]))
    if which == "hermitian_gap":
        A, lam, info = draw(hermitian_gap_matrix(hi_, lo_))
        kind = "hermitian_gap"
        mi = draw(st.sampled_from([None, 400, 1000]))
    else:
        A, kind = draw(arbitrary_matrix(hi_, lo_))
        mi = draw(st.sampled_from([1, 2, 5, 40, 300, 300, None]))
    return {"A": A, "kind": kind, "seed": draw(gen.seeds()), "arg_seed": draw(st.integers(0, 2 ** 31 - 1)),
            "max_iterations": mi,
            "res_tol": draw(st.sampled_from(["default", "default", None, 1e-6])),
            "eig_tol": draw(st.sampled_from([None, None, 1e-8])),
            "block_purify": draw(st.sampled_from([True, True, False])),
            "eigenvalue_format": draw(st.sampled_from(["complex", "complex", "quaternion"])),
            "return_vector": draw(st.sampled_from([True, True, True, False]))}


# ---------------------------------------------------------------------------------------------
# clause 1: Hermitian with a gap -> convergence to the dominant eigenpair from every start


def check_hermitian(case):
    A = np.asarray(case["A"], dtype=float)
    n = A.shape[0]
    lam1, rho, mixed, ev = _spectrum_info(A)
    if not (_is_hermitian_exact(A) and lam1 != 0.0 and rho <= GAP_MAX * (1 + 1e-9)):
        raise AssertionError(f"generator outside the stated domain: rho={rho}, lam1={lam1}")
    out = Out(tags=_herm_tags(n, lam1, rho, mixed))
    out.label(f"n={n}", "lam1_neg" if lam1 < 0 else "lam1_pos", "gap>=0.5" if rho >= 0.5 else "gap<0.5")
    if mixed:
        out.label("mixed_signs")
    if rho >= 0.79:
        out.label("gap_edge_0.8")
    K = _schedule(rho, int(case["mult"]))
    kw = {"max_iterations": K}
    if case.get("tol") is not None:
        kw["tol"] = float(case["tol"])
        out.label(f"tol={case['tol']:g}")
    site = "power_iteration(hermitian,gap)"
    if case_flag(A, 6):
        kw["verbose"] = True
        out.label("verbose=True")
    np.random.seed(int(case["seed"]))
    ok, r = out.call(site, quiet, L.utils.power_iteration, Q(A), return_eigenvalue=True, **kw)
    out.nontrivial = n >= 2 and (lam1 < 0 or mixed or rho >= 0.5)
    if not ok:
        return out
    if not out.true(f"{site}:returns (vector, estimate)", isinstance(r, tuple) and len(r) == 2, f"got {type(r)}"):
        return out
    v = _as_vec(out, site, r[0], n, (n, 1))
    est = _real_scalar(out, site, r[1])
    if v is None or est is None:
        return out
    _common_pi_checks(out, site, A, v, est)
    a1 = abs(lam1)
    out.le(f"{site}:estimate = |lambda_1|", abs(est - a1), REL_EST * a1,
           f"estimate {est!r}, |lambda_1| = {a1!r}, rho = {rho:.3f}, K = {K}")
    resid = ref.fro(ref.qmm(A, v) - lam1 * v)
    if lam1 > 0:
        rel, which = REL_RESID_POS, "lambda_1>0"
    else:
        rel, which = REL_RESID, "lambda_1<0"
    out.le(f"{site}:A v = lambda_1 v (signed, {which})", resid, rel * a1,
           f"||Av - lambda_1 v|| = {resid:.3e}, lambda_1 = {lam1!r}, rho = {rho:.3f}, K = {K}")
    out.sample = {"n": n, "lambda_1": lam1, "rho": rho, "estimate": est, "residual_rel": resid / a1, "K": K}
    return out


# ---------------------------------------------------------------------------------------------
# clause 2: arbitrary square input -> unit vector, estimate = |RQ| <= sigma_1, both return modes


def check_arbitrary(case):
    A = np.asarray(case["A"], dtype=float)
    n = A.shape[0]
    herm = _is_hermitian_exact(A)
    zero = not A.any()
    tags = ["hermitian" if herm else "non_hermitian"]
    if zero:
        tags.append("zero_matrix")
    if case.get("max_iterations") == 0:
        tags.append("max_iterations=0")
    out = Out(tags=tuple(tags))
    out.label(case["kind"], f"max_it={case.get('max_iterations')}", *tags)
    kw = _pi_kwargs(case)
    site = "power_iteration(arbitrary)"
    if case_flag(A, 6):
        kw["verbose"] = True
        out.label("verbose=True")
    np.random.seed(int(case["seed"]))
    ok, r = out.call(site, quiet, L.utils.power_iteration, Q(A), return_eigenvalue=True, **kw)
    out.nontrivial = n >= 2 and not herm
    if ok and out.true(f"{site}:returns (vector, estimate)", isinstance(r, tuple) and len(r) == 2, f"got {type(r)}"):
        v = _as_vec(out, site, r[0], n, (n, 1))
        est = _real_scalar(out, site, r[1])
        if v is not None and est is not None:
            _common_pi_checks(out, site, A, v, est)
            out.sample = {"n": n, "estimate": est, "sigma_1": _sigma1(A)}
    site2 = "power_iteration(arbitrary,return_eigenvalue=False)"
    np.random.seed(int(case["seed"]))
    Aq2 = Q(A)
    hA2 = ahash(Aq2)
    ok2, v2 = out.call(site2, quiet, L.utils.power_iteration, Aq2, **kw)
    out.true(site2 + ":argument unchanged", ahash(Aq2) == hA2, "the matrix was modified by the vector-only call")
    if ok2:
        v2 = _as_vec(out, site2, v2, n, (n, 1))
        if v2 is not None:
            _unit(out, site2, v2, TOL_UNIT_PI)
    # the usual two-step use: the vector first, then the eigenpair OF THE SAME ARRAY - the second answer is about A
    np.random.seed(int(case["seed"]))
    ok3, r3 = out.call(site + "[after a vector-only call on the same array]", quiet, L.utils.power_iteration, Aq2,
                       return_eigenvalue=True, **kw)
    if ok3 and ok and isinstance(r3, tuple) and len(r3) == 2 and isinstance(r, tuple) and len(r) == 2:
        e1, e3 = _real_scalar(out, site, r[1]), _real_scalar(out, site, r3[1])
        if e1 is not None and e3 is not None:
            out.le(site + ":same estimate after a vector-only call on the same array", abs(e3 - e1), 1e-9 * abs(e1) + 1e-300,
                   f"first {e1!r}, after the vector-only call {e3!r}")
    return out


# ---------------------------------------------------------------------------------------------
# clause 3: power_iteration_nonhermitian


def _z_of(v):
    """Quaternion vector (n,1,4) -> stacked complex vector [w + i x ; y + i z] (the library's u, w)."""
    return np.concatenate([v[:, 0, 0] + 1j * v[:, 0, 1], v[:, 0, 2] + 1j * v[:, 0, 3]])


def check_nh(case):
    A = np.asarray(case["A"], dtype=float)
    n = A.shape[0]
    herm = _is_hermitian_exact(A)
    tags = ["hermitian" if herm else "non_hermitian", "block_purify" if case["block_purify"] else "no_purify"]
    out = Out(tags=tuple(tags))
    out.label(case["kind"], *tags, f"format={case['eigenvalue_format']}",
              "return_vector" if case["return_vector"] else "no_vector")
    kw = {"seed": int(case["arg_seed"]), "block_purify": bool(case["block_purify"]),
          "eigenvalue_format": case["eigenvalue_format"], "return_vector": bool(case["return_vector"])}
    if case.get("max_iterations") is not None:
        kw["max_iterations"] = int(case["max_iterations"])
    if case["res_tol"] != "default":
        kw["res_tol"] = case["res_tol"]
    if case.get("eig_tol") is not None:
        kw["eig_tol"] = float(case["eig_tol"])
    site = "power_iteration_nonhermitian"
    np.random.seed(int(case["seed"]))
    ok, r = out.call(site, L.utils.power_iteration_nonhermitian, Q(A), **kw)
    out.nontrivial = n >= 2 and (not herm or bool(A[..., 1:].any()))
    if not ok:
        return out
    want = 3 if case["return_vector"] else 2
    if not out.true(f"{site}:tuple arity", isinstance(r, tuple) and len(r) == want, f"got {type(r)} len "
                    f"{len(r) if isinstance(r, tuple) else '-'} for return_vector={case['return_vector']}"):
        return out
    lam_raw, residuals = r[-2], r[-1]
    # ---- eigenvalue: format, reality on Hermitian input, bounded by the spectral norm
    if case["eigenvalue_format"] == "quaternion":
        if not out.true(f"{site}:eigenvalue format", isinstance(lam_raw, np.quaternion),
                        f"expected quaternion, got {type(lam_raw).__name__}"):
            return out
        comp = [float(lam_raw.w), float(lam_raw.x), float(lam_raw.y), float(lam_raw.z)]
        out.true(f"{site}:quaternion eigenvalue lies in span{{1,i}}", comp[2] == 0.0 and comp[3] == 0.0, f"{comp}")
        lam = complex(comp[0], comp[1])
    else:
        if not out.true(f"{site}:eigenvalue format",
                        isinstance(lam_raw, (complex, np.complexfloating, float, np.floating)),
                        f"expected complex, got {type(lam_raw).__name__}"):
            return out
        lam = complex(lam_raw)
    if not out.true(f"{site}:eigenvalue finite", np.isfinite(lam.real) and np.isfinite(lam.imag), f"{lam!r}"):
        return out
    if herm:
        out.true(f"{site}:real eigenvalue on Hermitian input", lam.imag == 0.0, f"lambda = {lam!r}")
    anorm = ref.fro(A)
    slack = C_RES * n * U_ * (anorm + abs(lam)) + 1e-300
    s1 = _sigma1(A)
    out.le(f"{site}:|eigenvalue| <= spectral norm", max(0.0, abs(lam) - s1), slack, f"|{lam!r}| > sigma_1 = {s1!r}")
    # ---- residual list
    okres = isinstance(residuals, list) and all(isinstance(x, float) and np.isfinite(x) and x >= 0 for x in residuals)
    out.true(f"{site}:residuals is a list of finite non-negative floats", okres, f"{residuals!r}"[:200])
    if not case["return_vector"]:
        return out
    v = _as_vec(out, site, r[0], n, (n,))
    if v is None:
        return out
    _unit(out, site, v, TOL_UNIT_NH)
    if not (okres and np.all(np.isfinite(v))):
        return out
    if len(residuals) == 0:
        out.label("empty_residuals")
        return out
    # consistent with the returned pair: either the quaternion residual ||A v - v lam||_F (lam in span{1,i},
    # multiplied on the right; this is what the Hermitian fast path reports) or the adjoint residual
    # ||M z - lam z||_2 with M = chi_c(A), z = [u; w] the complex halves of v (the general path).  Which of
    # the two conventions the routine uses for a given input is an implementation choice (a tolerance-based
    # Hermitian test), so either one is accepted for every input.
    lamq = np.zeros((1, 1, 4))
    lamq[0, 0, 0], lamq[0, 0, 1] = lam.real, lam.imag
    r_quat = ref.fro(ref.qmm(A, v) - ref.qmm(v, lamq))
    z = _z_of(v)
    r_cplx = float(np.linalg.norm(ref.chi_c(A) @ z - lam * z))
    last = float(residuals[-1])
    dev = min(abs(last - r_quat), abs(last - r_cplx))
    out.le(f"{site}:last residual consistent with returned pair", dev, slack,
           f"residuals[-1] = {last!r}; ||Av - v lam|| = {r_quat!r}; ||Mz - lam z|| = {r_cplx!r}")
    out.sample = {"n": n, "lambda": [lam.real, lam.imag], "last_residual": last, "len_residuals": len(residuals)}
    return out


# ---------------------------------------------------------------------------------------------
# clause 4: enumerated boundary inputs (n = 1, zero matrices, +-identity, 2x2 diagonals) x seeds


def enum_boundary(tier):
    mats = []
    one = ref.qeye(1)
    for c in range(4):
        for s in (1.0, -1.0):
            M = np.zeros((1, 1, 4))
            M[0, 0, c] = s
            mats.append(M)
    mats.append(2.5 * one)
    mats.append(-1e-3 * one)
    for n in (1, 2, 3, 5):
        mats.append(np.zeros((n, n, 4)))
    for n in (2, 3):
        mats.append(ref.qeye(n))
        mats.append(-ref.qeye(n))
    for d in ([1.0, 0.8], [-1.0, 0.8], [-1.0, -0.8], [1.0, -0.8], [-2.0, 0.0], [3.0, 0.0], [-1.0, 0.5, -0.5]):
        mats.append(ref.diag_q(np.array(d)))
    J = np.zeros((2, 2, 4))
    J[0, 1, 0] = 1.0
    mats.append(J)                                    # nilpotent Jordan block
    R = np.zeros((2, 2, 4))
    R[0, 1, 0], R[1, 0, 0] = -1.0, 1.0
    mats.append(R)                                    # rotation: eigenvalues +-i, no real eigenvalue
    K = np.zeros((2, 2, 4))
    K[0, 0, 2], K[1, 1, 3] = 1.0, -2.0
    mats.append(K)                                    # diag(j, -2k)
    nseeds = 3 if tier == "quick" else 12
    cases = []
    for idx, M in enumerate(mats):
        for s in range(nseeds):
            for mi in (None, 0, 1, 400):
                cases.append({"A": M, "kind": "boundary", "seed": 1000 * idx + s, "max_iterations": mi,
                              "tol": None})
    return cases


def check_boundary(case):
    A = np.asarray(case["A"], dtype=float)
    n = A.shape[0]
    out = check_arbitrary(case)
    out.nontrivial = False
    # gap-separated Hermitian boundary matrices with enough iterations also get the convergence clause
    if _is_hermitian_exact(A) and case["max_iterations"] == 400:
        lam1, rho, mixed, ev = _spectrum_info(A)
        if lam1 != 0.0 and rho <= GAP_MAX * (1 + 1e-9):
            h = check_hermitian({"A": A, "seed": case["seed"], "mult": 3, "tol": None})
            out.failures.extend(h.failures)
            for k, val in h.ratios.items():
                out.ratios[k] = max(val, out.ratios.get(k, 0.0))
            out.nontrivial = h.nontrivial
            out.label("boundary_gap_hermitian")
    # the complex-adjoint variant on the same input
    h = check_nh({"A": A, "kind": case["kind"], "seed": case["seed"], "arg_seed": case["seed"] % 7,
                  "max_iterations": 50 if case["max_iterations"] in (None, 400) else max(1, case["max_iterations"]),
                  "res_tol": "default", "eig_tol": None, "block_purify": case["seed"] % 2 == 0,
                  "eigenvalue_format": "complex", "return_vector": True})
    for f in h.failures:
        out.failures.append(f)
    for k, val in h.ratios.items():
        out.ratios[k] = max(val, out.ratios.get(k, 0.0))
    return out


# ---------------------------------------------------------------------------------------------

PROPERTY = Property(
    id="C19",
    title="Power iteration returns a unit vector and converges to the dominant eigenpair",
    rule=("hermitian_gap (and gap-separated boundary cases): n >= 2 and (lambda_1 < 0 or eigenvalues of both signs or "
          "gap ratio |lambda_2/lambda_1| >= 0.5), all read off the LAPACK spectrum of the input; arbitrary: n >= 2 "
          "and A not Hermitian; nonhermitian_variant: n >= 2 and (A not Hermitian or A has a non-real entry). "
          "Distinct = distinct input digest (matrix, seeds and schedule)."),
    clauses=[
        Clause("hermitian_gap", check_hermitian, strategy=hermitian_cases, budget={"quick": 2000, "thorough": 30000}),
        Clause("arbitrary", check_arbitrary, strategy=arbitrary_cases, budget={"quick": 2000, "thorough": 30000}),
        Clause("hermitian_gap_moderate_size", check_hermitian, strategy=lambda tier: hermitian_cases(tier, size=(9, 20 if tier == "quick" else 40)),
               budget={"quick": 40, "thorough": 400}, shrink=False),
        Clause("arbitrary_moderate_size", check_arbitrary, strategy=lambda tier: arbitrary_cases(tier, size=(9, 20 if tier == "quick" else 40)),
               budget={"quick": 40, "thorough": 400}, shrink=False),
        Clause("nonhermitian_variant_moderate_size", check_nh, strategy=lambda tier: nh_cases(tier, size=(9, 16 if tier == "quick" else 24)),
               budget={"quick": 24, "thorough": 240}, shrink=False),
        Clause("hermitian_gap_long_dimension", check_hermitian, strategy=long_hermitian_cases,
               budget={"quick": 16, "thorough": 160}, shrink=False),
        Clause("arbitrary_long_dimension", check_arbitrary, strategy=long_arbitrary_cases,
               budget={"quick": 16, "thorough": 160}, shrink=False),
        Clause("nonhermitian_variant", check_nh, strategy=nh_cases, budget={"quick": 2000, "thorough": 30000}),
        Clause("boundary_enumerated", check_boundary, enumerate=enum_boundary, budget={"quick": 0, "thorough": 0}),
    ],
    assumptions=[
        "numpy-quaternion dtype conversions (as_quat_array/as_float_array) are trusted",
        "reference spectra/singular values come from LAPACK on the harness's own complex adjoint (qv/ref.py); "
        "products and residuals from the harness's Hamilton table",
        "the random start of power_iteration is drawn from the global numpy RNG: 'every random start' is sampled "
        "through generated np.random.seed values (a start exactly orthogonal to the dominant eigenspace has "
        "probability zero and is not constructible through the public interface)",
        "Hermitian-gap domain: |lambda_2/lambda_1| <= 0.8, |lambda_1| in 10^[-3,3], n <= 7, tol <= 1e-10 and "
        "max_iterations >= ceil(log(1e-13)/log(rho)) + 10 (the 'enough iterations' of the statement)",
        "arbitrary inputs: entries within 10^[-3,3]*10 (no overflow/underflow claims)",
        "complex-adjoint variant: 'residual list consistent with the returned pair' is read as residuals[-1] = "
        "||A v - v lambda||_F (quaternion residual) or ||chi(A) z - lambda z||_2 with z = [u; w] the complex "
        "halves of the returned vector (adjoint residual), whichever is closer; no eigen-accuracy is demanded "
        "from this experimental routine (the statement claims none beyond a real eigenvalue on Hermitian input)",
    ],
    exhaustive_note=("boundary_enumerated: 30 fixed boundary matrices (all 1x1 basis units, zero matrices, +-identity, "
                     "2x2/3x3 diagonals at the gap edge, Jordan block, rotation) x 3-12 seeds x max_iterations in "
                     "{default,0,1,400}; a finite list, not an exhaustive domain"),
)
