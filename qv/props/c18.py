"""C18 - tensor unfold/fold, colour <-> quaternion mappings and channel split/stack are lossless;
PSNR / relative error are zero-distance-consistent; noise injection hits the requested SNR.

Oracles (all independent of the library):
  * index-level definition of the mode-n unfolding written with explicit loops
        M[idx[mode], idx[a] * dims[b] + idx[b]] = T[i, j, k],  (a < b the two remaining axes)
    i.e. the columns are the mode-n fibres, ordered by the C-order index of the remaining axes
    taken in increasing axis order (the ordering tensor.py documents: (J,I,K)->(J,I*K),
    (K,I,J)->(K,I*J));
  * exact rational (fractions.Fraction) sums of squares for norms, moduli, MSE;
  * plain slicing definitions for the colour / channel helpers.

Tolerances
  * data movement (unfold, fold, rgb<->quat, split/stack, |.| commuting with unfolding): bit-for-bit.
  * Frobenius norm of n = 4*size components: fl(sqrt(fl(sum fl(x^2)))) has relative error
    <= (n-1)u (any summation order, non-negative terms) + u (squares) then halved by the sqrt, + u;
    the reference sqrt_fraction adds <= 2u.  Rigorous bound (n/2+4)u; we use C_NORM*(n+8)*u with
    C_NORM = 16 (headroom so that the unchanged tree sits near 1e-2 of the bound).
  * entrywise modulus: 4 squares, 3 additions, one sqrt: <= 3u relative, reference <= 2u; bound 256u.
  * PSNR value: mse has relative error <= (n+1)u, range^2/mse <= (n+6)u, so the dB value carries
    (10/ln 10)(n+6)u absolute plus one rounding of log10 (2u|psnr|); bound = C_MET times that, C_MET = 64.
  * relative error value: two norms of n terms and a quotient: <= (n+8)u relative; bound C_NORM*(2n+16)u.
  * add_awgn_snr: statistical.  Pooled over N_tot >= 2**18 noise samples the realised noise power is
    sigma^2 chi^2_{N_tot}; the realised SNR in dB has standard deviation (10/ln 10) sqrt(2/N_tot)
    = 0.012 dB.  The acceptance window is the design's +-0.3 dB = 25 sigma.

Magnitude windows (DESIGN 3.1: a property "to rounding" says nothing about overflow to inf):
  tensors / images: entries (k/16)*10^e, |e| <= 100, so squares and their sums are representable;
  metrics: non-zero entries of x_ref and of x - x_ref lie in [1e-120, 1e120] and the PSNR argument
  range^2/mse lies in [1e-290, 1e290].  The check evaluates these predicates on the input and only
  asserts the "not equal => finite PSNR / non-zero error" direction inside that window.
"""
import itertools
import math
from fractions import Fraction

import numpy as np
from hypothesis import strategies as st
from hypothesis.extra import numpy as hnp

from .. import gen, ref
from ..core import Clause, Out, Property
from ..env import L
from ..lib import F, Q, ahash

U_ = ref.U
C_NORM = 16.0
C_ABS = 256.0
C_MET = 64.0
SNR_TOL_DB = 0.3
N_POOL = 2 ** 18
LO, HI = 1e-120, 1e120


# ----------------------------------------------------------------------------
# reference: index-level unfolding / folding


def ref_unfold(T, mode):
    """T: (I,J,K) + trailing axes.  Index-level mode-n matricization (explicit loops)."""
    dims = T.shape[:3]
    a, b = [ax for ax in range(3) if ax != mode]
    M = np.zeros((dims[mode], dims[a] * dims[b]) + T.shape[3:], dtype=T.dtype)
    for idx in itertools.product(range(dims[0]), range(dims[1]), range(dims[2])):
        M[idx[mode], idx[a] * dims[b] + idx[b]] = T[idx]
    return M


def ref_fold(M, mode, shape):
    a, b = [ax for ax in range(3) if ax != mode]
    T = np.zeros(tuple(shape) + M.shape[2:], dtype=M.dtype)
    for idx in itertools.product(range(shape[0]), range(shape[1]), range(shape[2])):
        T[idx] = M[idx[mode], idx[a] * shape[b] + idx[b]]
    return T


def fibres(T, mode):
    """List of the mode-n fibres of T (each of shape (dims[mode], 4)) as bytes."""
    dims = T.shape[:3]
    a, b = [ax for ax in range(3) if ax != mode]
    res = []
    for p in range(dims[a]):
        for q in range(dims[b]):
            sl = [0, 0, 0]
            sl[a], sl[b], sl[mode] = p, q, slice(None)
            res.append(np.ascontiguousarray(T[tuple(sl)]).tobytes())
    return res


def exact_moduli(A):
    """Entrywise moduli from exact rational sums of squares (error <= 2u)."""
    flat = A.reshape(-1, 4)
    res = np.zeros(flat.shape[0])
    for t in range(flat.shape[0]):
        s = Fraction(0)
        for c in range(4):
            f = Fraction(float(flat[t, c]))
            s += f * f
        res[t] = ref.sqrt_fraction(s)
    return res.reshape(A.shape[:-1])


def with_layout(Tq, layout):
    """Same values, different memory layout (the library must not depend on strides)."""
    if layout == "C":
        return Tq
    if layout == "F":
        return np.asfortranarray(Tq)
    if layout == "strided":
        I, J, K = Tq.shape
        big = np.full((2 * I, J, 2 * K + 1), np.quaternion(-7.0, 7.0, -7.0, 7.0), dtype=np.quaternion)
        big[::2, :, 1::2] = Tq
        return big[::2, :, 1::2]
    if layout == "transposed":
        return np.ascontiguousarray(Tq.transpose(2, 1, 0)).transpose(2, 1, 0)
    raise ValueError(layout)


def index_coded(I, J, K):
    """All 4*I*J*K components pairwise distinct and exactly representable."""
    T = np.zeros((I, J, K, 4))
    for i in range(I):
        for j in range(J):
            for k in range(K):
                w = 100.0 * (i + 1) + 10.0 * (j + 1) + (k + 1)
                T[i, j, k] = (w, w + 0.25, -w - 0.5, 1000.0 + w)
    return T


def shape_tags(shape, mode, layout):
    I, J, K = shape
    tags = [f"mode={mode}", f"layout={layout}"]
    if 1 in shape:
        tags.append("singleton_axis")
    if len({I, J, K}) == 3:
        tags.append("dims_distinct")
    elif len({I, J, K}) == 1:
        tags.append("dims_equal")
    else:
        tags.append("two_dims_equal")
    return tags


def entries_distinct(T):
    flat = T.reshape(-1, 4)
    return len({flat[t].tobytes() for t in range(flat.shape[0])}) == flat.shape[0]


def check_tensor(T, mode, layout, out):
    """The whole tensor battery on one (tensor, mode, layout)."""
    tz = L.tensor
    shape = T.shape[:3]
    I, J, K = shape
    a, b = [ax for ax in range(3) if ax != mode]
    mshape = (shape[mode], shape[a] * shape[b])
    size = I * J * K
    Tq = with_layout(Q(T), layout)
    h0 = ahash(Tq)
    Mref = ref_unfold(T, mode)

    # ---- unfolding
    ok, M = out.call(f"tensor_unfold(mode={mode})", tz.tensor_unfold, Tq, mode)
    Mf = None
    if ok:
        good = out.true(f"tensor_unfold(mode={mode}):shape and dtype",
                        isinstance(M, np.ndarray) and M.shape == mshape and M.dtype == np.quaternion,
                        f"got {getattr(M, 'shape', None)} {getattr(M, 'dtype', None)}, want {mshape} quaternion")
        if good:
            Mf = F(M)
            out.equal_bits(f"tensor_unfold(mode={mode}):index-level definition", Mf, Mref,
                           "M[i_mode, C-order index of remaining axes] != T[i,j,k]")
            cols = sorted(np.ascontiguousarray(Mf[:, c]).tobytes() for c in range(mshape[1]))
            out.true(f"tensor_unfold(mode={mode}):columns are the mode-n fibres", cols == sorted(fibres(T, mode)),
                     "multiset of columns differs from the multiset of mode-n fibres")
    # ---- fold o unfold = id (library unfolding), and fold against the index-level definition
    if Mf is not None:
        ok2, T2 = out.call(f"tensor_fold(mode={mode}) of library unfolding", tz.tensor_fold, M, mode, shape)
        if ok2:
            if out.true(f"tensor_fold(mode={mode}):shape and dtype",
                        isinstance(T2, np.ndarray) and T2.shape == shape and T2.dtype == np.quaternion,
                        f"got {getattr(T2, 'shape', None)}, want {shape}"):
                out.equal_bits(f"tensor_fold(mode={mode}):fold(unfold(T)) = T", F(T2), T)
    ok3, T3 = out.call(f"tensor_fold(mode={mode}) of reference unfolding", tz.tensor_fold, Q(Mref), mode, shape)
    if ok3:
        if out.true(f"tensor_fold(mode={mode}):shape (reference unfolding)",
                    isinstance(T3, np.ndarray) and T3.shape == shape, f"got {getattr(T3, 'shape', None)}"):
            out.equal_bits(f"tensor_fold(mode={mode}):index-level definition", F(T3), T,
                           "fold of the index-level unfolding does not return T")
    # ---- unfold o fold = id on an arbitrary matrix of the right shape
    M2 = np.ascontiguousarray(T.reshape(mshape + (4,)))
    ok4, T4 = out.call(f"tensor_fold(mode={mode}) of arbitrary matrix", tz.tensor_fold, Q(M2), mode, shape)
    if ok4 and isinstance(T4, np.ndarray) and T4.shape == shape:
        out.equal_bits(f"tensor_fold(mode={mode}):index-level definition (arbitrary matrix)", F(T4),
                       ref_fold(M2, mode, shape))
        ok5, M5 = out.call(f"tensor_unfold(mode={mode}) of folded matrix", tz.tensor_unfold, T4, mode)
        if ok5 and isinstance(M5, np.ndarray):
            out.equal_bits(f"tensor_unfold(mode={mode}):unfold(fold(M)) = M", F(M5), M2)
    elif ok4:
        out.true(f"tensor_fold(mode={mode}):shape (arbitrary matrix)", False, f"got {getattr(T4, 'shape', None)}")
    # ---- documented rejection of an incompatible target shape
    bad_shapes = [(I + 1, J, K)]
    rot = (J, K, I)
    ra, rb = [ax for ax in range(3) if ax != mode]
    if (rot[mode], rot[ra] * rot[rb]) != mshape:
        bad_shapes.append(rot)
    for bs in bad_shapes:
        try:
            r = tz.tensor_fold(Q(Mref), mode, bs)
            out.true(f"tensor_fold(mode={mode}):rejects incompatible shape", False,
                     f"matrix {mshape} folded to target {bs} without error (result shape {getattr(r, 'shape', None)})")
        except ValueError:
            pass
        except Exception as e:  # noqa: BLE001
            out.true(f"tensor_fold(mode={mode}):rejects incompatible shape", False,
                     f"raised {type(e).__name__} instead of ValueError: {e}"[:200])
    # ---- norms and moduli
    n = 4 * size
    exact = ref.sqrt_fraction(ref.fro_exact_sq(T))
    relb = C_NORM * (n + 8) * U_
    tiny = 1e-300 if exact == 0 else 0.0
    okn, nT = out.call("tensor_frobenius_norm(T)", tz.tensor_frobenius_norm, Tq)
    if okn:
        out.le("tensor_frobenius_norm:definition", abs(float(nT) - exact), relb * exact + tiny,
               f"got {float(nT)!r}, exact {exact!r}")
    if Mf is not None:
        okm, nM = out.call("tensor_frobenius_norm(unfolding)", tz.tensor_frobenius_norm, M)
        if okm:
            out.le("tensor_frobenius_norm:unfolding vs exact", abs(float(nM) - exact), relb * exact + tiny,
                   f"got {float(nM)!r}, exact {exact!r}")
            if okn:
                out.le("tensor_frobenius_norm:preserved by unfolding", abs(float(nM) - float(nT)),
                       2 * relb * exact + tiny)
    oka, aT = out.call("tensor_entrywise_abs(T)", tz.tensor_entrywise_abs, Tq)
    if oka:
        aT = np.asarray(aT)
        if out.true("tensor_entrywise_abs:shape and dtype", aT.shape == shape and aT.dtype == np.float64,
                    f"got {aT.shape} {aT.dtype}"):
            mods = exact_moduli(T)
            bnd = C_ABS * U_ * mods
            err = np.abs(aT - mods)
            zero_ok = bool(np.all(err[mods == 0] == 0.0))
            nzm = mods > 0
            ratio = float(np.max(err[nzm] / bnd[nzm])) if nzm.any() else 0.0
            out.true("tensor_entrywise_abs:zero entries", zero_ok, "non-zero modulus for a zero quaternion")
            out.le("tensor_entrywise_abs:definition", ratio, 1.0, "max entrywise |abs - exact modulus| / bound")
            if Mf is not None:
                okb, aM = out.call("tensor_entrywise_abs(unfolding)", tz.tensor_entrywise_abs, M)
                if okb:
                    aM = np.asarray(aM)
                    out.equal_bits("tensor_entrywise_abs:commutes with unfolding", aM, ref_unfold(aT, mode))
                    if aM.shape == mshape:
                        out.true("tensor_entrywise_abs:multiset of moduli preserved",
                                 np.array_equal(np.sort(aM.ravel()), np.sort(aT.ravel())),
                                 "sorted moduli of the unfolding differ from those of the tensor")
    out.true("argument unchanged", ahash(Tq) == h0, "input tensor modified")


# ----------------------------------------------------------------------------
# clause 1: every shape in [1,6]^3, every mode, two layouts, index-coded entries (exact)

ENUM_MAX = 6


def enum_tensor(tier):
    cases = []
    for I, J, K in itertools.product(range(1, ENUM_MAX + 1), repeat=3):
        for mode in range(3):
            for layout in ("C", "strided"):
                cases.append({"shape": [I, J, K], "mode": mode, "layout": layout})
    return cases


def check_tensor_enum(case):
    I, J, K = case["shape"]
    mode, layout = case["mode"], case["layout"]
    out = Out(tags=shape_tags((I, J, K), mode, layout))
    T = index_coded(I, J, K)
    out.label(f"mode={mode}", *[t for t in out.tags if t.startswith(("dims", "two", "single"))])
    check_tensor(T, mode, layout, out)
    out.nontrivial = len({I, J, K}) == 3 and min(I, J, K) >= 2
    if out.nontrivial:
        out.sample = {"shape": [I, J, K], "mode": mode, "layout": layout}
    return out


# ----------------------------------------------------------------------------
# clause 2: generated tensors (entry patterns, magnitudes 10^+-100, layouts)

TENSOR_PATTERNS = ("indexed",) * 4 + gen.WEIGHTED_PATTERNS


@st.composite
def tensor_cases(draw, tier, size=None):
    lo_, hi = size or (1, 6 if tier == "quick" else 8)
    if draw(st.integers(0, 2)) == 0:
        dims = draw(st.permutations(draw(st.lists(st.integers(max(2, lo_), hi), min_size=3, max_size=3, unique=True))))
        I, J, K = dims
    else:
        I, J, K = draw(st.integers(lo_, hi)), draw(st.integers(lo_, hi)), draw(st.integers(lo_, hi))
    mode = draw(st.integers(0, 2))
    layout = draw(st.sampled_from(["C", "C", "F", "strided", "transposed"]))
    pattern = draw(st.sampled_from(TENSOR_PATTERNS))
    if pattern == "indexed":
        sc = draw(gen.dyadic(0, 0, 64).filter(lambda v: v != 0.0))
        off = draw(hnp.arrays(np.float64, (4,), elements=gen.dyadic(0, 0, 64), fill=st.nothing()))
        e = draw(st.sampled_from([0, 0, 0, -100, -30, 30, 96]))
        T = (index_coded(I, J, K) / 16.0 * sc + off) * 10.0 ** e
    else:
        A, pattern = draw(gen.qarray(I * J, K, pattern, -100, 100))
        T = A.reshape(I, J, K, 4)
    return {"T": np.ascontiguousarray(T), "mode": mode, "layout": layout, "pattern": pattern}


@st.composite
def long_tensor_cases(draw, tier):
    """One long axis (crossing the blocking sizes) against two short ones, index-coded entries (all distinct)."""
    Lg = draw(gen.long_dim(cap=129 if tier == "quick" else 300))
    a, b = draw(st.integers(1, 3)), draw(st.integers(1, 3))
    I, J, K = draw(st.permutations([Lg, a, b]))
    T = index_coded(I, J, K) / 16.0
    return {"T": np.ascontiguousarray(T), "mode": draw(st.integers(0, 2)),
            "layout": draw(st.sampled_from(["C", "C", "F", "transposed"])), "pattern": "indexed"}


def check_tensor_gen(case):
    T = np.asarray(case["T"], dtype=float)
    mode, layout = int(case["mode"]), case["layout"]
    I, J, K = T.shape[:3]
    out = Out(tags=shape_tags((I, J, K), mode, layout))
    distinct = entries_distinct(T)
    out.label(f"mode={mode}", f"layout={layout}", "pat=" + case["pattern"],
              *[t for t in out.tags if t.startswith(("dims", "two", "single"))])
    if distinct:
        out.label("entries_distinct")
    mx = float(np.max(np.abs(T))) if T.size else 0.0
    if mx > 1e30:
        out.label("huge")
    elif 0 < mx < 1e-30:
        out.label("tiny")
    check_tensor(T, mode, layout, out)
    out.nontrivial = len({I, J, K}) == 3 and min(I, J, K) >= 2 and distinct
    out.sample = {"shape": [I, J, K], "mode": mode, "layout": layout, "pattern": case["pattern"]}
    return out


# ----------------------------------------------------------------------------
# clause 3: RGB image <-> quaternion image

RANGES = ("unit", "unit", "byte", "byte", "near_unit", "near_unit", "signed", "huge", "tiny", "const", "mixed_channels",
          "mixed_channels")


@st.composite
def colour_cases(draw, tier):
    hi = 8 if tier == "quick" else 12
    H, W = draw(st.integers(1, hi)), draw(st.integers(1, hi))
    rng_kind = draw(st.sampled_from(RANGES))
    shape = (H, W, 3)
    dtype = "float64"
    if rng_kind == "unit":
        x = draw(hnp.arrays(np.float64, shape, elements=st.integers(0, 256).map(lambda k: k / 256.0), fill=st.nothing()))
        dtype = draw(st.sampled_from(["float64", "float64", "float32"]))
    elif rng_kind == "byte":
        x = draw(hnp.arrays(np.float64, shape, elements=st.integers(0, 255).map(float), fill=st.nothing()))
        dtype = draw(st.sampled_from(["float64", "uint8", "float32"]))
    elif rng_kind == "near_unit":
        x = draw(hnp.arrays(np.float64, shape, elements=st.integers(-32, 96).map(lambda k: k / 64.0), fill=st.nothing()))
    elif rng_kind == "mixed_channels":
        # every colour channel has its own value range (a dark / slightly overshooting channel next to 0..255 ones):
        # the documented heuristic looks at the image as a whole
        x = np.zeros(shape)
        for c in range(3):
            ck = draw(st.sampled_from(["unit", "near_unit", "near_unit", "byte", "byte_frac", "signed"]))
            el = {"unit": st.integers(0, 256).map(lambda k: k / 256.0), "near_unit": st.integers(-32, 96).map(lambda k: k / 64.0),
                  "byte": st.integers(0, 255).map(float), "byte_frac": st.integers(0, 255 * 4).map(lambda k: k / 4.0),
                  "signed": gen.dyadic(0, 0, 160)}[ck]
            x[..., c] = draw(hnp.arrays(np.float64, (H, W), elements=el, fill=st.nothing()))
    elif rng_kind == "signed":
        x = draw(hnp.arrays(np.float64, shape, elements=gen.dyadic(0, 0, 160), fill=st.nothing()))
    elif rng_kind == "huge":
        x = draw(hnp.arrays(np.float64, shape, elements=gen.dyadic(0, 0, 160), fill=st.nothing())) * 1e100
    elif rng_kind == "tiny":
        x = draw(hnp.arrays(np.float64, shape, elements=gen.dyadic(0, 0, 160), fill=st.nothing())) * 1e-100
    else:
        v = draw(st.sampled_from([0.0, 0.5, 1.0, 255.0, -3.0]))
        x = np.full(shape, v)
    real = draw(st.one_of(st.none(), st.just(0.0), st.sampled_from([0.5, 1.0, -1.0, 255.0]), gen.dyadic(0, 0, 160),
                          gen.dyadic(-100, 100, 160)))
    layout = draw(st.sampled_from(["C", "C", "F", "reversed"]))
    return {"rgb": np.ascontiguousarray(x), "range": rng_kind, "dtype": dtype, "real": real, "layout": layout}


def check_colour(case):
    qs = L.qslst
    x64 = np.asarray(case["rgb"], dtype=float)
    H, W, _ = x64.shape
    kind, dtype, layout, real = case["range"], case["dtype"], case["layout"], case["real"]
    out = Out(tags=(f"range={kind}", f"dtype={dtype}", f"layout={layout}"))
    out.label(f"range={kind}", f"dtype={dtype}", f"layout={layout}", "real=default" if real is None else
              ("real=0" if real == 0 else "real=nonzero"))
    x = x64.astype(dtype)
    if layout == "F":
        x = np.asfortranarray(x)
    elif layout == "reversed":
        x = np.ascontiguousarray(x[::-1, :, ::-1])[::-1, :, ::-1]   # same values, negative strides
    h0 = ahash(x)
    r = 0.0 if real is None else float(real)
    if real is None:
        ok, q = out.call("rgb_to_quat(default real part)", qs.rgb_to_quat, x)
    else:
        ok, q = out.call("rgb_to_quat", qs.rgb_to_quat, x, r)
    if not ok:
        return out
    out.true("rgb_to_quat:argument unchanged", ahash(x) == h0, "input image modified")
    want_q = np.zeros((H, W, 4))
    want_q[..., 0] = r
    for c in range(3):
        want_q[..., 1 + c] = x64[..., c]
    if not out.true("rgb_to_quat:shape and dtype", isinstance(q, np.ndarray) and q.shape == (H, W, 4)
                    and q.dtype == np.float64, f"got {getattr(q, 'shape', None)} {getattr(q, 'dtype', None)}"):
        return out
    out.equal_bits("rgb_to_quat:real part equals real_part", q[..., 0], want_q[..., 0])
    out.equal_bits("rgb_to_quat:[q1,q2,q3] = [R,G,B]", q[..., 1:], want_q[..., 1:])
    hq = ahash(q)
    ok, back = out.call("quat_to_rgb(clip=False)", qs.quat_to_rgb, q, clip=False)
    if ok:
        out.equal_bits("quat_to_rgb(clip=False):round trip returns the image", back, x64)
    lo, hi_ = float(x64.min()), float(x64.max())
    in_unit = lo >= 0.0 and hi_ <= 1.0
    looks_normalised = lo >= -0.5 and hi_ <= 1.5
    for nm, kw in (("clip=True", {"clip": True}), ("default clip", {})):
        ok, bc = out.call(f"quat_to_rgb({nm})", qs.quat_to_rgb, q, **kw)
        if not ok:
            continue
        if in_unit:
            out.equal_bits(f"quat_to_rgb({nm}):round trip on [0,1] data", bc, x64)
        elif looks_normalised:
            out.equal_bits(f"quat_to_rgb({nm}):documented clipping of [-0.5,1.5] data", bc, np.clip(x64, 0.0, 1.0))
        else:
            out.equal_bits(f"quat_to_rgb({nm}):documented no clipping outside [-0.5,1.5]", bc, x64)
    out.true("quat_to_rgb:argument unchanged", ahash(q) == hq, "quaternion image modified")
    if in_unit:
        out.label("in_unit")
    elif looks_normalised:
        out.label("clipped_class")
    chans = [x64[..., c].tobytes() for c in range(3)]
    out.nontrivial = (H != W and len(set(chans)) == 3
                      and all(not np.all(x64[..., c] == r) for c in range(3)))
    out.sample = {"H": H, "W": W, "range": kind, "real": r}
    return out


# ----------------------------------------------------------------------------
# clause 4: split / stack of the four channels


@st.composite
def channel_cases(draw, tier):
    hi = 8 if tier == "quick" else 12
    H, W = draw(st.integers(1, hi)), draw(st.integers(1, hi))
    q, pat = draw(gen.qarray(H, W, None, -100, 100))
    chans, _ = draw(gen.qarray(H, W, draw(st.sampled_from(["generic", "int", "scaled", "sparse"])), -100, 100))
    layout = draw(st.sampled_from(["C", "C", "F", "strided"]))
    return {"q": q, "chans": chans, "pattern": pat, "layout": layout}


def check_channels(case):
    qs = L.qslst
    q0 = np.asarray(case["q"], dtype=float)
    ch = np.asarray(case["chans"], dtype=float)
    H, W, _ = q0.shape
    layout = case["layout"]
    out = Out(tags=(f"layout={layout}",))
    out.label("pat=" + case["pattern"], f"layout={layout}")
    if layout == "F":
        q = np.asfortranarray(q0)
    elif layout == "strided":
        big = np.full((2 * H, W + 1, 8), -7.0)
        big[1::2, 1:, ::2] = q0
        q = big[1::2, 1:, ::2]
    else:
        q = q0.copy()
    h0 = ahash(q)
    ok, parts = out.call("split_quat_channels", qs.split_quat_channels, q)
    if ok:
        good = out.true("split_quat_channels:four (H,W) arrays",
                        isinstance(parts, tuple) and len(parts) == 4
                        and all(isinstance(p, np.ndarray) and p.shape == (H, W) for p in parts),
                        f"got {type(parts).__name__} of {[getattr(p, 'shape', None) for p in parts] if isinstance(parts, (tuple, list)) else ''}")
        if good:
            for c in range(4):
                out.equal_bits(f"split_quat_channels:channel {c} = q[..., {c}]", parts[c], q0[..., c])
            ok2, back = out.call("stack_quat_channels(split)", qs.stack_quat_channels, *parts)
            if ok2:
                out.equal_bits("stack_quat_channels:stack(split(q)) = q", back, q0)
    out.true("split_quat_channels:argument unchanged", ahash(q) == h0, "input modified")
    planes = [np.ascontiguousarray(ch[..., c]) for c in range(4)]
    hp = [ahash(p) for p in planes]
    ok, s = out.call("stack_quat_channels", qs.stack_quat_channels, *planes)
    if ok:
        if out.true("stack_quat_channels:shape", isinstance(s, np.ndarray) and s.shape == (H, W, 4),
                    f"got {getattr(s, 'shape', None)}"):
            for c in range(4):
                out.equal_bits(f"stack_quat_channels:q[..., {c}] = channel {c}", s[..., c], ch[..., c])
            ok2, parts2 = out.call("split_quat_channels(stack)", qs.split_quat_channels, s)
            if ok2 and isinstance(parts2, tuple) and len(parts2) == 4:
                for c in range(4):
                    out.equal_bits(f"split_quat_channels:split(stack(a,b,c,d))[{c}]", parts2[c], ch[..., c])
            elif ok2:
                out.true("split_quat_channels:four arrays (after stack)", False, f"got {type(parts2).__name__}")
    out.true("stack_quat_channels:arguments unchanged", [ahash(p) for p in planes] == hp, "input channels modified")
    # channel planes of different dtypes (a constant integer real part next to float colour planes, a float32 plane):
    # stacking may promote, it may not lose values
    for nm, conv in (("int64 real part", lambda c, p: (np.zeros_like(p, dtype=np.int64) + 1) if c == 0 else p),
                     ("float32 real part", lambda c, p: p.astype(np.float32) if c == 0 else p),
                     ("uint8 constant plane 2", lambda c, p: np.full(p.shape, 3, dtype=np.uint8) if c == 2 else p)):
        mixed = [conv(c, planes[c]) for c in range(4)]
        okm, sm = out.call(f"stack_quat_channels({nm})", qs.stack_quat_channels, *mixed)
        if okm and out.true(f"stack_quat_channels({nm}):shape", isinstance(sm, np.ndarray) and sm.shape == (H, W, 4),
                            f"got {getattr(sm, 'shape', None)}"):
            for c in range(4):
                out.equal_bits(f"stack_quat_channels({nm}):q[..., {c}] = channel {c} (value preserved)",
                               np.asarray(sm[..., c], dtype=np.float64), np.asarray(mixed[c], dtype=np.float64))
    out.nontrivial = (H != W and len({q0[..., c].tobytes() for c in range(4)}) == 4
                      and len({ch[..., c].tobytes() for c in range(4)}) == 4)
    out.sample = {"H": H, "W": W, "pattern": case["pattern"]}
    return out


# ----------------------------------------------------------------------------
# clause 5: PSNR / relative error

REF_KINDS = ("unit", "unit", "byte", "signed", "signed", "sparse", "constant", "zero")
DIFF_KINDS = ("equal", "equal", "same_object", "one_ulp", "one_ulp", "one_entry", "few", "dense", "dense_small")
SCALES = (0, 0, 0, 0, -100, -50, -12, -3, 3, 12, 50, 100)


@st.composite
def metric_cases(draw, tier):
    hi = 8
    H, W = draw(st.integers(1, hi)), draw(st.integers(1, hi))
    C = draw(st.sampled_from([3, 4, 4, 0]))
    shape = (H, W) if C == 0 else (H, W, C)
    kind = draw(st.sampled_from(REF_KINDS))
    e = draw(st.sampled_from(SCALES))
    sgn = gen.dyadic(0, 0, 160)
    if kind == "unit":
        v = draw(hnp.arrays(np.float64, shape, elements=st.integers(0, 256).map(lambda k: k / 256.0), fill=st.nothing()))
    elif kind == "byte":
        v = draw(hnp.arrays(np.float64, shape, elements=st.integers(0, 255).map(float), fill=st.nothing()))
    elif kind == "signed":
        v = draw(hnp.arrays(np.float64, shape, elements=sgn, fill=st.nothing()))
    elif kind == "sparse":
        v = draw(hnp.arrays(np.float64, shape, elements=sgn, fill=st.nothing()))
        v = v * draw(hnp.arrays(np.bool_, shape, elements=st.booleans(), fill=st.nothing()))
    elif kind == "constant":
        v = np.full(shape, draw(sgn.filter(lambda t: t != 0.0)))
    else:
        v = np.zeros(shape)
    s = 10.0 ** e
    xref = v * s
    dkind = draw(st.sampled_from(DIFF_KINDS))
    y = xref.copy()
    size = int(np.prod(shape))
    if dkind == "one_ulp":
        p = draw(st.integers(0, size - 1))
        up = draw(st.booleans())
        yf = y.reshape(-1)
        if yf[p] == 0.0:
            yf[p] = (1.0 if up else -1.0) * s * 2.0 ** -52
        else:
            yf[p] = np.nextafter(yf[p], np.inf if up else -np.inf)
    elif dkind == "one_entry":
        p = draw(st.integers(0, size - 1))
        y.reshape(-1)[p] = draw(sgn) * s
    elif dkind in ("few", "dense", "dense_small"):
        d = draw(hnp.arrays(np.float64, shape, elements=gen.dyadic(0, 0, 64), fill=st.nothing()))
        if dkind == "few":
            d = d * draw(hnp.arrays(np.bool_, shape, elements=st.booleans(), fill=st.nothing()))
        de = draw(st.integers(-12, -1)) if dkind == "dense_small" else draw(st.integers(-6, 3))
        y = xref + d * (s * 10.0 ** de)
    data_range = draw(st.sampled_from([None, None, None, 1.0, 255.0]))
    return {"x": np.ascontiguousarray(y), "x_ref": np.ascontiguousarray(xref), "ref_kind": kind, "diff_kind": dkind,
            "scale_exp": e, "data_range": data_range}


def _in_window(A):
    nz = np.abs(A[A != 0.0])
    return bool(np.all((nz >= LO) & (nz <= HI))) if nz.size else True


def check_metrics(case):
    qs = L.qslst
    x = np.asarray(case["x"], dtype=float)
    xref = np.asarray(case["x_ref"], dtype=float)
    dkind, rkind, dr = case["diff_kind"], case["ref_kind"], case["data_range"]
    if dkind == "same_object":
        x = xref
    n = xref.size
    D = x - xref                                   # one IEEE subtraction per entry: non-zero iff x != x_ref
    equal = bool(np.array_equal(x, xref))
    zero_ref = not bool(np.any(xref != 0.0))
    const_ref = float(xref.max()) == float(xref.min())
    mse_ex = sum((Fraction(float(d)) ** 2 for d in D.ravel()), Fraction(0)) / n
    ref_sq = ref.fro_exact_sq(xref)
    rng_ex = Fraction(float(xref.max())) - Fraction(float(xref.min()))
    if dr is not None:
        rng_used = Fraction(float(dr))
    else:
        rng_used = rng_ex if rng_ex != 0 else Fraction(1)     # code falls back to 1.0 on a constant reference
    window = _in_window(xref) and _in_window(D) and _in_window(x)
    if window and not equal:
        ratio = rng_used * rng_used / mse_ex
        window = Fraction(1, 10 ** 290) < ratio < Fraction(10 ** 290)
    tags = [f"ref={rkind}", "equal" if equal else "different"]
    if not window:
        tags.append("outside_magnitude_window")
    out = Out(tags=tags)
    out.label(f"ref={rkind}", f"diff={dkind}", "equal" if equal else "different",
              "data_range=default" if dr is None else "data_range=given")
    if case["scale_exp"]:
        out.label("scaled")
    if not window:
        out.label("outside_magnitude_window")
    if not equal:
        rel_size = math.sqrt(float(mse_ex * n / ref_sq)) if ref_sq != 0 else float("inf")
        if rel_size < 1e-12:
            out.label("difference_below_1e-12_relative")
        if float(mse_ex) < 1e-12:
            out.label("mse_below_1e-12")
    hx, hr = ahash(x), ahash(xref)

    # ---- PSNR
    def _psnr():
        return qs.psnr(x, xref) if dr is None else qs.psnr(x, xref, dr)

    if equal:
        ok, p = out.call("psnr", _psnr)
        if ok:
            out.true("psnr:equal arrays => +inf", isinstance(p, float) and p == float("inf"), f"got {p!r}", value=p)
    elif window:
        ok, p = out.call("psnr", _psnr)
        if ok:
            fin = out.true("psnr:different arrays => finite", isinstance(p, float) and math.isfinite(p),
                           f"got {p!r} for arrays that differ (mse = {float(mse_ex):.3e})", value=p)
            if fin and (dr is not None or not const_ref):
                want = 10.0 * math.log10(float(rng_used * rng_used / mse_ex))
                bound = C_MET * ((10.0 / math.log(10.0)) * (n + 6) * U_ + 2 * U_ * abs(want))
                out.le("psnr:value = 10 log10(range^2 / mse)", abs(p - want), bound, f"got {p!r}, want {want!r}")
    # ---- PSNR of the same pair quantised to 8-bit / 16-bit unsigned integers, the way an image loader delivers them (the
    # difference of two unsigned arrays must not wrap around: psnr promotes to float64 before subtracting)
    if window and np.all(np.abs(x) < 1e6) and np.all(np.abs(xref) < 1e6):
        for dt, top in ((np.uint8, 255.0), (np.uint16, 65535.0)):
            x8 = (np.abs(np.rint(x * 16.0)) % (top + 1.0)).astype(dt)
            r8 = (np.abs(np.rint(xref * 16.0)) % (top + 1.0)).astype(dt)
            d8 = x8.astype(float) - r8.astype(float)
            site8 = f"psnr({np.dtype(dt).name} images)"
            h8 = (ahash(x8), ahash(r8))
            ok, p8 = out.call(site8, qs.psnr, x8, r8, top)
            if not ok:
                continue
            out.true(site8 + ":arguments unchanged", (ahash(x8), ahash(r8)) == h8, "an integer image was modified")
            mse8 = float(np.mean(d8 * d8))
            if mse8 == 0.0:
                out.true(site8 + ":equal arrays => +inf", isinstance(p8, float) and p8 == float("inf"), f"got {p8!r}")
            elif out.true(site8 + ":different arrays => finite", isinstance(p8, float) and math.isfinite(p8), f"got {p8!r}, mse {mse8:.3e}"):
                want8 = 10.0 * math.log10(top * top / mse8)
                out.le(site8 + ":value = 10 log10(range^2 / mse)", abs(p8 - want8), 1e-9 * max(1.0, abs(want8)), f"got {p8!r}, want {want8!r}")
    # ---- relative error
    if zero_ref:
        # documented: infinity if the reference norm is zero (checked as documented, not as a violation)
        ok, r = out.call("relative_error", qs.relative_error, x, xref)
        if ok:
            out.true("relative_error:zero reference => inf (documented)", isinstance(r, float) and r == float("inf"),
                     f"got {r!r}", value=r)
    elif equal and window:
        ok, r = out.call("relative_error", qs.relative_error, x, xref)
        if ok:
            out.true("relative_error:equal arrays => 0", isinstance(r, float) and r == 0.0, f"got {r!r}", value=r)
    elif window:
        ok, r = out.call("relative_error", qs.relative_error, x, xref)
        if ok:
            pos = out.true("relative_error:different arrays => finite and > 0",
                           isinstance(r, float) and math.isfinite(r) and r > 0.0,
                           f"got {r!r} for arrays that differ", value=r)
            if pos:
                want = ref.sqrt_fraction(mse_ex * n / ref_sq)
                out.le("relative_error:value = ||x-x_ref||/||x_ref||", abs(r - want),
                       C_NORM * (2 * n + 16) * U_ * want, f"got {r!r}, want {want!r}")
    out.true("arguments unchanged", ahash(x) == hx and ahash(xref) == hr, "metric modified its input")
    shp = xref.shape
    out.nontrivial = (shp[0] != shp[1]) and not zero_ref and window
    out.sample = {"shape": list(shp), "ref": rkind, "diff": dkind, "equal": equal}
    return out


# ----------------------------------------------------------------------------
# clause 6: add_awgn_snr

IMG_KINDS = ("generic", "generic", "colour", "colour", "sparse", "one_entry", "zero")


@st.composite
def awgn_cases(draw, tier):
    H, W = draw(st.integers(1, 8)), draw(st.integers(1, 8))
    kind = draw(st.sampled_from(IMG_KINDS))
    shape = (H, W, 4)
    if kind == "generic":
        v = draw(hnp.arrays(np.float64, shape, elements=gen.dyadic(0, 0, 160), fill=st.nothing()))
    elif kind == "colour":
        v = draw(hnp.arrays(np.float64, shape, elements=st.integers(0, 256).map(lambda k: k / 256.0), fill=st.nothing()))
        v[..., 0] = 0.0
    elif kind == "sparse":
        v = draw(hnp.arrays(np.float64, shape, elements=gen.dyadic(0, 0, 160), fill=st.nothing()))
        v = v * draw(hnp.arrays(np.bool_, (H, W, 1), elements=st.booleans(), fill=st.nothing()))
    elif kind == "one_entry":
        v = np.zeros(shape)
        v.reshape(-1)[draw(st.integers(0, v.size - 1))] = draw(gen.dyadic(0, 0, 160).filter(lambda t: t != 0.0))
    else:
        v = np.zeros(shape)
    e = draw(st.sampled_from([0, 0, 0, 0, -100, -30, -3, 3, 30, 100]))
    tile = draw(st.sampled_from([1, 1, 1, 4, 8]))
    snr_db = draw(st.one_of(st.integers(-30, 100).map(float), st.integers(-60, 200).map(lambda k: k / 2.0),
                            st.sampled_from([0.0, 10.0, 20.0, 30.0, 40.0])))
    seed = draw(gen.seeds())
    default_rng = draw(st.integers(0, 7)) == 0
    return {"Q": np.ascontiguousarray(v * 10.0 ** e), "kind": kind, "tile": tile, "snr_db": snr_db, "seed": seed,
            "default_rng": default_rng}


def check_awgn(case):
    qs = L.qslst
    base = np.asarray(case["Q"], dtype=float)
    t = int(case["tile"])
    Qi = np.ascontiguousarray(np.tile(base, (t, t, 1)))
    H, W, _ = Qi.shape
    snr_db = float(case["snr_db"])
    default_rng = bool(case["default_rng"])
    is_zero = not bool(np.any(Qi != 0.0))
    out = Out(tags=(f"kind={case['kind']}", "rng=None" if default_rng else "rng=seeded"))
    out.label(f"kind={case['kind']}", "rng=None" if default_rng else "rng=seeded",
              "snr<0" if snr_db < 0 else ("snr=0" if snr_db == 0 else "snr>0"), "tiled" if t > 1 else "small")
    h0 = ahash(Qi)
    rng = None if default_rng else np.random.default_rng(int(case["seed"]))
    if is_zero:
        ok, r = out.call("add_awgn_snr(zero image)", qs.add_awgn_snr, Qi, snr_db, rng)
        if ok:
            if out.true("add_awgn_snr:zero image shape", isinstance(r, np.ndarray) and r.shape == Qi.shape,
                        f"got {getattr(r, 'shape', None)}"):
                out.equal_bits("add_awgn_snr:zero image returned unchanged", r, Qi)
                out.true("add_awgn_snr:zero image returned as a copy", r is not Qi and not np.shares_memory(r, Qi),
                         "the input array itself (or a view of it) was returned")
        out.true("add_awgn_snr:argument unchanged", ahash(Qi) == h0, "input image modified")
        return out
    smax = float(np.max(np.abs(Qi)))
    Qn = Qi / smax
    P = float(np.sum(Qn * Qn))
    reps = int(math.ceil(N_POOL / Qi.size))
    tot = 0.0
    bad = False
    for rep in range(reps):
        ok, r = out.call("add_awgn_snr", qs.add_awgn_snr, Qi, snr_db, rng)
        if not ok:
            return out
        if not (isinstance(r, np.ndarray) and r.shape == Qi.shape and r.dtype == np.float64):
            out.true("add_awgn_snr:shape and dtype", False, f"got {getattr(r, 'shape', None)} {getattr(r, 'dtype', None)}")
            return out
        if r is Qi or np.shares_memory(r, Qi):
            bad = True
        nz = (r - Qi) / smax
        tot += float(np.sum(nz * nz))
    out.true("add_awgn_snr:result is a new array", not bad, "returned the input array / a view of it")
    out.true("add_awgn_snr:argument unchanged", ahash(Qi) == h0, "input image modified")
    if out.true("add_awgn_snr:noise was added", tot > 0.0 and math.isfinite(tot), f"pooled noise power {tot!r}"):
        realised = 10.0 * math.log10(reps * P / tot)
        sd = (10.0 / math.log(10.0)) * math.sqrt(2.0 / (reps * Qi.size))
        out.le("add_awgn_snr:realised SNR within 0.3 dB of the request", abs(realised - snr_db), SNR_TOL_DB,
               f"requested {snr_db} dB, realised {realised:.4f} dB over {reps * Qi.size} samples "
               f"(sampling sd {sd:.4f} dB)")
        out.sample = {"H": H, "W": W, "snr_db": snr_db, "realised_db": realised, "samples": reps * Qi.size}
    out.nontrivial = H != W
    return out


PROPERTY = Property(
    id="C18",
    title="Tensor unfold/fold and colour <-> quaternion mappings are lossless",
    rule=("tensor clauses: I, J, K pairwise distinct and all >= 2 (generated clause: additionally all I*J*K entries are "
          "pairwise distinct quaternions, so a misplaced fibre is visible); image clauses: H != W (colour: the three "
          "colour channels pairwise different and none equal to the constant real part; channels: four different "
          "channels; metrics: non-zero reference inside the magnitude window). Distinct = distinct input digest."),
    clauses=[
        Clause("tensor_exhaustive", check_tensor_enum, enumerate=enum_tensor, budget={"quick": 0, "thorough": 0}),
        Clause("tensor_generated", check_tensor_gen, strategy=tensor_cases, budget={"quick": 1000, "thorough": 10000}),
        Clause("tensor_moderate_size", check_tensor_gen, strategy=lambda tier: tensor_cases(tier, size=(6, 12 if tier == "quick" else 16)),
               budget={"quick": 40, "thorough": 400}, shrink=False),
        Clause("tensor_long_dimension", check_tensor_gen, strategy=long_tensor_cases, budget={"quick": 24, "thorough": 240},
               shrink=False),
        Clause("colour_roundtrip", check_colour, strategy=colour_cases, budget={"quick": 800, "thorough": 8000}),
        Clause("channels", check_channels, strategy=channel_cases, budget={"quick": 400, "thorough": 5000}),
        Clause("metrics", check_metrics, strategy=metric_cases, budget={"quick": 1600, "thorough": 12000}),
        Clause("awgn", check_awgn, strategy=awgn_cases, budget={"quick": 160, "thorough": 1600}),
    ],
    assumptions=[
        "numpy-quaternion dtype conversions (as_quat_array/as_float_array) are trusted",
        "unfolding convention = the one tensor.py documents: columns ordered by the C-order index of the two remaining "
        "axes taken in increasing axis order",
        "entries are (k/16)*10^e with |e| <= 100 so that squares and sums of squares are representable",
        "metrics: the 'differ => finite PSNR / non-zero error' direction and the value checks are asserted only when the "
        "non-zero entries of x_ref and x - x_ref lie in [1e-120, 1e120] and range^2/mse lies in [1e-290, 1e290] "
        "(outside, squares under/overflow); float64 inputs only (the module documents float arrays); a zero-norm "
        "reference is checked against the documented 'inf', a constant reference uses the code's data_range fallback 1.0 "
        "for the zero-consistency direction only",
        "add_awgn_snr: statistical clause, pooled over >= 2**18 samples, sd of the realised SNR 0.012 dB, window 0.3 dB "
        "(25 sigma); with rng=None the library draws OS entropy, so that sub-case is deterministic only in distribution",
    ],
    exhaustive_note=("tensor_exhaustive enumerates all 216 shapes in [1,6]^3 x 3 modes x 2 memory layouts (1296 cases) "
                     "with index-coded, pairwise distinct entries, compared exactly with the index-level definition"),
)
