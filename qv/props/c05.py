"""C05 - Q-SVD: true singular values, unitary factors, exact and optimal reconstruction."""
import numpy as np
from hypothesis import strategies as st

from .. import gen, ref
from ..core import Clause, Out, Property
from ..env import L
from ..lib import F, Q, ahash

U_ = ref.U
C_SV = 100.0
C_ORTH = 200.0
C_REC = 1000.0
REP_REL = 1e-6      # singular values closer than this (relative to sigma_1) count as one repeated value
NEAR_REL = 0.05     # non-zero singular values closer than this (relative) but not merged: "near-repeated"
RANK_REL = 1e-10


@st.composite
def svd_cases(draw, tier, size=None):
    lo, hi = size or (1, 6 if tier == "quick" else 8)
    m, n = draw(st.integers(lo, hi)), draw(st.integers(lo, hi))
    m, n = draw(gen.maybe_high_aspect(m, n))
    k = min(m, n)
    src = draw(st.sampled_from(["spectrum", "spectrum", "spectrum", "pattern", "zero", "hermitian", "diagonal",
                                "one_signed", "near_coordinate_column"]))
    if src == "one_signed":
        # every real component of every entry has the same sign (negated non-negative data, or all positive)
        A = (np.abs(draw(gen.qarray(m, n, draw(st.sampled_from(["generic", "int"]))))[0]) + 0.125) * draw(st.sampled_from([-1.0, -1.0, 1.0]))
        kind = "pattern:one_signed"
        src = "done"
    elif src == "near_coordinate_column":
        # one more row than columns (or the transpose) and a column that is a coordinate vector up to 1e-13 .. 1e-8:
        # the single completion column of the full factor is nearly a coordinate vector's complement
        n = max(1, min(n, 6))
        m = n + 1
        k = n
        A = draw(gen.qarray(m, n, "generic"))[0].copy()
        j = draw(st.integers(0, m - 1))
        d_ = draw(st.sampled_from([1e-13, 1e-12, 1e-10, 1e-9, 1e-8]))
        A[:, 0] = A[:, 0] * d_
        A[j, 0] = [draw(st.sampled_from([1.0, 2.0, 0.5])), 0.0, 0.0, 0.0]
        if draw(st.booleans()):
            A = np.ascontiguousarray(ref.conjT(A))
            m, n = n, m
        kind = "near_coordinate_column"
        src = "done"
    if src == "done":
        pass
    elif src == "hermitian":
        # exactly Hermitian with eigenvalues of both signs and distinct moduli (sigma_i = |lambda_i|, simple)
        m = n
        k = n
        mods = draw(st.lists(st.integers(1, 64), min_size=n, max_size=n, unique=True))
        sg = draw(st.lists(st.sampled_from([1.0, -1.0]), min_size=n, max_size=n))
        if n >= 2 and all(x > 0 for x in sg):
            sg[0] = -1.0
        A = draw(gen.hermitian_with_spectrum(n, [a * b / 8.0 for a, b in zip(mods, sg)]))
        kind = "hermitian_indefinite"
    elif src == "diagonal":
        # exactly diagonal (square or rectangular), unsorted distinct moduli with quaternion phases: the sorting
        # permutation is generic (cycles of length >= 3)
        mods = draw(st.lists(st.integers(1, 64), min_size=k, max_size=k, unique=True))
        A = np.zeros((m, n, 4))
        for i in range(k):
            A[i, i] = draw(gen.unit_q(exact=True)) * (mods[i] / 8.0)
        kind = "diagonal_unsorted"
    elif src == "spectrum":
        s, skind = draw(gen.spectrum(k, scale_exp=(-3, 3)))
        A = draw(gen.matrix_with_svals(m, n, s))
        kind = "spectrum:" + skind
    elif src == "pattern":
        A, pat = draw(gen.qarray(m, n, draw(st.sampled_from(["generic", "int", "pure_imag", "sparse", "axis", "unit"]))))
        kind = "pattern:" + pat
    else:
        A = np.zeros((m, n, 4))
        kind = "zero"
    R = draw(st.integers(1, k))
    # overall magnitude: the property is scale free, absolute thresholds in the code are not
    e = draw(st.sampled_from([0, 0, 0, 0, -20, -13, -8, 8, 13, -100, 100]))
    return {"A": np.ascontiguousarray(A * 10.0 ** e), "kind": kind, "R": R, "scale_exp": e}


@st.composite
def completion_cases(draw, tier):
    """Dense Gaussian (PRNG) non-square inputs of the shapes where the full factors' completion columns are reliable
    in the clean library (see check_svd): |m - n| >= 2 and 4 max >= floor(11/6 * 4 min)."""
    small = draw(st.integers(1, 12 if tier == "quick" else 20))
    lo = max(small + 2, -(-int(4 * small * 11 / 6) // 4))
    big = draw(st.integers(lo, lo + (12 if tier == "quick" else 24)))
    rng = np.random.RandomState(draw(gen.seeds()))
    A = rng.standard_normal((big, small, 4))
    if draw(st.booleans()):
        A = np.ascontiguousarray(np.swapaxes(A, 0, 1))
    e = draw(st.sampled_from([0, 0, 0, -8, 8, -100, 100]))
    return {"A": np.ascontiguousarray(A * 10.0 ** e), "kind": "gaussian_dense", "R": draw(st.integers(1, small)),
            "scale_exp": e, "gaussian_dense": True}


@st.composite
def long_svd_cases(draw, tier):
    """One long dimension (crossing the blocking sizes) against <= 3; generic full-rank entries."""
    Lg, sh = draw(gen.long_dim(cap=257 if tier == "quick" else 520)), draw(st.integers(1, 3))
    A, pat = draw(gen.long_qarray(Lg, sh, draw(st.sampled_from(["generic", "int"]))))
    if draw(st.booleans()):
        A = np.ascontiguousarray(np.swapaxes(A, 0, 1))
    e = draw(st.sampled_from([0, 0, -8, 8]))
    return {"A": np.ascontiguousarray(A * 10.0 ** e), "kind": "pattern:" + pat, "R": draw(st.integers(1, sh)), "scale_exp": e}


def classify(sref, m, n):
    """Input classes from the reference spectrum of the INPUT (never from the outcome)."""
    k = len(sref)
    s1 = float(sref[0]) if k and sref[0] > 0 else 0.0
    if s1 == 0.0:
        rank = 0
        nzv = np.zeros(0)
    else:
        nzv = sref[sref > RANK_REL * s1]
        rank = len(nzv)
    rep = bool(any(abs(nzv[i] - nzv[i + 1]) <= REP_REL * s1 for i in range(len(nzv) - 1)))
    # smallest gap between values that are NOT merged into one repeated value, including the gap to zero
    gaps = [abs(nzv[i] - nzv[i + 1]) for i in range(len(nzv) - 1) if abs(nzv[i] - nzv[i + 1]) > REP_REL * s1]
    if rank:
        gaps.append(float(nzv[-1]))
    g = min(gaps) if gaps else (s1 if s1 > 0 else 1.0)
    near = bool(any(REP_REL * s1 < abs(nzv[i] - nzv[i + 1]) <= NEAR_REL * s1 for i in range(len(nzv) - 1)))
    return {"rank": rank, "rep": rep, "near": near, "gap": float(g), "s1": s1,
            "left_null": m - rank, "right_null": n - rank}


def check_svd(case):
    A, R = case["A"], case["R"]
    m, n, _ = A.shape
    k = min(m, n)
    out = Out()
    sref = ref.svals(A)
    c = classify(sref, m, n)
    an = ref.fro(A)
    out.label(case["kind"], "tall" if m > n else ("wide" if m < n else "square"))
    if c["rep"]:
        out.label("repeated_nonzero_sv")
    if c["left_null"] >= 2:
        out.label("left_nullity>=2")
    if c["right_null"] >= 2:
        out.label("right_nullity>=2")
    if c["rank"] < k:
        out.label("rank_deficient")
    amp = max(1.0, c["s1"] / c["gap"]) if c["s1"] > 0 else 1.0
    Aq = Q(A)
    h0 = ahash(Aq)

    # Known finding KF-C05-1 (columns reaching into a null space of dimension >= 2 are not orthonormal) does NOT occur
    # for DENSE FULL-RANK inputs of the shapes where LAPACK's gesdd takes its QR-first path, 4 max(m,n) >=
    # floor(11/6 * 4 min(m,n)): there the trailing columns come out quaternion-structured and the clean library is
    # orthonormal to u*cond (12000 random inputs up to 40 x 40, cond up to 1e12, scales 1e+-100: no exception).  That
    # class is judged without exemption, so the completion columns of the full factors are not a blind spot.
    big, small = max(m, n), min(m, n)
    # (Dense is not enough: a 6 x 2 product of two reflectors and a diagonal fails in the clean library, so the class is
    # restricted to the PRNG-Gaussian inputs of the clause qsvd_full_completion_columns, which is what was validated.)
    null_cols_reliable = bool(case.get("gaussian_dense")) and c["rank"] == k and 4 * big >= int(4 * small * 11 / 6)
    if abs(m - n) >= 2 and null_cols_reliable:
        out.label("full_factor_completion_columns_judged")

    def orth_tags(side, ncols):
        t = []
        if c["rep"]:
            t.append("rep_nonzero")
        null = c["left_null"] if side == "U" else c["right_null"]
        if null >= 2 and ncols > c["rank"] and not null_cols_reliable:
            t.append("multi_null_columns")
        return tuple(t)

    rec_tags = (("rep_nonzero",) if c["rep"] else ()) + (("near_repeated_nonzero",) if c["near"] else ())
    amp_rec = 1.0 if (c["rep"] or c["near"]) else min(amp, 1.0 / NEAR_REL)
    if c["near"]:
        out.label("near_repeated_nonzero_sv")
    # ---- full decomposition
    ok, r = out.call("classical_qsvd_full", L.qsvd.classical_qsvd_full, Aq)
    if ok:
        Uf, s, Vf = F(r[0]), np.asarray(r[1], dtype=float), F(r[2])
        site = "classical_qsvd_full"
        if out.true(site + ":shapes", Uf.shape == (m, m, 4) and Vf.shape == (n, n, 4) and s.shape == (k,),
                    f"U {Uf.shape} s {s.shape} V {Vf.shape}") and out.true(
                site + ":finite", np.all(np.isfinite(Uf)) and np.all(np.isfinite(Vf)) and np.all(np.isfinite(s))):
            out.true(site + ":s non-negative", np.all(s >= 0), f"min {s.min() if k else 0}")
            out.true(site + ":s non-increasing", np.all(np.diff(s) <= 0) if k > 1 else True, f"{s}")
            out.le(site + ":s equals true singular values", float(np.max(np.abs(s - sref))) if k else 0.0,
                   C_SV * (m + n) * U_ * c["s1"] + 1e-300 * (c["s1"] == 0))
            out.le(site + ":U orthonormal", ref.unitarity_defect(Uf), C_ORTH * (m + n) * U_ * amp, tags=orth_tags("U", m))
            out.le(site + ":V orthonormal", ref.unitarity_defect(Vf), C_ORTH * (m + n) * U_ * amp, tags=orth_tags("V", n))
            rec = ref.qmm(ref.qmm(Uf, ref.diag_q(s, m, n)), ref.conjT(Vf))
            # stated tolerance: rounding times the conditioning sigma_1/gap of the singular subspaces, which is <= 20 outside
            # the near-repeated class (relative gap < 0.05) that known finding KF-C05-2 covers
            out.le(site + ":A = U S V^H", ref.fro(A - rec), C_REC * (m + n) * U_ * an * amp_rec + 1e-300 * (an == 0),
                   tags=rec_tags)
            if c["near"] and not c["rep"]:
                # inside the known-finding class KF-C05-2 the error follows u*||A||*sigma_1/gap; far beyond that law it is
                # a different defect (no exemption for this site)
                out.le(site + ":A = U S V^H up to the u*sigma_1/gap law", ref.fro(A - rec),
                       C_REC * (m + n) * U_ * an * amp + 1e-300 * (an == 0), f"sigma_1/gap={amp:.2e}", tags=())
    # ---- truncated decomposition
    ok, r = out.call("classical_qsvd", L.qsvd.classical_qsvd, Aq, R)
    if ok:
        Uf, s, Vf = F(r[0]), np.asarray(r[1], dtype=float), F(r[2])
        site = "classical_qsvd(R)"
        if out.true(site + ":shapes", Uf.shape == (m, R, 4) and Vf.shape == (n, R, 4) and s.shape == (R,),
                    f"U {Uf.shape} s {s.shape} V {Vf.shape} R={R}") and out.true(
                site + ":finite", np.all(np.isfinite(Uf)) and np.all(np.isfinite(Vf)) and np.all(np.isfinite(s))):
            out.le(site + ":s equals leading singular values", float(np.max(np.abs(s - sref[:R]))),
                   C_SV * (m + n) * U_ * c["s1"] + 1e-300 * (c["s1"] == 0))
            out.le(site + ":U_R orthonormal columns", ref.unitarity_defect(Uf), C_ORTH * (m + n) * U_ * amp,
                   tags=orth_tags("U", R))
            out.le(site + ":V_R orthonormal columns", ref.unitarity_defect(Vf), C_ORTH * (m + n) * U_ * amp,
                   tags=orth_tags("V", R))
            rec = ref.qmm(ref.scale_cols(Uf, s), ref.conjT(Vf))
            err2 = ref.fro(A - rec) ** 2
            opt2 = float(np.sum(sref[R:] ** 2))
            slack = 1e3 * (m + n) * U_ * an * an * amp_rec + 1e-300 * (an == 0)
            rt = rec_tags
            out.le(site + ":Eckart-Young (error not above optimum)", err2, opt2 * (1 + 1e-9) + slack,
                   f"err^2={err2:.6e} opt^2={opt2:.6e} R={R}", tags=rt)
            out.le(site + ":Eckart-Young (error not below optimum)", opt2 * (1 - 1e-9) - slack, err2,
                   f"err^2={err2:.6e} opt^2={opt2:.6e} R={R}", tags=rt)
    out.true("argument unchanged", ahash(Aq) == h0, "input modified")
    if case.get("scale_exp"):
        out.label("scaled")
    # ---- same buffer, new contents: the result must depend on the argument's VALUE, not on its identity
    A2 = 0.5 * A[::-1, ::-1].copy() + ref.conj(A) * 0.25
    sref2 = ref.svals(A2)
    Aq[...] = Q(A2)
    ok, r = out.call("classical_qsvd_full(reused buffer)", L.qsvd.classical_qsvd_full, Aq)
    if ok:
        s2 = np.asarray(r[1], dtype=float)
        s12 = float(sref2[0]) if k else 0.0
        if out.true("classical_qsvd_full(reused buffer):shape", s2.shape == (k,), f"{s2.shape}"):
            out.le("classical_qsvd_full(reused buffer):s equals true singular values of the NEW contents",
                   float(np.max(np.abs(s2 - sref2))) if k else 0.0, C_SV * (m + n) * U_ * s12 + 1e-300 * (s12 == 0))
    ok, r = out.call("classical_qsvd(reused buffer)", L.qsvd.classical_qsvd, Aq, R)
    if ok:
        s2 = np.asarray(r[1], dtype=float)
        s12 = float(sref2[0]) if k else 0.0
        if out.true("classical_qsvd(reused buffer):shape", s2.shape == (R,), f"{s2.shape}"):
            out.le("classical_qsvd(reused buffer):s equals leading singular values of the NEW contents",
                   float(np.max(np.abs(s2 - sref2[:R]))), C_SV * (m + n) * U_ * s12 + 1e-300 * (s12 == 0))
    out.nontrivial = k >= 2 and (c["rep"] or (k - c["rank"]) >= 2 or m != n)
    out.sample = {"shape": [m, n], "R": R, "kind": case["kind"], "rank": c["rank"], "repeated": c["rep"],
                  "sref": [float(x) for x in sref]}
    return out


# ----------------------------------------------------------------------------
# clause: extreme overall magnitudes (1e+-160 .. 1e+-250).  The singular values are representable there although their
# squares are not, so any step that squares, averages squares or takes a Frobenius norm of the data overflows or
# underflows in the middle.  The library sees A * 2^p; the oracle works on A itself (scaling by a power of two is exact).


@st.composite
def extreme_scale_cases(draw, tier):
    m = draw(st.integers(1, 7))
    n = draw(st.integers(1, 7))
    rng = np.random.RandomState(draw(gen.seeds()))
    A = rng.standard_normal((m, n, 4))
    e10 = draw(st.sampled_from([-250, -200, -160, 160, 200, 250]))
    return {"A": np.ascontiguousarray(A), "p": int(round(e10 * np.log2(10.0))), "R": draw(st.integers(1, min(m, n)))}


def check_extreme_scale(case):
    A, p, R = case["A"], case["p"], case["R"]
    m, n, _ = A.shape
    k = min(m, n)
    out = Out()
    out.label("up" if p > 0 else "down")
    sref = ref.svals(A)
    c = classify(sref, m, n)
    s1 = float(sref[0])
    Ab = np.ldexp(A, p)
    Aq = Q(Ab)
    for site, fn, args in (("classical_qsvd_full(extreme scale)", L.qsvd.classical_qsvd_full, (Aq,)),
                           ("classical_qsvd(extreme scale)", L.qsvd.classical_qsvd, (Aq, R))):
        ok, r = out.call(site, fn, *args)
        if not ok:
            continue
        s = np.asarray(r[1], dtype=float)
        kk = k if fn is L.qsvd.classical_qsvd_full else R
        if not out.true(site + ":shape", s.shape == (kk,), f"{s.shape}"):
            continue
        if not out.true(site + ":s finite", bool(np.all(np.isfinite(s))), f"{s}"):
            continue
        sb = np.ldexp(s, -p)
        out.le(site + ":s equals true singular values", float(np.max(np.abs(sb - sref[:kk]))), C_SV * (m + n) * U_ * s1,
               f"s/2^p={sb[:4]} sigma={sref[:4]}")
        Uf, Vf = F(r[0]), F(r[2])
        if not out.true(site + ":factors finite", bool(np.all(np.isfinite(Uf)) and np.all(np.isfinite(Vf))), "NaN/inf in U or V"):
            continue
        if fn is L.qsvd.classical_qsvd and not (c["rep"] or c["near"]):
            rec = ref.qmm(ref.scale_cols(Uf[:, :kk], sb), ref.conjT(Vf[:, :kk]))
            err2 = ref.fro(A - rec) ** 2
            opt2 = float(np.sum(sref[kk:] ** 2))
            amp = max(1.0, c["s1"] / c["gap"])
            slack = C_REC * (m + n) * U_ * min(amp, 1.0 / NEAR_REL) * s1 * s1
            out.le(site + ":Eckart-Young (error not above optimum)", err2, opt2 * (1 + 1e-9) + slack, f"err^2={err2:.3e} opt^2={opt2:.3e}")
    out.nontrivial = k >= 2
    out.sample = {"shape": [m, n], "p": p, "R": R}
    return out


PROPERTY = Property(
    id="C05",
    title="Q-SVD: true singular values, unitary factors, exact and optimal reconstruction",
    rule="min(m,n) >= 2 and (a repeated non-zero singular value, or >= 2 zero singular values, or m != n)",
    clauses=[Clause("qsvd", check_svd, strategy=svd_cases, budget={"quick": 1500, "thorough": 20000}),
             Clause("qsvd_full_completion_columns", check_svd, strategy=completion_cases,
                    budget={"quick": 120, "thorough": 2000}, shrink=False),
             Clause("qsvd_moderate_size", check_svd, strategy=lambda tier: svd_cases(tier, size=(9, 20 if tier == "quick" else 40)),
                    budget={"quick": 40, "thorough": 400}, shrink=False),
             Clause("qsvd_long_dimension", check_svd, strategy=long_svd_cases, budget={"quick": 32, "thorough": 320},
                    shrink=False),
             Clause("qsvd_extreme_scale", check_extreme_scale, strategy=extreme_scale_cases, budget={"quick": 60, "thorough": 800})],
    assumptions=[
        "reference singular values from LAPACK on the harness's complex adjoint",
        "orthonormality tolerance scales with sigma_1/gap (singular vectors are only determined to u*||A||/gap); values "
        "closer than 1e-6*sigma_1 count as one repeated value",
        "input classes (repeated non-zero value; >= 2-dimensional null space touched by the returned columns) are computed "
        "from the reference spectrum of the input, never from the outcome",
    ],
)
