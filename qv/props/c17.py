"""C17 - QSLST restoration solves the Tikhonov normal equations of the documented blur.

Oracle (independent of the library): the *definition* of centred periodic convolution

    y[r, s] = sum_{du,dv} psf[du, dv] * x[(r - (du - cH)) mod H, (s - (dv - cW)) mod W],
    (cH, cW) = (kH // 2, kW // 2)                       (centre tap = "middle tap")

written with explicit index arithmetic (`conv_def`), the N x N matrix `a_def` built from
the same definition by scattering taps (row-major vec), LAPACK (svd / solve) on that
matrix, and extended-precision (np.longdouble) residual evaluation.  numpy.fft is never
used by the oracle.

Tolerances (u = 2^-53, N = H*W, K = kH*kW, s = sum|psf|, lg = log2(N) + 2):

* pure data movement (matrix builders, channel independence/permutation): bit-for-bit;
* blur:  an FFT of length N has normwise error <= c*u*log2(N)*||x||_2 and |H_hat| <= s, so
  ||fl(ifft(fft(x) * H_hat)) - y|| <= (C_FFT*lg + K)*u*s*||x||  (the K*u*s*||x|| term covers the rounding
  of the K-term loop oracle itself);
* FFT restoration, normal-equation residual (backward form, no condition number): in the
  frequency domain the residual is (|H|^2+lam) * dX_hat; the error of fft(B) enters multiplied by
  conj(H) (<= s), the error of H_hat enters as dH * B_hat * O(1) (<= u*lg*s*||B||) and the final
  ifft error enters multiplied by ||T|| <= s^2+lam:
      ||T X - A^T B|| <= C_NE*u*lg*( s*||B|| + (s^2+lam)*||X|| );
* forward comparisons between two solution paths (FFT vs LAPACK solve, FFT vs pinv path):
      ||X1 - X2|| <= C_FWD*u*(lg+N)*( s*||B||/(smin^2+lam) + cond(T)*||X|| ),
  i.e. the residual-level errors amplified by ||T^-1|| = 1/(smin^2+lam) (smin/smax = extreme
  singular values of a_def from LAPACK);
* matrix path (explicit pinv, not backward stable):  ||T X - A^T B|| <= C_MAT*N*u*cond(T)*(||E|| + ||T|| ||X||);
* linearity (lam > 0): the three calls apply the *same* computed filter G with |G| <= 1/(2 sqrt(lam))
  for ANY kernel placement, so the defect of linearity is pure FFT rounding:
      <= C_LIN*u*lg*(1/(2 sqrt(lam)))*(|a| ||B1|| + |b| ||B2|| + ||a B1 + b B2||);
* lam = 0 on invertible blurs: X_hat = B_hat/H_hat, relative errors u*lg*(s/smin) from B_hat, H_hat:
      ||X - X_true|| <= C_INV*u*(lg+K)*(s/smin)^2*||X_true||   (one extra factor s/smin of headroom);
  matrix path with lam = 0: pinv(A^T A) has forward error N*u*cond(A)^2, bound 4*C_INV*u*N*(s/smin)^4*||X_true||.
"""
import math

import numpy as np
from hypothesis import strategies as st
from hypothesis.extra import numpy as hnp

from .. import gen, ref
from ..core import Clause, Out, Property
from ..env import L, load_app_deblur
from ..lib import ahash

U_ = ref.U
LD = np.longdouble
U_LD = float(np.finfo(LD).eps)      # 1.08e-19 on x86-64; 2.2e-16 where longdouble == double

C_FFT = 200.0
C_NE = 200.0
C_FWD = 400.0
C_MAT = 300.0
C_LIN = 200.0
C_INV = 300.0

TAG_MIS = "psf_tap_before_centre_in_dim_smaller_than_image"
TAG_ASYM = "psf_not_point_symmetric"

# ----------------------------------------------------------------------------
# reference model: centred periodic convolution from its definition


def centred_pad(psf, H, W):
    """h (H x W) with h[(du-cH) mod H, (dv-cW) mod W] += psf[du, dv]: the kernel that an
    impulse at (0,0) is mapped to."""
    kH, kW = psf.shape
    cH, cW = kH // 2, kW // 2
    h = np.zeros((H, W))
    for du in range(kH):
        for dv in range(kW):
            h[(du - cH) % H, (dv - cW) % W] += psf[du, dv]
    return h


def conv_def(X, psf, dtype=float):
    """Centred periodic convolution of every channel of X (H,W,C) with psf, by definition."""
    X = np.asarray(X, dtype=dtype)
    H, W = X.shape[:2]
    kH, kW = psf.shape
    cH, cW = kH // 2, kW // 2
    Y = np.zeros(X.shape, dtype=dtype)
    rows = np.arange(H)
    cols = np.arange(W)
    for du in range(kH):
        rr = (rows - (du - cH)) % H
        for dv in range(kW):
            w = psf[du, dv]
            if w == 0.0:
                continue
            cc = (cols - (dv - cW)) % W
            Y += dtype(w) * X[rr][:, cc]
    return Y


def a_def(psf, H, W):
    """N x N matrix of the same operator on row-major vec: input pixel (i,j) contributes
    psf[du,dv] to output pixel ((i+du-cH) mod H, (j+dv-cW) mod W)."""
    kH, kW = psf.shape
    cH, cW = kH // 2, kW // 2
    N = H * W
    A = np.zeros((N, N))
    for i in range(H):
        for j in range(W):
            c = i * W + j
            for du in range(kH):
                r0 = ((i + du - cH) % H) * W
                for dv in range(kW):
                    A[r0 + (j + dv - cW) % W, c] += psf[du, dv]
    return A


def psf_class(psf, H, W):
    """Input-class tags and labels of a PSF relative to an H x W image (from the input alone)."""
    kH, kW = psf.shape
    cH, cW = kH // 2, kW // 2
    nz = psf != 0.0
    tags = []
    # a non-zero tap with a negative offset in a dimension where the kernel is strictly smaller
    # than the image: exactly the taps that "roll inside the kernel frame" would misplace
    if (kH < H and nz[:cH, :].any()) or (kW < W and nz[:, :cW].any()):
        tags.append(TAG_MIS)
    h = centred_pad(psf, H, W)
    flip = h[(-np.arange(H)) % H][:, (-np.arange(W)) % W]
    asym = not np.array_equal(h, flip)
    if asym:
        tags.append(TAG_ASYM)       # correlation != convolution
    labels = []
    smaller = kH < H or kW < W
    even = kH % 2 == 0 or kW % 2 == 0
    labels.append("kernel<image" if smaller else "kernel=image")
    if even:
        labels.append("even_kernel")
    if kH == 1 and kW == 1:
        labels.append("kernel_1x1")
    if asym:
        labels.append("asymmetric")
    if kH != kW:
        labels.append("nonsquare_kernel")
    if H != W:
        labels.append("nonsquare_image")
    if H == 1 or W == 1:
        labels.append("image_1d")
    nontrivial = smaller and (asym or even)
    return tags, labels, nontrivial


def lg(N):
    return math.log2(max(N, 1)) + 2.0


def fro(x):
    return float(np.sqrt(np.sum(np.asarray(x, dtype=float) ** 2)))


def spectrum(A):
    sv = np.linalg.svd(A, compute_uv=False)
    return float(sv[0]), float(sv[-1])


_APP = {}


def app():
    """The deblurring application script (lazy, once per worker process)."""
    if "m" not in _APP:
        _APP["m"] = load_app_deblur()
    return _APP["m"]


# ----------------------------------------------------------------------------
# generators


def kdim(n):
    """Kernel extent in a dimension of image extent n: any size 1..n, with the full size, sizes >= 2 and
    even sizes over-represented (the 1x1 kernel is the uninteresting corner)."""
    opts = [st.integers(1, n), st.just(n)]
    if n >= 2:
        opts.append(st.integers(2, n))
        opts.append(st.integers(2, n))
        opts.append(st.sampled_from([k for k in range(2, n + 1, 2)]))   # even sizes
    return st.one_of(*opts)


def _farr(shape, elements):
    return hnp.arrays(np.float64, shape, elements=elements, fill=st.nothing())


SIGMAS = [0.5, 0.75, 1.0, 1.5, 2.0, 3.0, 0.3, 5.0]
ANGLES = [0.0, 90.0, 45.0, 135.0, 30.0, 60.0, 120.0, 150.0, 180.0, -45.0, 17.0, 200.0, 270.0, 315.0]
EPSILONS = [1.0 / 16, 1.0 / 8, 1.0 / 4, 0.3]


@st.composite
def psf_spec(draw, H, W, kinds):
    """A PSF no larger than the image, as a JSON-encodable spec (library builders are called in the check)."""
    kind = draw(st.sampled_from(kinds))
    mn = min(H, W)
    if mn < 3 and kind in ("gaussian", "motion"):
        kind = "nonneg"          # the builders can only return the 1x1 kernel there (covered by kdim)
    if kind == "gaussian":
        rmax = (mn - 1) // 2
        r = draw(st.one_of(st.integers(0, rmax), st.integers(min(1, rmax), rmax), st.just(rmax)))
        sig = draw(st.one_of(st.sampled_from(SIGMAS), st.integers(5, 80).map(lambda k: k / 16.0)))
        return {"kind": kind, "radius": r, "sigma": sig}
    if kind == "motion":
        lens = [ln for ln in range(1, mn + 1) if (ln if ln % 2 else ln + 1) <= mn]
        ln = draw(st.one_of(st.sampled_from(lens), st.sampled_from(lens[-2:])))
        ang = draw(st.one_of(st.sampled_from(ANGLES), st.integers(-180, 360).map(float),
                             st.integers(-2880, 5760).map(lambda k: k / 16.0)))
        return {"kind": kind, "length": ln, "angle": ang}
    kH = draw(kdim(H))
    kW = draw(kdim(W))
    if kind == "one_tap":
        P = np.zeros((kH, kW))
        P[draw(st.integers(0, kH - 1)), draw(st.integers(0, kW - 1))] = draw(st.sampled_from([1.0, 1.0, 0.5, 2.0]))
        return {"kind": kind, "psf": P}
    # non-negative integer weights, optionally sparse, at least one positive
    Wt = draw(_farr((kH, kW), st.integers(0, 8).map(float)))
    if draw(st.booleans()):
        Wt = Wt * draw(hnp.arrays(np.bool_, (kH, kW), elements=st.booleans(), fill=st.nothing()))
    if not Wt.any():
        Wt[draw(st.integers(0, kH - 1)), draw(st.integers(0, kW - 1))] = 1.0
    if kind == "nonneg":                      # arbitrary non-negative (asymmetric), unit sum
        return {"kind": kind, "psf": Wt / Wt.sum()}
    if kind == "nonneg_raw":                  # dyadic weights, not normalised (mass = sum psf)
        return {"kind": kind, "psf": Wt / 16.0}
    if kind == "delta_dominant":              # (1-eps)*delta_centre + eps*r,  |H_hat| >= 1-2eps
        eps = draw(st.sampled_from(EPSILONS))
        P = eps * (Wt / Wt.sum())
        P[kH // 2, kW // 2] += 1.0 - eps
        return {"kind": kind, "psf": P, "eps": eps}
    raise ValueError(kind)


ALL_KINDS = ("gaussian", "gaussian", "motion", "motion", "motion", "nonneg", "nonneg", "nonneg", "nonneg",
             "nonneg_raw", "delta_dominant", "delta_dominant", "one_tap", "one_tap")
INVERTIBLE_KINDS = ("delta_dominant", "delta_dominant", "delta_dominant", "one_tap", "nonneg", "gaussian", "motion")

IMG_PATTERNS = ("generic", "generic", "generic", "int", "int", "sparse", "pure_imag", "axis", "unit", "unit",
                "scaled", "const", "zero")


@st.composite
def image(draw, H, W, patterns=IMG_PATTERNS):
    pat = draw(st.sampled_from(patterns))
    if pat == "const":
        q = draw(_farr((4,), gen.dyadic(0, 0, 64)))
        return np.ascontiguousarray(np.broadcast_to(q, (H, W, 4))), pat
    A, pat = draw(gen.qarray(H, W, pat, -3, 3))
    return A, pat


LAMBDAS = [10.0, 1.0, 0.5, 0.1, 1e-2, 1e-3, 1e-4, 1e-6, 2.0, 5.0]


def lam_pos():
    return st.one_of(st.sampled_from(LAMBDAS), st.integers(1, 160).map(lambda k: k / 16.0))


def img_dim(tier):
    """Image extent 1..8 (quick) / 1..10 (thorough); extents 1 and 2 are kept but not dominant."""
    hi = 8 if tier == "quick" else 10
    return st.one_of(st.integers(1, hi), st.integers(3, hi), st.integers(3, hi))


@st.composite
def base_case(draw, tier, kinds=ALL_KINDS, with_lam=True, patterns=IMG_PATTERNS):
    H = draw(img_dim(tier))
    W = draw(st.one_of(img_dim(tier), img_dim(tier), st.just(H)))
    case = {"H": H, "W": W, "psf": draw(psf_spec(H, W, kinds))}
    X, pat = draw(image(H, W, patterns))
    case["X"] = X
    case["pattern"] = pat
    if with_lam:
        case["lam"] = draw(lam_pos())
    return case


@st.composite
def long_base_case(draw, tier, with_lam=True):
    """Thin images: one long extent (crossing the blocking sizes / FFT-friendly and -unfriendly lengths) against <= 3;
    kernels small in the long direction, or as long as the image."""
    Lg = draw(gen.long_dim(cap=129 if tier == "quick" else 300))
    sh = draw(st.integers(1, 3))
    H, W = (Lg, sh) if draw(st.booleans()) else (sh, Lg)
    kl = draw(st.sampled_from([1, 2, 3, 4, 5, 8, Lg]))
    ks = draw(kdim(sh))
    kH, kW = (kl, ks) if H == Lg else (ks, kl)
    rng = np.random.RandomState(draw(gen.seeds()))
    Wt = rng.randint(0, 9, size=(kH, kW)).astype(float)
    if draw(st.booleans()):
        Wt = Wt * (rng.rand(kH, kW) < 0.5)
    if not Wt.any():
        Wt[kH // 2, kW // 2] = 1.0
    kind = draw(st.sampled_from(["nonneg", "nonneg_raw", "delta_dominant"]))
    if kind == "nonneg":
        spec = {"kind": kind, "psf": Wt / Wt.sum()}
    elif kind == "nonneg_raw":
        spec = {"kind": kind, "psf": Wt / 16.0}
    else:
        eps = draw(st.sampled_from(EPSILONS))
        P = eps * (Wt / Wt.sum())
        P[kH // 2, kW // 2] += 1.0 - eps
        spec = {"kind": kind, "psf": P, "eps": eps}
    X, pat = draw(gen.long_qarray(H, W, draw(st.sampled_from(["generic", "int", "sparse"]))))
    case = {"H": H, "W": W, "psf": spec, "X": X, "pattern": pat, "perm": [1, 2, 3, 0]}
    if with_lam:
        case["lam"] = draw(lam_pos())
    return case


# ----------------------------------------------------------------------------
# shared pieces of the checks


def get_psf(case, out):
    """Materialise the PSF of a case (library builders inside out.call); None if unusable."""
    spec = case["psf"]
    kind = spec["kind"]
    H, W = case["H"], case["W"]
    if kind == "gaussian":
        ok, psf = out.call("build_psf_gaussian", L.qslst.build_psf_gaussian, spec["radius"], spec["sigma"])
        want = (2 * spec["radius"] + 1,) * 2
    elif kind == "motion":
        ok, psf = out.call("build_psf_motion", L.qslst.build_psf_motion, spec["length"], spec["angle"])
        want = None
    else:
        ok, psf, want = True, np.array(spec["psf"], dtype=float), None
    if not ok:
        return None
    good = (isinstance(psf, np.ndarray) and psf.ndim == 2 and psf.dtype == np.float64 and psf.size > 0
            and bool(np.all(np.isfinite(psf))) and (want is None or psf.shape == want)
            and psf.shape[0] <= H and psf.shape[1] <= W)
    if not out.true(f"build_psf_{kind}:usable kernel no larger than the image" if kind in ("gaussian", "motion")
                    else "generated psf usable", good,
                    f"psf builder returned {type(psf).__name__} shape={getattr(psf, 'shape', None)} for image {H}x{W}"):
        return None
    tags, labels, nontriv = psf_class(psf, H, W)
    out.tags = tuple(tags)
    out.label("psf:" + kind, *labels)
    out.nontrivial = nontriv
    return psf


def img_ok(site, out, Y, shape):
    return out.true(f"{site}:returns a finite float (H,W,4) array",
                    isinstance(Y, np.ndarray) and Y.shape == tuple(shape) and Y.dtype == np.float64
                    and bool(np.all(np.isfinite(Y))),
                    f"got {type(Y).__name__} shape={getattr(Y, 'shape', None)} dtype={getattr(Y, 'dtype', None)}"
                    + ("" if not isinstance(Y, np.ndarray) or np.all(np.isfinite(Y)) else " (non-finite entries)"))


def vecs(X):
    """(H,W,4) -> (N,4) row-major vec per channel."""
    return np.asarray(X).reshape(-1, X.shape[-1])


def normal_eq_residual(A, X, B, lam):
    """|| (A^T A + lam I) X - A^T B ||_F evaluated in extended precision."""
    Al = A.astype(LD)
    x = vecs(X).astype(LD)
    b = vecs(B).astype(LD)
    r = Al.T @ (Al @ x) + LD(lam) * x - Al.T @ b
    return float(np.sqrt(np.sum(r * r)))


# ----------------------------------------------------------------------------
# clause: blur


def check_blur(case):
    out = Out()
    H, W = case["H"], case["W"]
    psf = get_psf(case, out)
    if psf is None:
        return out
    X = np.array(case["X"], dtype=float)
    out.label("img:" + case["pattern"])
    N, K = H * W, psf.size
    s = float(np.sum(np.abs(psf)))
    site = "apply_blur_fft"
    hx, hp = ahash(X), ahash(psf)
    ok, Y = out.call(site, L.qslst.apply_blur_fft, X, psf)
    if not ok:
        return out
    out.true(f"{site}:arguments unchanged", ahash(X) == hx and ahash(psf) == hp, "image or psf modified in place")
    if not img_ok(site, out, Y, X.shape):
        return out
    Yd = conv_def(X, psf)
    xn = fro(X)
    bound = (C_FFT * lg(N) + K) * U_ * s * xn + 1e-300
    out.le(f"{site}:equals centred circular convolution", fro(Y - Yd), bound,
           f"||apply_blur_fft - definition||_F, ||X||_F={xn:.3e}, psf {psf.shape} on {H}x{W}")
    # mass:  sum(out_c) = sum(psf) * sum(in_c)   (independent of the centring)
    tot_in = np.sum(vecs(X).astype(LD), axis=0)
    tot_out = np.sum(vecs(Y).astype(LD), axis=0)
    mass = float(np.sum(psf.astype(LD)))
    mbound = C_FFT * lg(N) * U_ * s * math.sqrt(N) * xn + 1e-300
    out.le(f"{site}:total mass sum(out)=sum(psf)*sum(in)", float(np.max(np.abs(tot_out - LD(mass) * tot_in))), mbound,
           "per-channel totals")
    # impulse -> centred PSF, expected output placed by index arithmetic
    if case["pattern"] == "unit":
        (r0,), (s0,), (c0,) = np.nonzero(X)
        v = X[r0, s0, c0]
        E = np.zeros_like(X)
        kH, kW = psf.shape
        for du in range(kH):
            for dv in range(kW):
                E[(r0 + du - kH // 2) % H, (s0 + dv - kW // 2) % W, c0] += v * psf[du, dv]
        out.le(f"{site}:impulse -> centred PSF", fro(Y - E), bound, f"impulse at ({r0},{s0}) channel {c0}")
        out.label("impulse")
    # a second kernel with the SAME tap values in the transposed shape, on the same image size in the same process: it is a
    # different operator and must be answered for itself
    kH_, kW_ = psf.shape
    if kH_ != kW_ and kW_ <= H and kH_ <= W:
        psf2 = np.ascontiguousarray(psf.reshape(kW_, kH_))
        ok2, Y2 = out.call(site + "(reshaped kernel)", L.qslst.apply_blur_fft, X, psf2)
        if ok2 and img_ok(site + "(reshaped kernel)", out, Y2, X.shape):
            out.le(f"{site}:kernel with the same taps in the transposed shape is its own operator", fro(Y2 - conv_def(X, psf2)),
                   bound, f"psf {psf2.shape} after {psf.shape} on {H}x{W}")
    # channels are blurred independently and identically
    perm = case.get("perm", [1, 2, 3, 0])
    ok, Yp = out.call(site, L.qslst.apply_blur_fft, np.ascontiguousarray(X[..., perm]), psf)
    if ok and img_ok(site, out, Yp, X.shape):
        out.equal_bits(f"{site}:channel permutation equivariance", Yp, Y[..., perm])
    out.sample = {"H": H, "W": W, "psf_shape": list(psf.shape), "kind": case["psf"]["kind"], "err": fro(Y - Yd),
                  "bound": bound}
    return out


@st.composite
def blur_cases(draw, tier):
    case = draw(base_case(tier, with_lam=False))
    case["perm"] = list(draw(st.permutations([0, 1, 2, 3])))
    return case


# ----------------------------------------------------------------------------
# clause: FFT restoration solves the normal equations of the definitional operator


def check_restore_fft(case):
    out = Out()
    H, W = case["H"], case["W"]
    psf = get_psf(case, out)
    if psf is None:
        return out
    B = np.array(case["X"], dtype=float)
    lam = float(case["lam"])
    out.label("img:" + case["pattern"], "lam>=1" if lam >= 1 else ("lam>=1e-2" if lam >= 1e-2 else "lam<1e-2"))
    N = H * W
    s = float(np.sum(np.abs(psf)))
    site = "qslst_restore_fft"
    hb, hp = ahash(B), ahash(psf)
    ok, X = out.call(site, L.qslst.qslst_restore_fft, B, psf, lam)
    if not ok:
        return out
    out.true(f"{site}:arguments unchanged", ahash(B) == hb and ahash(psf) == hp, "B or psf modified in place")
    if not img_ok(site, out, X, B.shape):
        return out
    A = a_def(psf, H, W)
    bn, xn = fro(B), fro(X)
    res = normal_eq_residual(A, X, B, lam)
    nb = (C_NE * U_ * lg(N) + 4 * N * U_LD) * (s * bn + (s * s + lam) * xn) + 1e-300   # 2nd term: our own evaluation
    out.le(f"{site}:(A^T A + lam I) X = A^T B for the definitional A", res, nb,
           f"normal-equation residual, lam={lam}, ||B||={bn:.3e}, ||X||={xn:.3e}, psf {psf.shape} on {H}x{W}")
    # forward comparison with LAPACK on the definitional matrix
    smax, smin = spectrum(A)
    T = A.T @ A + lam * np.eye(N)
    Xr = np.linalg.solve(T, A.T @ vecs(B)).reshape(B.shape)
    amp = 1.0 / (smin * smin + lam)
    condT = (smax * smax + lam) * amp
    fb = C_FWD * U_ * (lg(N) + N) * (amp * s * bn + condT * max(xn, fro(Xr))) + 1e-300
    out.le(f"{site}:equals LAPACK solution of the normal equations", fro(X - Xr), fb, f"cond(T)={condT:.2e}")
    out.sample = {"H": H, "W": W, "psf_shape": list(psf.shape), "kind": case["psf"]["kind"], "lam": lam,
                  "residual": res, "bound": nb, "condT": condT}
    return out


def restore_cases(tier):
    return base_case(tier)


# ----------------------------------------------------------------------------
# clause: matrix form of the algorithm


def check_restore_matrix(case):
    out = Out()
    H, W = case["H"], case["W"]
    N = H * W
    B = np.array(case["X"], dtype=float)
    lam = float(case["lam"])
    site = "qslst_restore_matrix"
    generic = case.get("A") is not None
    if generic:
        A = np.array(case["A"], dtype=float)
        out.label("generic_real_A")
        s = None
    else:
        psf = get_psf(case, out)
        if psf is None:
            return out
        A = a_def(psf, H, W)
        s = float(np.sum(np.abs(psf)))
    hb, ha = ahash(B), ahash(A)
    ok, X = out.call(site, L.qslst.qslst_restore_matrix, B, A, lam)
    if not ok:
        return out
    out.true(f"{site}:arguments unchanged", ahash(B) == hb and ahash(A) == ha, "B or A modified in place")
    if not img_ok(site, out, X, B.shape):
        return out
    smax, smin = spectrum(A)
    amp = 1.0 / (smin * smin + lam)
    tn = smax * smax + lam
    condT = tn * amp
    # the same image in other memory layouts (Fortran order; a transposed / rotated view as np.rot90 or a swapaxes of a
    # stored W x H image gives it): the restoration is a function of the values
    for lname, Bl in (("F-ordered image", np.asfortranarray(B)),
                      ("transposed view", np.ascontiguousarray(np.swapaxes(B, 0, 1)).swapaxes(0, 1))):
        okl, Xl = out.call(f"{site}({lname})", L.qslst.qslst_restore_matrix, Bl, A, lam)
        if okl and img_ok(f"{site}({lname})", out, Xl, B.shape):
            out.le(f"{site}({lname}):same restoration as for the C-contiguous image", fro(np.asarray(Xl) - X),
                   (1e-9 + 1e3 * N * U_ * condT) * fro(X) + 1e-300, "the result depends on the memory layout of B")
    bn, xn = fro(B), fro(X)
    en = fro(A.T @ vecs(B))
    res = normal_eq_residual(A, X, B, lam)
    mb = C_MAT * N * U_ * condT * (en + tn * xn) + 4 * N * U_LD * (smax * bn + tn * xn) + 1e-300
    where = "generic real A" if generic else "definitional A"
    out.le(f"{site}:(A^T A + lam I) X = A^T B ({where})", res, mb,
           f"normal-equation residual, lam={lam}, cond(T)={condT:.2e}, N={N}")
    if generic:
        out.nontrivial = bool(np.any(A != A.T))
    else:
        # the FFT path and the matrix path on the explicit convolution matrix give the same restoration
        ok, Xf = out.call("qslst_restore_fft", L.qslst.qslst_restore_fft, B, psf, lam)
        if ok and img_ok("qslst_restore_fft", out, Xf, B.shape):
            fb = C_FWD * U_ * (lg(N) + N) * (amp * s * bn + condT * max(xn, fro(Xf))) + 1e-300
            out.le("qslst_restore_fft == qslst_restore_matrix(definitional A)", fro(X - Xf), fb,
                   f"lam={lam}, cond(T)={condT:.2e}, psf {psf.shape} on {H}x{W}")
    out.sample = {"H": H, "W": W, "lam": lam, "generic": generic, "residual": res, "bound": mb, "condT": condT}
    return out


@st.composite
def matrix_cases(draw, tier):
    if draw(st.integers(0, 3)) == 0:      # generic (non-normal) real matrix: documented domain of the matrix path
        hi = 4 if tier == "quick" else 5
        H = draw(st.integers(1, hi))
        W = draw(st.integers(1, hi))
        N = H * W
        A = draw(_farr((N, N), st.one_of(gen.small_ints(), gen.dyadic(0, 0, 32))))
        X, pat = draw(image(H, W))
        lam = draw(st.sampled_from([0.1, 0.5, 1.0, 2.0, 10.0, 1e-2]))
        return {"H": H, "W": W, "A": A, "X": X, "pattern": pat, "lam": lam, "psf": None}
    case = draw(base_case(tier))
    case["A"] = None
    return case


@st.composite
def long_matrix_cases(draw, tier):
    """Matrix form on a few hundred pixels (N = H W >= 256), smooth kernels, regularisation down to 1e-12: the normal
    equations are as ill conditioned as the documented domain (lam > 0) allows."""
    H, W = draw(st.sampled_from([(16, 16), (16, 17), (20, 18), (16, 24), (13, 20)]))
    spec = draw(st.sampled_from([{"kind": "gaussian", "radius": 2, "sigma": 0.8}, {"kind": "gaussian", "radius": 3, "sigma": 1.0},
                                 {"kind": "gaussian", "radius": 2, "sigma": 2.0}, {"kind": "motion", "length": 5, "angle": 30.0},
                                 {"kind": "motion", "length": 7, "angle": 0.0}]))
    X, pat = draw(gen.long_qarray(H, W, "generic"))
    return {"H": H, "W": W, "psf": spec, "X": np.abs(X) / 4.0, "pattern": pat, "A": None,
            "lam": draw(st.sampled_from([1e-2, 1e-4, 1e-6, 1e-8, 1e-12]))}


# ----------------------------------------------------------------------------
# clause: the application's explicit matrix builders


def check_builders(case):
    out = Out()
    H, W = case["H"], case["W"]
    psf = get_psf(case, out)
    if psf is None:
        return out
    N = H * W
    B = np.array(case["X"], dtype=float)
    lam = float(case["lam"])
    s = float(np.sum(np.abs(psf)))
    mod = app()
    A = a_def(psf, H, W)
    # oracle self-consistency (harness error if the two formulations of the definition disagree)
    Yd = conv_def(B, psf)
    assert fro((A @ vecs(B)).reshape(B.shape) - Yd) <= 64 * psf.size * U_ * s * fro(B) + 1e-300, "oracle inconsistent"
    hp = ahash(psf)
    mats = {}
    ok, D = out.call("_build_bccb_matrix", mod._build_bccb_matrix, psf, H, W)
    if ok and out.true("_build_bccb_matrix:returns (N,N) float array",
                       isinstance(D, np.ndarray) and D.shape == (N, N) and D.dtype == np.float64,
                       f"got {type(D).__name__} {getattr(D, 'shape', None)}"):
        mats["_build_bccb_matrix"] = D
        out.equal_bits("_build_bccb_matrix:equals the definitional BCCB matrix", D, A)
    ok, Cs = out.call("_build_bccb_csr", mod._build_bccb_csr, psf, H, W)
    if ok:
        ok2, Cd = out.call("_build_bccb_csr", lambda: np.asarray(Cs.toarray(), dtype=float))
        if ok2 and out.true("_build_bccb_csr:returns (N,N) sparse matrix", Cd.shape == (N, N) and Cs.shape == (N, N),
                            f"shape {Cs.shape}"):
            mats["_build_bccb_csr"] = Cd
            out.equal_bits("_build_bccb_csr:equals the definitional BCCB matrix", Cd, A)
    out.true("builders:psf unchanged", ahash(psf) == hp, "psf modified in place")
    if len(mats) == 2:
        out.equal_bits("builders:dense == csr", mats["_build_bccb_matrix"], mats["_build_bccb_csr"])
    # same operator as the FFT blur, same restoration as the FFT restoration
    ok, Yf = out.call("apply_blur_fft", L.qslst.apply_blur_fft, B, psf)
    ok2, Xf = out.call("qslst_restore_fft", L.qslst.qslst_restore_fft, B, psf, lam)
    smax, smin = spectrum(A)
    amp = 1.0 / (smin * smin + lam)
    condT = (smax * smax + lam) * amp
    bn = fro(B)
    for name, M in mats.items():
        if ok and img_ok("apply_blur_fft", out, Yf, B.shape):
            out.le(f"{name}:M vec(X) == apply_blur_fft(X)", fro((M @ vecs(B)).reshape(B.shape) - Yf),
                   (C_FFT * lg(N) + psf.size) * U_ * s * bn + 1e-300, "matrix and FFT blur differ")
        if ok2 and img_ok("qslst_restore_fft", out, Xf, B.shape):
            ok3, Xm = out.call("qslst_restore_matrix", L.qslst.qslst_restore_matrix, B, M, lam)
            if ok3 and img_ok("qslst_restore_matrix", out, Xm, B.shape):
                fb = C_FWD * U_ * (lg(N) + N) * (amp * s * bn + condT * max(fro(Xm), fro(Xf))) + 1e-300
                out.le(f"{name}:qslst_restore_matrix(M) == qslst_restore_fft", fro(Xm - Xf), fb,
                       f"lam={lam}, cond(T)={condT:.2e}")
    out.sample = {"H": H, "W": W, "psf_shape": list(psf.shape), "kind": case["psf"]["kind"]}
    return out


def builder_cases(tier):
    return base_case(tier)


# ----------------------------------------------------------------------------
# clause: linearity in B, channel independence


def check_linearity(case):
    out = Out()
    H, W = case["H"], case["W"]
    psf = get_psf(case, out)
    if psf is None:
        return out
    N = H * W
    B1 = np.array(case["X"], dtype=float)
    B2 = np.array(case["X2"], dtype=float)
    a, b = float(case["a"]), float(case["b"])
    lam = float(case["lam"])
    path = case["path"]
    if path == "fft":
        site = "qslst_restore_fft"

        def R(B):
            return L.qslst.qslst_restore_fft(B, psf, lam)
        gmax = 1.0 / (2.0 * math.sqrt(lam))      # |conj(h)/(|h|^2+lam)| <= 1/(2 sqrt(lam)) for ANY h
        cfac = C_LIN * lg(N)
    else:
        site = "qslst_restore_matrix"
        A = a_def(psf, H, W)

        def R(B):
            return L.qslst.qslst_restore_matrix(B, A, lam)
        smax, smin = spectrum(A)
        # X = P (A^T b) with one fixed computed P: matmul rounding only, ||P|| ~ 1/(smin^2+lam), ||A^T|| = smax
        gmax = smax / (smin * smin + lam) * (1.0 + 1e-6)
        cfac = C_LIN * N
    out.label("path:" + path)
    Bc = a * B1 + b * B2
    res = []
    for Bi in (B1, B2, Bc):
        ok, Xi = out.call(site, R, Bi)
        if not ok or not img_ok(site, out, Xi, Bi.shape):
            return out
        res.append(Xi)
    X1, X2, Xc = res
    bound = cfac * U_ * gmax * (abs(a) * fro(B1) + abs(b) * fro(B2) + fro(Bc)) + 1e-300
    out.le(f"{site}:linear in B", fro(Xc - (a * X1 + b * X2)), bound, f"a={a}, b={b}, lam={lam}")
    # channel independence: changing channel c of B changes only channel c of X, bit-for-bit elsewhere
    c = int(case["chan"])
    Bp = B1.copy()
    Bp[..., c] = B2[..., c]
    ok, Xp = out.call(site, R, Bp)
    if ok and img_ok(site, out, Xp, B1.shape):
        others = [k for k in range(4) if k != c]
        out.equal_bits(f"{site}:channel independence (other channels bit-identical)", Xp[..., others], X1[..., others])
        out.equal_bits(f"{site}:channel independence (changed channel follows its own data)", Xp[..., c], X2[..., c])
    perm = case["perm"]
    ok, Xq = out.call(site, R, np.ascontiguousarray(B1[..., perm]))
    if ok and img_ok(site, out, Xq, B1.shape):
        out.equal_bits(f"{site}:channel permutation equivariance", Xq, X1[..., perm])
    out.nontrivial = out.nontrivial and bool(np.any(B1)) and bool(np.any(B2))
    out.sample = {"H": H, "W": W, "lam": lam, "path": path, "a": a, "b": b}
    return out


@st.composite
def linearity_cases(draw, tier):
    case = draw(base_case(tier))
    X2, _ = draw(image(case["H"], case["W"]))
    case["X2"] = X2
    case["a"] = draw(st.one_of(gen.small_ints(), gen.dyadic(0, 0, 48)))
    case["b"] = draw(st.one_of(gen.small_ints(), gen.dyadic(0, 0, 48)))
    case["chan"] = draw(st.integers(0, 3))
    case["perm"] = list(draw(st.permutations([0, 1, 2, 3])))
    case["path"] = draw(st.sampled_from(["fft", "fft", "matrix"]))
    return case


# ----------------------------------------------------------------------------
# clause: lam = 0 inverts the blur wherever it is invertible


INV_MIN = 1.0 / 16     # blur counted as invertible when smin(A_def) >= INV_MIN * sum|psf|


def check_lam0(case):
    out = Out()
    H, W = case["H"], case["W"]
    psf = get_psf(case, out)
    if psf is None:
        return out
    N, K = H * W, psf.size
    X = np.array(case["X"], dtype=float)
    s = float(np.sum(np.abs(psf)))
    A = a_def(psf, H, W)
    smax, smin = spectrum(A)
    if case["psf"]["kind"] == "delta_dominant":
        # constructed lower bound |H_hat| >= 1 - 2 eps must agree with LAPACK (oracle cross-check)
        assert smin >= 1.0 - 2.0 * case["psf"]["eps"] - 1e-12, "delta-dominant kernel: smin below 1-2eps"
    if smin < INV_MIN * s:
        out.label("not_invertible(skipped)")
        out.nontrivial = False
        return out
    out.label("invertible", "img:" + case["pattern"])
    rel = s / smin
    xn = fro(X)
    bound = C_INV * U_ * (lg(N) + K) * rel * rel * xn + 1e-300
    # (a) restoration of the DEFINITIONAL blur of X returns X
    Bd = conv_def(X, psf)
    ok, Xr = out.call("qslst_restore_fft(lam=0)", L.qslst.qslst_restore_fft, Bd, psf, case["lam0"])
    if ok and img_ok("qslst_restore_fft(lam=0)", out, Xr, X.shape):
        out.le("qslst_restore_fft(lam=0):inverts the definitional blur", fro(Xr - X), bound,
               f"s/smin={rel:.3g}, ||X||={xn:.3e}, psf {psf.shape} on {H}x{W}")
    # (b) library round trip blur -> restore
    ok, Bl = out.call("apply_blur_fft", L.qslst.apply_blur_fft, X, psf)
    if ok and img_ok("apply_blur_fft", out, Bl, X.shape):
        ok, Xl = out.call("qslst_restore_fft(lam=0)", L.qslst.qslst_restore_fft, Bl, psf, case["lam0"])
        if ok and img_ok("qslst_restore_fft(lam=0)", out, Xl, X.shape):
            out.le("qslst_restore_fft(lam=0):round trip restore(apply_blur_fft(X)) = X", fro(Xl - X), bound,
                   f"s/smin={rel:.3g}")
    # (c) matrix path with lam = 0 on the invertible definitional matrix
    ok, Xm = out.call("qslst_restore_matrix(lam=0)", L.qslst.qslst_restore_matrix, Bd, A, case["lam0"])
    if ok and img_ok("qslst_restore_matrix(lam=0)", out, Xm, X.shape):
        out.le("qslst_restore_matrix(lam=0):inverts the definitional blur", fro(Xm - X),
               4 * C_INV * U_ * N * rel ** 4 * xn + 1e-300, f"s/smin={rel:.3g}")
    out.sample = {"H": H, "W": W, "psf_shape": list(psf.shape), "kind": case["psf"]["kind"], "s_over_smin": rel}
    return out


@st.composite
def lam0_cases(draw, tier):
    case = draw(base_case(tier, kinds=INVERTIBLE_KINDS, with_lam=False,
                          patterns=("generic", "generic", "int", "sparse", "unit", "const", "scaled", "pure_imag")))
    case["lam0"] = draw(st.sampled_from([0.0, 0.0, 0]))     # float and int zero
    return case


# ----------------------------------------------------------------------------
# clause: PSF builders


def check_psf_builders(case):
    out = Out()
    q = L.qslst
    if case["which"] == "gaussian":
        r, sig = case["radius"], case["sigma"]
        site = "build_psf_gaussian"
        ok, P = out.call(site, q.build_psf_gaussian, r, sig)
        if not ok:
            return out
        Kk = 2 * r + 1
        if not out.true(f"{site}:shape (2r+1, 2r+1) float", isinstance(P, np.ndarray) and P.shape == (Kk, Kk)
                        and P.dtype == np.float64 and bool(np.all(np.isfinite(P))), f"got {getattr(P, 'shape', None)}"):
            return out
        out.true(f"{site}:non-negative", bool(np.all(P >= 0.0)), "negative tap")
        out.le(f"{site}:unit sum", abs(float(np.sum(P.astype(LD))) - 1.0), 32 * Kk * Kk * U_, "sum(psf) != 1")
        pk = float(P[r, r])
        out.true(f"{site}:peak at the centre tap", pk == float(P.max()) and pk > 0, "maximum not at (r, r)")
        sym = max(float(np.max(np.abs(P - P.T))), float(np.max(np.abs(P - P[::-1, :]))),
                  float(np.max(np.abs(P - P[:, ::-1]))))
        out.le(f"{site}:symmetric (transpose and both flips)", sym, 8 * U_ * pk, "isotropic Gaussian must be symmetric")
        # documented formula: psf[i,j] / psf[r,r] = exp(-(dx^2+dy^2)/(2 sigma^2))
        worst = 0.0
        for i in range(Kk):
            for j in range(Kk):
                d2 = (i - r) ** 2 + (j - r) ** 2
                worst = max(worst, abs(float(P[i, j]) / pk - math.exp(-d2 / (2.0 * sig * sig))))
        out.le(f"{site}:Gaussian profile exp(-d^2/(2 sigma^2))", worst, 512 * U_, f"radius={r}, sigma={sig}")
        out.label("gaussian", f"radius={r}")
        out.nontrivial = r >= 1
        out.sample = {"radius": r, "sigma": sig, "peak": pk}
    else:
        ln, ang = case["length"], case["angle"]
        site = "build_psf_motion"
        ok, P = out.call(site, q.build_psf_motion, ln, ang)
        if not ok:
            return out
        Lc = max(1, int(ln))
        if not out.true(f"{site}:square float kernel", isinstance(P, np.ndarray) and P.ndim == 2
                        and P.shape[0] == P.shape[1] and P.dtype == np.float64 and bool(np.all(np.isfinite(P))),
                        f"got {getattr(P, 'shape', None)}"):
            return out
        Kk = P.shape[0]
        out.true(f"{site}:size tightly contains the line (L or L+1)", Lc <= Kk <= Lc + 1, f"K={Kk} for length {Lc}")
        out.true(f"{site}:non-negative", bool(np.all(P >= 0.0)), "negative tap")
        out.le(f"{site}:unit sum", abs(float(np.sum(P.astype(LD))) - 1.0), 32 * Kk * Kk * U_, "sum(psf) != 1")
        cnt = P * Lc
        out.le(f"{site}:L samples of weight 1/L", float(np.max(np.abs(cnt - np.rint(cnt)))), 8 * Lc * U_,
               "taps are not multiples of 1/L")
        out.true(f"{site}:at most L taps", int(np.count_nonzero(P)) <= Lc, f"{np.count_nonzero(P)} taps for length {Lc}")
        c = (Kk - 1) // 2
        a360 = ang % 360.0
        if a360 in (0.0, 180.0):
            out.true(f"{site}:angle 0/180 -> horizontal line through the centre row",
                     not P[np.arange(Kk) != c, :].any(), "taps outside the centre row")
            out.label("axis_aligned")
        if a360 in (90.0, 270.0):
            out.true(f"{site}:angle 90/270 -> vertical line through the centre column",
                     not P[:, np.arange(Kk) != c].any(), "taps outside the centre column")
            out.label("axis_aligned")
        out.label("motion", "even_length" if Lc % 2 == 0 else "odd_length")
        out.nontrivial = Lc >= 2
        out.sample = {"length": ln, "angle": ang, "K": Kk, "taps": int(np.count_nonzero(P))}
    return out


@st.composite
def psf_builder_cases(draw, tier):
    if draw(st.booleans()):
        return {"which": "gaussian", "radius": draw(st.integers(0, 4 if tier == "quick" else 6)),
                "sigma": draw(st.one_of(st.sampled_from(SIGMAS), st.integers(4, 160).map(lambda k: k / 16.0)))}
    return {"which": "motion", "length": draw(st.integers(1, 9 if tier == "quick" else 15)),
            "angle": draw(st.one_of(st.sampled_from(ANGLES), st.integers(-360, 720).map(float),
                                    st.integers(-2880, 5760).map(lambda k: k / 16.0)))}


# ----------------------------------------------------------------------------

PROPERTY = Property(
    id="C17",
    title="QSLST restoration solves the Tikhonov normal equations of the documented blur",
    rule=("the PSF is strictly smaller than the image in at least one dimension AND (it is not point-symmetric "
          "about its middle tap OR it has an even size in some dimension); for the generic-matrix sub-case: A is "
          "not symmetric; for the PSF-builder clause: radius >= 1 / length >= 2. Distinct = distinct input digest."),
    clauses=[
        Clause("blur", check_blur, strategy=blur_cases, budget={"quick": 1600, "thorough": 20000}),
        Clause("restore_fft", check_restore_fft, strategy=restore_cases, budget={"quick": 1600, "thorough": 20000}),
        Clause("blur_long_dimension", check_blur, strategy=lambda tier: long_base_case(tier, with_lam=False),
               budget={"quick": 24, "thorough": 240}, shrink=False),
        Clause("restore_fft_long_dimension", check_restore_fft, strategy=lambda tier: long_base_case(tier),
               budget={"quick": 16, "thorough": 160}, shrink=False),
        Clause("restore_matrix", check_restore_matrix, strategy=matrix_cases, budget={"quick": 800, "thorough": 10000}),
        Clause("restore_matrix_long_dimension", check_restore_matrix, strategy=long_matrix_cases,
               budget={"quick": 8, "thorough": 64}, shrink=False),
        Clause("builders", check_builders, strategy=builder_cases, budget={"quick": 800, "thorough": 10000}),
        Clause("linearity", check_linearity, strategy=linearity_cases, budget={"quick": 800, "thorough": 10000}),
        Clause("lam0_inverse", check_lam0, strategy=lam0_cases, budget={"quick": 800, "thorough": 10000}),
        Clause("psf_builders", check_psf_builders, strategy=psf_builder_cases, budget={"quick": 400, "thorough": 4000}),
    ],
    assumptions=[
        "images are float64 arrays of shape (H,W,4) (the module's documented representation); integer-typed images are out of domain",
        "PSFs are no larger than the image in either dimension (the property's quantifier); cropping of larger kernels is not checked",
        "centre tap = (kH//2, kW//2) (the module's own convention, also for even sizes); vec = row-major reshape(-1)",
        "lam = 0 is exercised only where smin(A_def) >= sum|psf|/16 (invertible blur); lam > 0 in [1e-6, 10] elsewhere",
        "the oracle uses explicit index arithmetic, LAPACK svd/solve on the definitional matrix and np.longdouble residuals; numpy.fft is not used by the oracle",
        "motion-kernel geometry is checked only as far as documented: square kernel of size L or L+1, L samples of weight 1/L, axis-aligned for angles 0/90/180/270",
    ],
)
