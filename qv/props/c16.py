"""C16 - Givens QR of Hessenberg matrices and triangular solves are exact building blocks."""
import numpy as np
from hypothesis import strategies as st
from hypothesis.extra import numpy as hnp

from .. import gen, ref
from ..core import Clause, Out, Property
from ..env import L
from ..lib import F, Q

U_ = ref.U
EPS = float(np.finfo(float).tiny)   # degenerate pair: norm not safely normalisable (exact zero in practice)


def blocked_from_first_col(G, r):
    """Recover the r x r quaternion matrix M whose component-blocked real embedding G claims to be."""
    M = np.zeros((r, r, 4))
    for c in range(4):
        M[:, :, c] = G[c * r:(c + 1) * r, 0:r]
    return M


def stack_planes(A):
    """(m,n,4) -> real (4m, n) [A0;A1;A2;A3]."""
    return np.vstack([A[..., c] for c in range(4)])


def unlayout(X, n):
    """Real (m, 4n) in the solver's [X0 X2 X1 X3] column layout -> (m,n,4)."""
    return np.stack([X[:, 0:n], X[:, 2 * n:3 * n], X[:, n:2 * n], X[:, 3 * n:4 * n]], axis=-1)


# ----------------------------------------------------------------------------
# ggivens


@st.composite
def pair_cases(draw, tier):
    kind = draw(st.sampled_from(["generic", "generic", "x1_zero", "x2_zero", "both_zero", "tiny", "one_comp_zero",
                                 "x1_smaller", "x1_larger", "equal_norm", "real_pair"]))
    e = draw(st.integers(-12, 3))
    v = hnp.arrays(np.float64, (4,), elements=gen.dyadic(0, 0, 64), fill=st.nothing())
    x1 = draw(v)
    x2 = draw(v)
    if kind == "x1_zero":
        x1 = np.zeros(4)
    elif kind == "x2_zero":
        x2 = np.zeros(4)
    elif kind == "both_zero":
        x1, x2 = np.zeros(4), np.zeros(4)
    elif kind == "tiny":
        s = draw(st.sampled_from([1e-17, 1e-16, 3e-16, 1e-20, 1e-300]))
        x1, x2 = x1 * s / 8.0, x2 * s / 8.0
        e = 0
    elif kind == "one_comp_zero":
        x1[draw(st.integers(0, 3))] = 0.0
        x2[draw(st.integers(0, 3))] = 0.0
    elif kind == "x1_smaller":
        x1 = x1 / 16.0
    elif kind == "x1_larger":
        x2 = x2 / 16.0
    elif kind == "equal_norm":
        x2 = np.roll(x1, draw(st.integers(0, 3))) * draw(st.sampled_from([1.0, -1.0]))
    elif kind == "real_pair":
        x1[1:] = 0.0
        x2[1:] = 0.0
    sc = 10.0 ** e
    return {"x1": x1 * sc, "x2": x2 * sc, "kind": kind}


def check_pair(case):
    out = Out()
    x1, x2, kind = case["x1"], case["x2"], case["kind"]
    out.label(kind)
    t = float(np.sqrt(np.sum(x1 * x1) + np.sum(x2 * x2)))
    n1, n2 = float(np.sqrt(np.sum(x1 * x1))), float(np.sqrt(np.sum(x2 * x2)))
    out.label("branch:|x1|<|x2|" if n1 < n2 else "branch:|x1|>=|x2|")
    ok, G = out.call("ggivens", L.utils.ggivens, x1.copy(), x2.copy())
    if not ok:
        return out
    # rotations are generated in sequences and applied later: a second rotation (for the swapped, rescaled pair) is
    # generated BEFORE the first one is examined; the first must still be the rotation of its own pair
    if isinstance(G, np.ndarray):
        snap = G.tobytes()
        ok2, G2 = out.call("ggivens(second call)", L.utils.ggivens, 0.5 * x2 + 0.25, x1 - 0.125)
        out.true("ggivens:a rotation is not changed by generating another one", G.tobytes() == snap,
                 "the array returned by the first call changed during the second call (shared workspace)")
    G = np.asarray(G, dtype=float)
    if not out.true("ggivens:shape", G.shape == (8, 8), f"{G.shape}"):
        return out
    if not out.true("ggivens:finite", np.all(np.isfinite(G)), "non-finite rotation"):
        return out
    out.le("ggivens:G^T G = I", float(np.linalg.norm(G.T @ G - np.eye(8))), 64 * U_)
    M = blocked_from_first_col(G, 2)
    out.equal_bits("ggivens:embedding structure of a 2x2 quaternion matrix", G, ref.chi_r_blocked(M))
    v = np.array([x1[0], x2[0], x1[1], x2[1], x1[2], x2[2], x1[3], x2[3]])
    w = G.T @ v
    if t <= EPS:
        out.label("degenerate(t<=tiny)")
        out.equal_bits("ggivens:identity for degenerate pair", G, np.eye(8))
    else:
        target = np.zeros(8)
        target[0] = t
        out.le("ggivens:G^T [x1;x2] = (norm,0)", float(np.linalg.norm(w - target)), 64 * U_ * t)
    out.nontrivial = kind in ("x1_zero", "x2_zero", "both_zero", "tiny", "one_comp_zero", "equal_norm") or n1 < n2
    out.sample = {"t": t, "kind": kind}
    return out


# ----------------------------------------------------------------------------
# GRSGivens


@st.composite
def grs_cases(draw, tier):
    form = draw(st.sampled_from(["four_scalars", "vector"]))
    g = draw(hnp.arrays(np.float64, (4,), elements=gen.dyadic(0, 0, 64), fill=st.nothing()))
    kind = draw(st.sampled_from(["generic", "real", "tiny_imag", "one_imag", "zero"]))
    if kind == "real":
        g[1:] = 0.0
    elif kind == "tiny_imag":
        g[1:] = g[1:] * 1e-10
    elif kind == "one_imag":
        keep = draw(st.integers(1, 3))
        for c in (1, 2, 3):
            if c != keep:
                g[c] = 0.0
    elif kind == "zero":
        g[:] = 0.0
    e = draw(st.integers(-8, 3))
    return {"g": g * 10.0 ** e, "form": form, "kind": kind}


def check_grs(case):
    out = Out()
    g, form = case["g"], case["form"]
    out.label(form, case["kind"])
    if form == "vector" and not np.any(g[1:3]) and np.any(g):
        pass
    if form == "four_scalars":
        if not np.any(g):
            # r = 0 with allclose true -> identity; fine
            pass
        ok, G = out.call("GRSGivens(g1,g2,g3,g4)", L.utils.GRSGivens, float(g[0]), float(g[1]), float(g[2]), float(g[3]))
    else:
        ok, G = out.call("GRSGivens(vector)", L.utils.GRSGivens, g.copy())
    if not ok:
        return out
    G = np.asarray(G, dtype=float)
    site = f"GRSGivens({form})"
    if not out.true(site + ":shape", G.shape == (4, 4), f"{G.shape}"):
        return out
    if not out.true(site + ":finite", np.all(np.isfinite(G)), "non-finite rotation"):
        return out
    out.le(site + ":orthogonal", float(np.linalg.norm(G.T @ G - np.eye(4))), 32 * U_)
    q = G[:, 0].reshape(1, 1, 4)
    out.equal_bits(site + ":embedding structure of a unit quaternion", G, ref.chi_r_blocked(q))
    nrm = float(np.sqrt(np.sum(g * g)))
    if not np.array_equal(G, np.eye(4)) and nrm > 0:
        w = G.T @ g
        out.le(site + ":G^T g = (|g|,0,0,0)", float(np.linalg.norm(w - np.array([nrm, 0, 0, 0]))), 32 * U_ * nrm)
    out.nontrivial = case["kind"] != "generic"
    return out


# ----------------------------------------------------------------------------
# Hess_QR_ggivens


@st.composite
def hess_cases(draw, tier):
    k = draw(st.integers(1, 6 if tier == "quick" else 8))
    H = draw(gen.qmat(k + 1, k, patterns=("generic", "generic", "int", "pure_imag", "sparse")))
    H = H.copy()
    for i in range(k + 1):
        for j in range(k):
            if i > j + 1:
                H[i, j] = 0.0
    sub = draw(st.sampled_from(["as_is", "real_positive", "some_zero", "tiny", "all_zero", "zero_diagonal"]))
    tags = [sub]
    if sub == "zero_diagonal":
        # exactly zero diagonal entries over non-zero sub-diagonal entries (pure row exchanges), also for k = 1
        for j in range(k):
            if draw(st.booleans()) or k == 1:
                H[j, j] = 0.0
                if not H[j + 1, j].any():
                    H[j + 1, j] = draw(gen.unit_q(exact=True)) * draw(st.sampled_from([1.0, 2.0, 0.5]))
    for j in range(k):
        if sub == "real_positive":
            H[j + 1, j] = [abs(H[j + 1, j, 0]) + 0.125, 0, 0, 0]
        elif sub == "some_zero" and draw(st.booleans()):
            H[j + 1, j] = 0.0
        elif sub == "tiny":
            H[j + 1, j] = H[j + 1, j] * draw(st.sampled_from([1e-8, 1e-14, 1e-17, 1e-30]))
        elif sub == "all_zero":
            H[j + 1, j] = 0.0
    if draw(st.integers(0, 4)) == 0:
        H[:, draw(st.integers(0, k - 1))] = 0.0
        tags.append("zero_column")
    e = draw(st.sampled_from([0, 0, -6, 6]))
    return {"H": H * 10.0 ** e, "sub": sub, "tags": tags}


@st.composite
def long_hess_cases(draw, tier):
    """(k+1) x k Hessenberg matrices with k past the blocking sizes 32 / 64 (the Arnoldi matrices of long restart
    cycles); dense or banded upper part."""
    k = draw(st.sampled_from([10, 12, 16, 17, 24, 31, 32, 33, 64, 65] if tier == "quick" else [10, 12, 16, 17, 24, 31, 32, 33, 40, 64, 65, 100, 129]))
    H, _ = draw(gen.long_qarray(k + 1, k, draw(st.sampled_from(["generic", "int", "sparse"]))))
    band = draw(st.sampled_from([None, None, 1, 3, 40]))
    for i in range(k + 1):
        H[i, :max(0, i - 1)] = 0.0
        if band is not None:
            H[i, i + band + 1:] = 0.0
    sub = draw(st.sampled_from(["as_is", "real_positive", "some_zero"]))
    for j in range(k):
        if sub == "real_positive":
            H[j + 1, j] = [abs(H[j + 1, j, 0]) + 0.125, 0, 0, 0]
        elif sub == "some_zero" and draw(st.integers(0, 7)) == 0:
            H[j + 1, j] = 0.0
    return {"H": H, "sub": sub, "tags": [sub, "long", "banded" if band is not None else "dense"]}


@st.composite
def long_tri_cases(draw, tier):
    n = draw(st.sampled_from([10, 12, 16, 17, 24, 31, 32, 33, 64, 65] if tier == "quick" else [10, 12, 16, 17, 24, 31, 32, 33, 40, 64, 65, 100, 129, 257]))
    r = draw(st.integers(1, 3))
    T, _ = draw(gen.long_qarray(n, n, draw(st.sampled_from(["generic", "sparse"]))))
    T = T / (4.0 * n)                       # strictly diagonally dominant once the unit-modulus diagonal is set
    rng = np.random.RandomState(draw(gen.seeds()))
    d = rng.standard_normal((n, 4))
    d = d / np.sqrt(np.sum(d * d, axis=1))[:, None]
    exps = [0] * n
    if draw(st.booleans()):
        exps = [int(v) for v in rng.randint(-3, 4, size=n)]
    for i in range(n):
        T[i, i] = d[i] * 10.0 ** exps[i]
    B, _ = draw(gen.long_qarray(n, r, "generic"))
    mode = "long"
    if draw(st.integers(0, 2)) == 0:
        # every entry q, diagonal q/2 (T = q (ones - I/2)): well conditioned (cond O(n^2)), no cancellation along rows
        q = draw(gen.unit_q())
        T = np.broadcast_to(q, (n, n, 4)).copy()
        for i in range(n):
            T[i, i] = 0.5 * q
        exps = [0] * n
        mode = "long+same_phase"
    Tu_, Tl_ = T.copy(), T.copy()
    for i in range(n):
        Tu_[i, :i] = 0.0
        Tl_[i, i + 1:] = 0.0
    return {"T": T, "B": B, "Bu": ref.qmm(Tu_, B), "Bl": ref.qmm(Tl_, B), "mode": mode + "+consistent_rhs",
            "exps": exps if n <= 40 else exps[:8] + ["..."]}


def check_hess(case):
    out = Out()
    H = case["H"]
    out.label(*case["tags"])
    m, k, _ = H.shape
    Hess = stack_planes(H)
    ok, r = out.call("Hess_QR_ggivens", L.utils.Hess_QR_ggivens, Hess.copy())
    if not ok:
        return out
    W, R = np.asarray(r[0], dtype=float), np.asarray(r[1], dtype=float)
    if not out.true("Hess_QR_ggivens:shapes", W.shape == (m, 4 * m) and R.shape == (m, 4 * k), f"{W.shape} {R.shape}"):
        return out
    if not out.true("Hess_QR_ggivens:finite", np.all(np.isfinite(W)) and np.all(np.isfinite(R)), "non-finite factor"):
        return out
    Wq = unlayout(W, m)
    Rq = unlayout(R, k)
    hn = ref.fro(H)
    out.le("Hess_QR_ggivens:W unitary", ref.unitarity_defect(Wq), 64 * m * U_)
    below = 0.0
    for i in range(m):
        for j in range(k):
            if i > j:
                below = max(below, float(ref.modulus(Rq[i, j])))
    out.le("Hess_QR_ggivens:R upper triangular", below, 64 * m * U_ * hn + 1e-300 * (hn == 0))
    out.le("Hess_QR_ggivens:W R = H", ref.fro(ref.qmm(Wq, Rq) - H), 64 * m * U_ * hn + 1e-300 * (hn == 0))
    out.nontrivial = k >= 2 and case["sub"] in ("some_zero", "tiny", "all_zero", "zero_diagonal")
    out.sample = {"k": k, "sub": case["sub"]}
    return out


# ----------------------------------------------------------------------------
# triangular solves


@st.composite
def tri_cases(draw, tier):
    n = draw(st.integers(1, 8 if tier == "quick" else 10))
    r = draw(st.integers(1, 4))
    T = draw(gen.qmat(n, n, patterns=("generic", "generic", "int", "pure_imag", "sparse")))
    T = T.copy()
    mode = draw(st.sampled_from(["unit_scale", "uniform", "per_row"]))
    exps = []
    for i in range(n):
        d = draw(gen.nonzero_q())
        d = d / np.sqrt(np.sum(d * d))
        if mode == "unit_scale":
            e = 0
        elif mode == "uniform":
            e = exps[0] if exps else draw(st.integers(-6, 6))
        else:
            e = draw(st.integers(-6, 6))
        exps.append(e)
        T[i, i] = d * draw(st.sampled_from([1.0, 2.0, 0.5, 3.0])) * 10.0 ** e
    B = draw(gen.qmat(n, r, patterns=("generic", "generic", "int", "sparse")))
    if draw(st.integers(0, 2)) == 0:
        # all entries share one quaternion phase (T = q * real matrix): sums along rows accumulate instead of cancelling
        q = draw(gen.unit_q())
        W = np.abs(T[..., 0]) + 0.25
        T = ref.qmul(q.reshape(1, 1, 4), np.stack([W, 0 * W, 0 * W, 0 * W], axis=-1))
        mode = mode + "+same_phase"
    if draw(st.booleans()):
        # consistent right-hand side B = T X0 with a benign X0: the SOLUTION is O(1) even when T^-1 is huge, so
        # intermediate quantities of an unstable scheme are not masked by an equally large answer
        Tu_, Tl_ = T.copy(), T.copy()
        for i in range(n):
            Tu_[i, :i] = 0.0
            Tl_[i, i + 1:] = 0.0
        return {"T": T, "B": B, "Bu": ref.qmm(Tu_, B), "Bl": ref.qmm(Tl_, B), "mode": mode + "+consistent_rhs", "exps": exps}
    return {"T": T, "B": B, "mode": mode, "exps": exps}


def _tri_bound(T, X, B, n):
    return 64 * (n + 2) * U_ * (ref.modulus(T) @ ref.modulus(X) + ref.modulus(B)) + 1e-300


def check_tri(case):
    out = Out()
    T, B = case["T"], case["B"]
    n, r = T.shape[0], B.shape[1]
    out.label(*case["mode"].split("+"), f"rhs={r}")
    Bu, Bl = case.get("Bu", B), case.get("Bl", B)
    Tu = T.copy()
    Tl = T.copy()
    for i in range(n):
        for j in range(n):
            if i > j:
                Tu[i, j] = 0.0
            if i < j:
                Tl[i, j] = 0.0
    # component-form back substitution (works in place on its right-hand side: pass copies)
    ok, res = out.call("UtriangleQsparse", L.utils.UtriangleQsparse,
                       *[np.ascontiguousarray(Tu[..., c]) for c in range(4)],
                       *[np.array(Bu[..., c], dtype=float, order="C", copy=True) for c in range(4)])
    if ok:
        X = np.stack([np.asarray(x, dtype=float) for x in res], axis=-1)
        if out.true("UtriangleQsparse:shape", X.shape == B.shape, f"{X.shape}"):
            err = ref.modulus(ref.qmm(Tu, X) - Bu)
            out.le("UtriangleQsparse:T X = B", float(np.max(err / _tri_bound(Tu, X, Bu, n))), 1.0,
                   f"entrywise backward error/bound, diag exps {case['exps']}")
    for name, fn, Tm, Bm in (("_solve_upper_triangular_quat", L.solver._solve_upper_triangular_quat, Tu, Bu),
                             ("_solve_lower_triangular_quat", L.solver._solve_lower_triangular_quat, Tl, Bl)):
        ok, Xq = out.call(name, fn, Q(Tm), Q(Bm))
        if ok:
            X = F(Xq)
            if out.true(name + ":shape", X.shape == B.shape, f"{X.shape}"):
                err = ref.modulus(ref.qmm(Tm, X) - Bm)
                out.le(name + ":T X = B", float(np.max(err / _tri_bound(Tm, X, Bm, n))), 1.0,
                       f"entrywise backward error/bound, diag exps {case['exps']}")
    out.nontrivial = r >= 2 or any(abs(e) >= 3 for e in case["exps"] if not isinstance(e, str))
    out.sample = {"n": n, "rhs": r, "mode": case["mode"], "exps": case["exps"]}
    return out


# ----------------------------------------------------------------------------
# scalar helpers: inverse and modulus in component form


@st.composite
def scalar_cases(draw, tier):
    q = draw(gen.nonzero_q(64))
    e = draw(st.integers(-6, 6))
    q = q / np.sqrt(np.sum(q * q)) * draw(st.sampled_from([1.0, 1.5, 2.0, 7.0, 0.3])) * 10.0 ** e
    arr = draw(st.booleans())
    return {"q": q, "array": arr}


def check_scalar(case):
    out = Out()
    q = case["q"]
    mod = float(np.sqrt(np.sum(q * q)))
    if case["array"]:
        args = [np.array([x, 2 * x]) for x in q]
    else:
        args = [np.float64(x) for x in q]
    ok, inv = out.call("dotinvQsparse", L.utils.dotinvQsparse, *args)
    if ok:
        iv = np.stack([np.asarray(x, dtype=float) for x in inv], axis=-1)
        qq = np.stack([np.asarray(x, dtype=float) for x in args], axis=-1)
        prod = ref.qmul(iv, qq)
        one = np.zeros_like(prod)
        one[..., 0] = 1.0
        out.le("dotinvQsparse:q^-1 * q = 1", float(np.max(np.abs(prod - one))), 16 * U_,
               f"|q| = {mod:.3e}")
    ok, r = out.call("absQsparse", L.utils.absQsparse, *args)
    if ok:
        rr = np.asarray(r[0], dtype=float)
        want = np.sqrt(sum(np.asarray(x, dtype=float) ** 2 for x in args))
        out.le("absQsparse:modulus", float(np.max(np.abs(rr - want) / want)), 4 * U_)
    out.nontrivial = not (1e-3 < mod < 1e3)
    out.label("array" if case["array"] else "scalar")
    return out


PROPERTY = Property(
    id="C16",
    title="Givens QR of Hessenberg matrices and triangular solves are exact building blocks",
    rule=("Hessenberg clause: k >= 2 with a zero/tiny sub-diagonal; triangular clause: >= 2 right-hand sides or a "
          "diagonal modulus differing from 1 by >= 1e3; rotation clauses: degenerate pair (zero, tiny, a zero component, "
          "equal norms) or the |x1|<|x2| ordering branch; scalar clause: |q| outside (1e-3,1e3)."),
    clauses=[
        Clause("ggivens", check_pair, strategy=pair_cases, budget={"quick": 1500, "thorough": 30000},
               fuzz={"runs": 6000, "procs": 3}),
        Clause("GRSGivens", check_grs, strategy=grs_cases, budget={"quick": 800, "thorough": 10000},
               fuzz={"runs": 4000, "procs": 2}),
        Clause("hess_qr", check_hess, strategy=hess_cases, budget={"quick": 500, "thorough": 8000}),
        Clause("triangular", check_tri, strategy=tri_cases, budget={"quick": 500, "thorough": 8000},
               fuzz={"runs": 3000, "procs": 3}),
        Clause("hess_qr_long_dimension", check_hess, strategy=long_hess_cases, budget={"quick": 40, "thorough": 400},
               shrink=False),
        Clause("triangular_long_dimension", check_tri, strategy=long_tri_cases, budget={"quick": 40, "thorough": 400},
               shrink=False),
        Clause("scalar_inverse", check_scalar, strategy=scalar_cases, budget={"quick": 600, "thorough": 8000}),
    ],
    assumptions=[
        "the in-place kernels (Hess_QR_ggivens, UtriangleQsparse) are given copies; their in-place behaviour is documented",
        "W/R are read through the solver's own [X0 X2 X1 X3] column layout (re-implemented in the harness)",
        "substitution oracle: entrywise backward error |TX-B| <= 64(n+2)u(|T||X|+|B|) with quaternion moduli",
    ],
)
