"""C13 - sketch-and-project, hybrid and CGNE solvers never flag a wrong inverse converged.

Entry points (quatica/solver.py):
  RandomizedSketchProjectPseudoinverse.compute / compute_column_variant / compute_row_variant,
  HybridRSPNewtonSchulz.compute, CGNEQSolver.compute.

Oracles (all independent of the library):
  * A^+, singular values, spectral norms: LAPACK on the harness's own complex adjoint (ref.pinv, ref.svals);
  * products / residuals: the harness's Hamilton product (ref.qmm);
  * the stopping sketch Pi / Theta and the per-step sketches Omega_k are *reconstructed* from the
    generated seed: the solvers document `seed` as "random seed for reproducibility" and draw from the
    global numpy generator, four `randn(rows, cols)` planes (w, x, y, z) per sketch, the test sketch
    first.  numpy's generator is trusted base, not code under test;
  * the reference trajectory (clause `trajectory_qr`) is the *documented* iteration - orthogonal
    projection onto {X : X Y_k = Omega_k}, i.e. X += (Omega_k - X Y_k) Y_k^+, with Y_k^+ from LAPACK,
    and the order-p hyperpower step X <- (I + F + ... + F^{p-1}) X, F = I - X A - carried together
    with a first-order forward error recursion, so the tolerance is computed, not guessed.

Notation: n = min(m, n) is the order of the identity the solver targets, E = X A - I_n (column
variant, m >= n) or A X - I_m (row variant), rho(Pi) = ||Pi||_F / (sigma_min(Pi) sqrt(n)).

Tolerances (derivations)
  TRUTH  reported last residual vs. ||Pi - X A Pi||_F/||Pi||_F recomputed for the returned X: both are
         double precision evaluations of the same expression in different association orders; each
         carries an absolute error <= gamma_{4(m+n+s)} ||X||_F ||A||_F (after division by ||Pi||_F).
         |reported - recomputed| <= 1e-8 * recomputed + C_T (m+n+s) u (1 + ||X||_F ||A||_F), C_T = 16
         (observed worst ratio ~1e-2 over 25k thorough cases).  For CGNE the reported value is the *recursive* residual
         R_k = R_{k-1} - alpha_k D_k A; its drift from I - X_k A accumulates one rounding of size
         u (||X_j||_F ||A||_F + ||R_j||_F) per step, and ||X_j||_F <= sqrt(n) (1 + r_j) ||A^+||_2 for iterates in
         the row space, hence the extra factor iterations * (1 + max_j r_j) * ||A||_F ||A^+||_2.
  FLAG   converged => ||E||_F/sqrt(n) <= M tol.  ||E Pi||_F >= sigma_min(Pi) ||E||_F when Pi has full
         row rank (n <= sketch width), so the stopping rule ||E Pi||_F <= tol ||Pi||_F implies
         ||E||_F/sqrt(n) <= rho(Pi) tol *deterministically*; M = max(10, 4 rho(Pi)) keeps the exact
         inequality at value/bound <= 0.25.  When Pi has fewer columns than rows (hybrid with n = 7;
         test_sketch_size 6 with n = 7) M = 10: a Gaussian quaternion sketch with >= 6 columns
         under-reports a rank-one E by 10x with probability < 1e-19 (chi^2_24 < 0.24).  Rounding slack:
         rho(Pi) times the TRUTH absolute term.
  ROW    iterates stay in the row space of A^H (X_0 = alpha A^H or 0, every update is (..) Y^H-like):
         ||X (I - A A^+)||_F <= C_ROW (iters + 10) u kappa ||X||_F, C_ROW = 1024 for the QR micro-solver
         (observed <= 6 u kappa per step; worst ratio ~1e-2 over 25k thorough cases), times p^2 for the hybrid (the hyperpower factor S has
         ||S||_2 <= p while ||F|| ~ 1 in the first cycles).  The SPD micro-solver solves the columns of
         (Y^H Y + 1e-10 I) Z = Y^H by *separate* CG runs which its `ok` test accepts at a relative residual
         of up to 1e-6, so an accepted Z = G^-1 Y^H - Delta, ||Delta_j|| <= 1e-6 ||Y^H e_j||/lambda_min(G), leaves the
         row space by design and the component is never corrected afterwards (first order: 1e-6 kappa
         kappa_F(Omega) sum_k ||E_k||).  Bound used: + 1e-7 kappa ||X||_F.  (On the current tree the `ok` test reads
         the residual of the step *before* the last one, so a CG result is always discarded in favour of the
         Newton-Schulz inverse G^-1 ~ f(G), which is applied to all columns alike and keeps the row space to
         rounding: observed worst 2e-14 kappa ||X||_F.)
  PINV   converged => ||X - A^+||_F <= ||A^+||_2 M tol sqrt(n) + ROW bound, from
         X - A^+ = E A^+ + X (I - A A^+)   (row variant: A^+ E + (I - A^+ A) X).
  DIST   every RSP step is an orthogonal projection onto an affine set containing A^+ (QR path), or
         e <- e (I - Y f(G) Y^H) with 0 <= f(lambda) <= 1/lambda (Newton-Schulz fallback started at (2/tr G) I
         and ridge), or a CG step, which minimises the G-norm of the micro-error; in all cases
         ||X_k - A^+||_F is non-increasing in exact arithmetic.  Checked as
         max(0, ||X - A^+||_F - ||X_0 - A^+||_F) <= SLACK ||X_0 - A^+||_F + C_ROW (iters+10) u kappa ||A^+||_F,
         SLACK = 1e-5 (QR) / 1e-3 (SPD, row).
         Plain CG on the normal equations has the same property (Hestenes-Stiefel), used for CGNE rank 0.
  MONO   CGNE rank 0: alpha_k = ||Z_k||^2/||W_k||^2 is the exact line search, so ||R_{k+1}||^2 = ||R_k||^2 -
         ||Z_k||^4/||W_k||^2 < ||R_k||^2; a relative error d in alpha (loss of conjugacy) still decreases the
         residual while |d| < 1.  Checked: r_{k+1} <= (1 + 1e-8) r_k.
  BUDGET CGNE rank 0 is global CG for X (A A^H) = A^H on the row space; the operator has at most n
         distinct eigenvalues, so exact arithmetic terminates in <= n steps; with kappa <= 1e3 and tol >=
         1e-8 >= 50 u kappa^2 the default budget (500) is ample: `converged` is required.
  TRAJ   see _RefTrajectory: forward error recursion with C_TRAJ = 64.

What is NOT demanded: progress or convergence of the randomized solvers.  (Observed, outside this
property: the 1x1 Newton-Schulz fallback inverse started at 2/tr(G) is exactly 0, so every SPD-path run
with block size 1 - row variant, column_solver="spd", CGNE preconditioner rank 1 - stands still with
residual 1 and converged=False; such runs are labelled, not failed.)
"""
import numpy as np
from hypothesis import strategies as st

from .. import gen, ref
from ..core import Clause, Out, Property
from ..env import L
from ..lib import F, Q, ahash, case_flag, quiet

U_ = ref.U
C_T = 16.0
C_ROW = 1024.0
SPD_ROW_TERM = 1e-7
C_TRAJ = 64.0
SLACK_QR = 1e-5
SLACK_SPD = 1e-3
MONO_SLACK = 1e-8
NMAX = 7

RSP = "RandomizedSketchProjectPseudoinverse"
HYB = "HybridRSPNewtonSchulz"
CGNE = "CGNEQSolver"


# ---------------------------------------------------------------------------------------------
# small numerical helpers (harness side only)


def _draw_sketch(rows, cols):
    """The documented sketch: four successive standard-normal planes from the global generator."""
    return np.stack([np.random.randn(rows, cols) for _ in range(4)], axis=-1)


def _norm2(A):
    if A.size == 0:
        return 0.0
    return float(np.linalg.norm(ref.chi_c(A), 2))


def _sigmas(A):
    """All singular values (non-increasing) of a quaternion matrix, via LAPACK on chi_c."""
    return ref.svals(A)


def _rho(Pi, n):
    """||Pi||_F / (sigma_min(Pi) sqrt(n)) if Pi (n x s) has full row rank, else None."""
    rows, s = Pi.shape[:2]
    if s < rows:
        return None
    sv = _sigmas(Pi)
    if len(sv) < rows or sv[-1] <= 1e-12 * sv[0]:
        return None
    return ref.fro(Pi) / (float(sv[-1]) * np.sqrt(n))


def _kappa_class(kappa):
    if kappa <= 1.0 + 1e-9:
        return "kappa=1"
    if kappa <= 3.5:
        return "kappa<=3"
    if kappa <= 35:
        return "kappa<=30"
    return "kappa<=1e3"


class _Problem:
    """Reference quantities of a full-rank input (column orientation: m >= n, target X A = I_n)."""

    def __init__(self, A):
        self.A = A
        self.m, self.n = A.shape[:2]
        sv = _sigmas(A)
        self.smax, self.smin = float(sv[0]), float(sv[-1])
        self.kappa = self.smax / self.smin
        self.P = ref.pinv(A)
        self.pinv2 = 1.0 / self.smin
        self.afro = ref.fro(A)
        self.I = ref.qeye(self.n)
        self.off = ref.qeye(self.m) - ref.qmm(A, self.P)      # I - A A^+

    def E(self, X):
        return ref.qmm(X, self.A) - self.I

    def x0(self):
        return ref.conjT(self.A) / (self.afro ** 2)


def _dist_floor(pb, iters):
    """Rounding floor of ||X - A^+||_F: the same c u kappa (iters + 10) as the row-space term, on ||A^+||_F
    (for n = 1 the start X_0 = A^H/||A||_F^2 already *is* A^+ and both distances are pure rounding)."""
    return C_ROW * (iters + 10) * U_ * pb.kappa * ref.fro(pb.P)


def _base_tags(m, n, block, solver, scale_exp, kappa):
    tags = [f"solver={solver}", "square" if m == n else "rectangular", _kappa_class(kappa)]
    if min(m, n) == 1:
        tags.append("n=1")           # single column (row): X_0 = A^H/||A||_F^2 is already A^+
    if block is not None:
        tags.append("block=1" if block == 1 else ("block=n" if block >= n else "1<block<n"))
    if scale_exp:
        tags.append("scaled")
    return tuple(tags)


def _info_ok(out, site, info, keys):
    ok = out.true(f"{site}:info is a dict with the documented keys",
                  isinstance(info, dict) and all(k in info for k in keys),
                  f"info = {type(info).__name__} keys={sorted(info) if isinstance(info, dict) else None}")
    if not ok:
        return None
    rn = info["residual_norms"]
    try:
        rn = [float(v) for v in rn]
    except Exception:  # noqa: BLE001
        out.true(f"{site}:residual_norms is a list of floats", False, repr(rn)[:120])
        return None
    return rn


def _x_ok(out, site, X, shape):
    if not out.true(f"{site}:X is a quaternion array of shape (n, m)",
                    isinstance(X, np.ndarray) and X.dtype == np.quaternion and X.shape == shape,
                    f"type {type(X).__name__} dtype {getattr(X, 'dtype', None)} shape {getattr(X, 'shape', None)} != {shape}"):
        return None
    Xf = F(X)
    if not out.true(f"{site}:X finite", bool(np.all(np.isfinite(Xf))), "returned X contains NaN/inf"):
        return None
    return Xf


def _truth(out, site, last, rec, dims, xa, extra=1.0):
    """Reported last residual is the residual of the returned iterate."""
    bound = 1e-8 * rec + C_T * dims * U_ * (1.0 + xa) * extra
    out.le(f"{site}:last residual is the residual of the returned X", abs(last - rec), bound,
           f"reported {last:.6e}, recomputed for the returned X {rec:.6e}")
    return C_T * dims * U_ * (1.0 + xa) * extra


def _flag_and_pinv(out, site, converged, Eres, dist, n, tol, rho, abs_slack, pinv2, row_bound):
    """converged => ||E||_F/sqrt(n) <= M tol  and  ||X - A^+||_F <= ||A^+||_2 M tol sqrt(n) + row-space term."""
    if not converged:
        return
    if rho is None:
        M = 10.0
        slack = abs_slack
        out.label("sketch_narrower_than_n")
    else:
        M = max(10.0, 4.0 * rho)
        slack = abs_slack * max(1.0, rho)
    en = Eres / np.sqrt(n)
    out.le(f"{site}:converged => ||E||_F/sqrt(n) <= M*tol", en, M * tol + slack,
           f"converged=True with ||E||_F/sqrt(n) = {en:.3e}, tol = {tol:.1e}, M = {M:.3g}")
    out.le(f"{site}:converged => X = A^+ to M*tol*sqrt(n) (+ row-space term)", dist,
           pinv2 * (M * tol + slack) * np.sqrt(n) + row_bound,
           f"converged=True with ||X-A^+||_F = {dist:.3e}, ||A^+||_2 = {pinv2:.3e}, tol = {tol:.1e}")


# ---------------------------------------------------------------------------------------------
# generators


def _block(n):
    """Block size in 1..n, mostly strictly between 1 and n (a genuinely iterative run that can progress:
    with block 1 the SPD micro-solver's 1x1 fallback inverse returns 0 and the run stands still)."""
    if n <= 2:
        return st.integers(1, n)
    return st.one_of(st.integers(2, n - 1), st.integers(2, n - 1), st.integers(1, n - 1), st.integers(1, n))


def _tol_strategy():
    return st.builds(lambda mant, e: mant * 10.0 ** e, st.sampled_from([1.0, 1.0, 2.5, 5.0]), st.integers(-8, -3)).filter(
        lambda t: t <= 1e-3)


KAPPAS_EASY = [1.0, 1.25, 1.5, 2.0, 2.0, 3.0]
KAPPAS_MID = [5.0, 10.0, 30.0]
KAPPAS_HARD = [100.0, 300.0, 1000.0]


@st.composite
def _spectrum(draw, n, weights=(6, 2, 2)):
    """n singular values in [1/kappa, 1], kappa <= 1e3; repeated values occur by construction."""
    pool = KAPPAS_EASY * weights[0] + KAPPAS_MID * weights[1] + KAPPAS_HARD * weights[2]
    kappa = draw(st.sampled_from(pool))
    if n == 1:
        return np.array([1.0]), 1.0
    ts = draw(st.lists(st.integers(0, 8), min_size=n - 2, max_size=n - 2))
    expo = sorted([0] + ts + [8])
    s = np.array([kappa ** (-t / 8.0) for t in expo], dtype=float)
    return s, kappa


@st.composite
def _tall_matrix(draw, weights=(6, 2, 2), nmax=NMAX, nmin=1):
    n = draw(st.sampled_from([v for v in (1, 2, 2, 3, 3, 3, 4, 4, 5, 5, 6, 7) if nmin <= v <= nmax]))
    m = min(nmax, n + draw(st.sampled_from([0, 0, 1, 1, 2, 3, 6])))
    s, _ = draw(_spectrum(n, weights))
    A = draw(gen.matrix_with_svals(m, n, s))
    if draw(st.integers(0, 4)) == 0 and s[-1] >= 0.3:
        # badly row-scaled (or column-scaled) but still cond <= ~1e3: structure that balancing / equilibration shortcuts see
        f = np.array(draw(st.lists(st.sampled_from([1.0, 1.0, 100.0, 300.0]), min_size=m, max_size=m)))
        if draw(st.booleans()):
            A = A * f[:, None, None]
        else:
            A = A * f[:n][None, :, None]
    e = draw(st.sampled_from([0] * 8 + [-3, -2, -1, 1, 2, 3]))
    if e:
        A = A * 10.0 ** e
    return np.ascontiguousarray(A), e


@st.composite
def _long_tall_matrix(draw, tier):
    """Tall L x n with L crossing the blocking sizes and n <= 4: PRNG entries (dyadic), cond close to 1."""
    n = draw(st.integers(1, 4))
    Lg = draw(gen.long_dim(cap=257 if tier == "quick" else 520))
    A, _ = draw(gen.long_qarray(Lg, n, "generic"))
    e = draw(st.sampled_from([0, 0, 0, -3, 2]))
    return np.ascontiguousarray(A / 16.0 * 10.0 ** e), e


@st.composite
def _moderate_tall_matrix(draw):
    """12..32 columns with a graded spectrum (cond up to 1e3): the sizes where floating-point CG needs
    several times n steps.  Unitary factors are two PRNG Householder reflectors each (the convergence
    history depends on the spectrum and on the components of the start, not on the factors' fine structure)."""
    n = draw(st.integers(12, 40))
    # aspect ratios up to 5 (a Gram-matrix shortcut for very tall inputs squares the conditioning once more)
    m = n + draw(st.sampled_from([0, 1, 5, n, 3 * n, 3 * n, 4 * n]))
    rng = np.random.RandomState(draw(st.integers(0, 2 ** 31 - 1)))
    kappa = draw(st.sampled_from(KAPPAS_MID + KAPPAS_HARD * 2))
    # n DISTINCT graded values (the few-valued spectra of _spectrum let CG finish in a handful of steps)
    expo = np.linspace(0.0, 1.0, n)
    if draw(st.booleans()):
        expo = np.sort(np.concatenate([[0.0, 1.0], rng.uniform(0.0, 1.0, n - 2)]))
    s = kappa ** (-expo)

    def factor(k):
        Qm = ref.qeye(k)
        for _ in range(2):
            u = np.round(rng.uniform(-1.0, 1.0, (k, 4)) * 32.0) / 32.0
            if not u.any():
                u[0, 0] = 1.0
            Qm = ref.qmm(gen.householder(u), Qm)
        return Qm

    A = ref.qmm(ref.scale_cols(factor(m)[:, :n], s), ref.conjT(factor(n)))
    e = draw(st.sampled_from([0, 0, 0, -3, 2]))
    return np.ascontiguousarray(A * 10.0 ** e), e


MAXIT = {"quick": [1, 3, 10, 30, 100, 300, 300, 300], "thorough": [1, 2, 3, 5, 10, 30, 100, 300, 300, 300, 1000]}


def _digest(x):
    """Value digest of a returned (X, info) pair (timing fields excluded): what a caller keeps from an earlier call on
    the same solver object must not change when the solver is used again."""
    if isinstance(x, dict):
        return tuple((str(k), _digest(v)) for k, v in sorted(x.items(), key=lambda kv: str(kv[0])) if "time" not in str(k).lower())
    if isinstance(x, (list, tuple)):
        return tuple(_digest(v) for v in x)
    if isinstance(x, np.ndarray):
        return ("nd", x.shape, str(x.dtype), ahash(x))
    return repr(x)


def _kept_result_check(out, site, keep):
    if "before" in keep:
        out.true(f"{site}:what the earlier call on the same solver returned is unchanged by the later call",
                 keep["before"] == keep.get("after"), "the (X, info) kept from the warm-up call changed during the next call")


def _warm_matrix(A):
    """A nearby full-rank matrix of the same shape for a warm-up call on the SAME solver object."""
    return A + (1.0 / 16.0) * ref.conj(A[::-1])


@st.composite
def rsp_column_cases(draw, tier, long=False):
    A, e = draw(_long_tall_matrix(tier) if long else _tall_matrix(weights=(8, 1, 1)))
    m, n = A.shape[:2]
    entry = draw(st.sampled_from(["compute", "compute", "compute_column_variant"]))
    block = draw(_block(n))
    if entry == "compute" and draw(st.integers(0, 9)) == 0:
        block = draw(st.sampled_from([n + 1, 16]))          # compute() documents the clamp to min(m, n)
    solver = draw(st.sampled_from(["qr", "qr", "qr", "spd", "spd", "QR", "Spd"]))   # the constructor lower-cases
    return {"A": A, "scale_exp": e, "entry": entry, "block": block, "solver": solver, "tol": draw(_tol_strategy()),
            "max_iter": draw(st.sampled_from(MAXIT[tier])), "sketch": draw(st.sampled_from([8, 8, 8, 8, 6, 7, 12])),
            "seed": draw(gen.seeds()), "seed_mode": draw(st.sampled_from(["ctor", "ctor", "global"])),
            "warmup": draw(st.sampled_from([False, False, True]))}


@st.composite
def rsp_row_cases(draw, tier, long=False):
    At, e = draw(_long_tall_matrix(tier) if long else _tall_matrix(weights=(8, 1, 1)))
    A = np.ascontiguousarray(ref.conjT(At))                  # wide: m <= n, full row rank
    m, n = A.shape[:2]
    entry = "compute_row_variant" if m == n else draw(st.sampled_from(["compute", "compute_row_variant"]))
    block = draw(_block(m))
    if draw(st.integers(0, 9)) == 0:
        block = draw(st.sampled_from([m + 1, 16]))           # the row variant clamps by itself
    mi = [v for v in MAXIT[tier] if v <= 300]
    return {"A": A, "scale_exp": e, "entry": entry, "block": block, "tol": draw(_tol_strategy()),
            "max_iter": draw(st.sampled_from(mi)), "sketch": draw(st.sampled_from([8, 8, 8, 8, 6, 7, 12])),
            "seed": draw(gen.seeds()), "seed_mode": draw(st.sampled_from(["ctor", "ctor", "global"]))}


@st.composite
def hybrid_cases(draw, tier, long=False):
    A, e = draw(_long_tall_matrix(tier) if long else _tall_matrix(weights=(4, 3, 3)))
    m, n = A.shape[:2]
    return {"A": A, "scale_exp": e, "r": draw(_block(n)), "p": draw(st.integers(2, 8)), "T": draw(st.integers(1, 5)),
            "solver": draw(st.sampled_from(["qr", "qr", "spd"])), "tol": draw(_tol_strategy()),
            "max_iter": draw(st.sampled_from([1, 2, 3, 5, 10, 20, 30, 50, 100, 200])),
            "seed": draw(gen.seeds()), "seed_mode": draw(st.sampled_from(["ctor", "ctor", "global"])),
            "warmup": draw(st.sampled_from([False, False, True]))}


@st.composite
def cgne_cases(draw, tier, long=False, moderate=False):
    A, e = draw(_moderate_tall_matrix() if moderate else _long_tall_matrix(tier) if long else _tall_matrix(weights=(3, 3, 4)))
    m, n = A.shape[:2]
    if not long and draw(st.integers(0, 5)) == 0:
        # square Hermitian inputs: positive definite, or indefinite with a positive diagonal (I + off-diagonal part) -
        # the class a "symmetric" shortcut would pick out
        n = n if moderate else max(n, 3)
        rng = np.random.RandomState(draw(gen.seeds()))
        Hm = gen.make_hermitian(rng.standard_normal((n, n, 4)))
        for i in range(n):
            Hm[i, i] = 0.0
        c_ = draw(st.sampled_from([0.25, 0.125, 0.5])) / np.sqrt(n) * 2.0
        A = ref.qeye(n) + c_ * Hm
        if ref.cond(A) > 1e3:
            A = ref.qeye(n) + 0.25 * c_ * Hm
        A = np.ascontiguousarray(A * 10.0 ** e)
        m = n
    pr = draw(st.sampled_from([0] * 8 + [2, n] if moderate else [0, 0, 0, 0, 1, 2, n, n + 1, -1]))
    max_iter = draw(st.sampled_from([None, None, None, 200, 80, 1000] if moderate else [None, None, None, 1, 2, 3, 10, 50]))
    tol = draw(st.sampled_from([1e-8, 2.5e-8, 1e-7, 1e-6, 1e-5, 1e-3])) if moderate else draw(_tol_strategy())
    return {"A": A, "scale_exp": e, "prec_rank": pr, "tol": tol, "max_iter": max_iter,
            "seed": draw(gen.seeds()), "warmup": draw(st.sampled_from([False, False, True]))}


@st.composite
def trajectory_cases(draw, tier):
    A, e = draw(_tall_matrix(weights=(6, 3, 1), nmin=1))
    m, n = A.shape[:2]
    kind = draw(st.sampled_from(["rsp", "hybrid", "hybrid"]))
    case = {"A": A, "scale_exp": e, "kind": kind, "tol": draw(_tol_strategy()), "seed": draw(gen.seeds())}
    if kind == "rsp":
        case.update(block=draw(_block(n)), max_iter=draw(st.sampled_from([1, 2, 3, 5, 8, 12, 20, 40])),
                    sketch=draw(st.sampled_from([8, 8, 6, 12])),
                    entry=draw(st.sampled_from(["compute", "compute_column_variant"])))
    else:
        case.update(r=draw(_block(n)), p=draw(st.integers(2, 8)), T=draw(st.integers(1, 5)),
                    max_iter=draw(st.sampled_from([1, 2, 3, 4, 5, 6, 8, 10, 12, 15, 20, 30])))
    return case


# ---------------------------------------------------------------------------------------------
# clause: RSP column variant


def check_rsp_column(case):
    A = case["A"]
    m, n = A.shape[:2]
    solver = case["solver"].lower()
    block_eff = max(1, min(case["block"], m, n))
    pb = _Problem(A)
    out = Out(tags=_base_tags(m, n, block_eff, solver, case["scale_exp"], pb.kappa))
    tol, seed, s = case["tol"], case["seed"], case["sketch"]
    site = f"{RSP}.{case['entry']}[{solver}]"
    out.label(f"solver={solver}", _kappa_class(pb.kappa), f"entry={case['entry']}",
              "block=n" if block_eff == n else "block<n", "square" if m == n else "tall")
    if case["scale_exp"]:
        out.label("scaled")
    if case["block"] > n:
        out.label("block_clamped_by_compute")
    Aq = Q(A)
    h0 = ahash(Aq)

    keep = {}

    def run():
        kw = dict(block_size=case["block"], max_iter=case["max_iter"], tol=tol, test_sketch_size=s,
                  column_solver=case["solver"], verbose=case_flag(A, 6))
        if case["seed_mode"] == "ctor":
            sol = L.solver.RandomizedSketchProjectPseudoinverse(seed=seed, **kw)
        else:
            sol = L.solver.RandomizedSketchProjectPseudoinverse(seed=None, **kw)
            np.random.seed(seed)
        if case.get("warmup"):
            # the SAME solver object first solves a nearby problem of the same shape; the measured call is then
            # re-seeded exactly like a fresh one (a result may depend on configuration and argument only)
            keep["w"] = getattr(sol, case["entry"])(Q(_warm_matrix(A)))
            keep["before"] = _digest(keep["w"])
            np.random.seed(seed)
        res_ = getattr(sol, case["entry"])(Aq)
        if "w" in keep:
            keep["after"] = _digest(keep["w"])
        return res_

    if case.get("warmup"):
        out.label("reused_solver(warm-up call on a nearby matrix)")
    ok, res = out.call(site, quiet, run)
    _kept_result_check(out, site, keep)
    if not ok:
        return out
    out.true(f"{site}:argument unchanged", ahash(Aq) == h0, "input array modified")
    if not out.true(f"{site}:returns (X, info)", isinstance(res, tuple) and len(res) == 2, repr(type(res))):
        return out
    X, info = res
    rn = _info_ok(out, site, info, ("iterations", "residual_norms", "converged"))
    X = _x_ok(out, site, X, (n, m))
    if rn is None or X is None:
        return out
    _check_rsp_common(out, site, pb, X, info, rn, tol, case["max_iter"], solver, block_eff,
                      Pi_shape=(n, s), seed=seed, orientation="col")
    return out


def _check_rsp_common(out, site, pb, X, info, rn, tol, max_iter, solver, block_eff, Pi_shape, seed, orientation):
    """Shared by the column variant (pb built from A) and the row variant (pb built from A^H, X^H passed)."""
    n, m = pb.n, pb.m
    converged = bool(info["converged"])
    out.true(f"{site}:iterations == len(residual_norms) <= max_iter",
             info["iterations"] == len(rn) and len(rn) <= max_iter, f"iterations={info['iterations']} len={len(rn)}")
    if not rn:
        # every sketch update failed and was skipped: nothing was reported, so nothing may be claimed
        out.true(f"{site}:empty history is not converged", not converged, "converged=True with an empty history")
        out.label("empty_history")
        return
    out.true(f"{site}:residual history finite", bool(np.all(np.isfinite(rn))), f"history tail {rn[-3:]}")
    out.true(f"{site}:converged == (last residual <= tol)", converged == (rn[-1] <= tol),
             f"converged={converged}, last={rn[-1]:.3e}, tol={tol:.1e}")
    out.true(f"{site}:stops at the first residual <= tol", all(v > tol for v in rn[:-1]),
             "an earlier residual was already <= tol")
    # --- (i) truthfulness: reconstruct the stopping sketch (first draw after seeding)
    np.random.seed(seed)
    Pi = _draw_sketch(*Pi_shape)
    E = pb.E(X)
    pin = ref.fro(Pi)
    rec = ref.fro(ref.qmm(E, Pi)) / pin
    xa = ref.fro(X) * pb.afro
    abs_slack = _truth(out, site, rn[-1], rec, m + n + Pi_shape[1], xa)
    # --- (iii) row space
    iters = len(rn)
    xf = ref.fro(X)
    rowdev = ref.fro(ref.qmm(X, pb.off))
    row_bound = C_ROW * (iters + 10) * U_ * pb.kappa * xf
    if solver == "spd":
        row_bound += SPD_ROW_TERM * pb.kappa * xf
    if m > n:
        out.le(f"{site}:iterate stays in the row space of A^H", rowdev, row_bound,
               f"||X(I-AA^+)||_F = {rowdev:.3e}, ||X||_F = {xf:.3e}, kappa = {pb.kappa:.3g}")
    # --- distance to A^+ never grows
    x0 = pb.x0() if orientation == "col" else np.zeros_like(X)
    d0 = ref.fro(x0 - pb.P)
    d1 = ref.fro(X - pb.P)
    slack = SLACK_QR if solver == "qr" else SLACK_SPD
    out.le(f"{site}:distance to A^+ never exceeds the initial distance", max(0.0, d1 - d0),
           slack * d0 + _dist_floor(pb, iters), f"||X-A^+||_F = {d1:.6e} > ||X_0-A^+||_F = {d0:.6e}")
    # --- (ii) flag soundness and accuracy
    rho = _rho(Pi, n)
    _flag_and_pinv(out, site, converged, ref.fro(E), d1, n, tol, rho, abs_slack, pb.pinv2, row_bound)
    out.label("converged" if converged else "not_converged")
    if rn[-1] < 1e-12:
        out.label("rounding_floor")
    out.label("iters=1" if iters == 1 else ("iters<=10" if iters <= 10 else ("iters<=100" if iters <= 100 else "iters>100")))
    out.nontrivial = bool(converged and n >= 2 and block_eff < n)
    out.sample = {"shape": [m, n], "kappa": pb.kappa, "block": block_eff, "iterations": iters, "last": rn[-1],
                  "E_over_sqrt_n": ref.fro(E) / np.sqrt(n), "dist_rel": d1 * pb.smin}


# ---------------------------------------------------------------------------------------------
# clause: RSP row variant (A wide, m <= n, target A X = I_m, X_0 = 0, stopping sketch Theta (m x s)).
# Reference quantities (kappa, A^+) are taken from the tall matrix A^H.


def check_rsp_row(case):
    A = case["A"]
    m, n = A.shape[:2]                      # m <= n
    block_eff = max(1, min(case["block"], m, n))
    At = ref.conjT(A)
    pb = _Problem(At)                       # pb.n == m
    out = Out(tags=_base_tags(n, m, block_eff, "row-spd", case["scale_exp"], pb.kappa))
    tol, seed, s = case["tol"], case["seed"], case["sketch"]
    site = f"{RSP}.{case['entry']}[row]"
    out.label(_kappa_class(pb.kappa), f"entry={case['entry']}", "block=m" if block_eff == m else "block<m",
              "square" if m == n else "wide")
    if case["scale_exp"]:
        out.label("scaled")
    Aq = Q(A)
    h0 = ahash(Aq)

    keep = {}

    def run():
        kw = dict(block_size=case["block"], max_iter=case["max_iter"], tol=tol, test_sketch_size=s, verbose=case_flag(A, 6))
        if case["seed_mode"] == "ctor":
            sol = L.solver.RandomizedSketchProjectPseudoinverse(seed=seed, **kw)
        else:
            sol = L.solver.RandomizedSketchProjectPseudoinverse(seed=None, **kw)
            np.random.seed(seed)
        return getattr(sol, case["entry"])(Aq)

    ok, res = out.call(site, quiet, run)
    _kept_result_check(out, site, keep)
    if not ok:
        return out
    out.true(f"{site}:argument unchanged", ahash(Aq) == h0, "input array modified")
    if not out.true(f"{site}:returns (X, info)", isinstance(res, tuple) and len(res) == 2, repr(type(res))):
        return out
    X, info = res
    rn = _info_ok(out, site, info, ("iterations", "residual_norms", "converged"))
    X = _x_ok(out, site, X, (n, m))
    if rn is None or X is None:
        return out
    # the stopping sketch multiplies E_row = A X - I from the right (E_row Theta), which is not the transposed
    # column problem's E_col Theta; so the row variant is evaluated directly, not through X^H.
    _check_row_direct(out, site, A, pb, X, info, rn, tol, case["max_iter"], block_eff, s, seed)
    return out


def _check_row_direct(out, site, A, pb, X, info, rn, tol, max_iter, block_eff, s, seed):
    m, n = A.shape[:2]
    converged = bool(info["converged"])
    out.true(f"{site}:iterations == len(residual_norms) <= max_iter",
             info["iterations"] == len(rn) and len(rn) <= max_iter, f"iterations={info['iterations']} len={len(rn)}")
    if not rn:
        # every sketch update failed and was skipped: nothing was reported, so nothing may be claimed
        out.true(f"{site}:empty history is not converged", not converged, "converged=True with an empty history")
        out.label("empty_history")
        return
    out.true(f"{site}:residual history finite", bool(np.all(np.isfinite(rn))), f"history tail {rn[-3:]}")
    out.true(f"{site}:converged == (last residual <= tol)", converged == (rn[-1] <= tol),
             f"converged={converged}, last={rn[-1]:.3e}, tol={tol:.1e}")
    out.true(f"{site}:stops at the first residual <= tol", all(v > tol for v in rn[:-1]),
             "an earlier residual was already <= tol")
    np.random.seed(seed)
    Theta = _draw_sketch(m, s)
    E = ref.qmm(A, X) - ref.qeye(m)
    rec = ref.fro(ref.qmm(E, Theta)) / ref.fro(Theta)
    xf = ref.fro(X)
    xa = xf * pb.afro
    abs_slack = _truth(out, site, rn[-1], rec, m + n + s, xa)
    iters = len(rn)
    P = ref.conjT(pb.P)                                     # A^+ (n x m)
    off = ref.qeye(n) - ref.qmm(P, A)                       # I - A^+ A
    rowdev = ref.fro(ref.qmm(off, X))
    row_bound = C_ROW * (iters + 10) * U_ * pb.kappa * xf
    if n > m:
        out.le(f"{site}:iterate stays in the range of A^H", rowdev, row_bound,
               f"||(I-A^+A)X||_F = {rowdev:.3e}, ||X||_F = {xf:.3e}, kappa = {pb.kappa:.3g}")
    d0 = ref.fro(P)                                         # X_0 = 0
    d1 = ref.fro(X - P)
    out.le(f"{site}:distance to A^+ never exceeds the initial distance", max(0.0, d1 - d0),
           SLACK_SPD * d0 + _dist_floor(pb, iters), f"||X-A^+||_F = {d1:.6e} > ||X_0-A^+||_F = ||A^+||_F = {d0:.6e}")
    # E Theta with Theta (m x s): sigma_min over the row space of Theta, as in the column case
    rho = _rho(Theta, m)
    _flag_and_pinv(out, site, converged, ref.fro(E), d1, m, tol, rho, abs_slack, pb.pinv2, row_bound)
    out.label("converged" if converged else "not_converged")
    if rn[-1] < 1e-12:
        out.label("rounding_floor")
    if iters >= 3 and rn[-1] > 0.999999:
        out.label("no_progress(residual stays 1)")
    out.label("iters=1" if iters == 1 else ("iters<=10" if iters <= 10 else ("iters<=100" if iters <= 100 else "iters>100")))
    out.nontrivial = bool(converged and m >= 2 and block_eff < m)
    out.sample = {"shape": [m, n], "kappa": pb.kappa, "block": block_eff, "iterations": iters, "last": rn[-1],
                  "E_over_sqrt_m": ref.fro(E) / np.sqrt(m), "dist_rel": d1 * pb.smin}


# ---------------------------------------------------------------------------------------------
# clause: hybrid RSP + hyperpower


def check_hybrid(case):
    A = case["A"]
    m, n = A.shape[:2]
    solver = case["solver"]
    r, p, T = case["r"], case["p"], case["T"]
    pb = _Problem(A)
    out = Out(tags=_base_tags(m, n, r, solver, case["scale_exp"], pb.kappa) + (f"p={p}",))
    tol, seed = case["tol"], case["seed"]
    site = f"{HYB}.compute[{solver}]"
    out.label(f"solver={solver}", _kappa_class(pb.kappa), "block=n" if r == n else "block<n", f"p={p}",
              "square" if m == n else "tall")
    if case["scale_exp"]:
        out.label("scaled")
    Aq = Q(A)
    h0 = ahash(Aq)

    keep = {}

    def run():
        kw = dict(r=r, p=p, T=T, tol=tol, max_iter=case["max_iter"], column_solver=solver, verbose=case_flag(A, 6))
        if case["seed_mode"] == "ctor":
            sol = L.solver.HybridRSPNewtonSchulz(seed=seed, **kw)
        else:
            sol = L.solver.HybridRSPNewtonSchulz(seed=None, **kw)
            np.random.seed(seed)
        if case.get("warmup"):
            keep["w"] = sol.compute(Q(_warm_matrix(A)))
            keep["before"] = _digest(keep["w"])
            np.random.seed(seed)
        res_ = sol.compute(Aq)
        if "w" in keep:
            keep["after"] = _digest(keep["w"])
        return res_

    ok, res = out.call(site, quiet, run)
    _kept_result_check(out, site, keep)
    if not ok:
        return out
    out.true(f"{site}:argument unchanged", ahash(Aq) == h0, "input array modified")
    if not out.true(f"{site}:returns (X, info)", isinstance(res, tuple) and len(res) == 2, repr(type(res))):
        return out
    X, info = res
    rn = _info_ok(out, site, info, ("iterations_rsp", "residual_norms", "converged"))
    X = _x_ok(out, site, X, (n, m))
    if rn is None or X is None:
        return out
    converged = bool(info["converged"])
    if not out.true(f"{site}:history non-empty (one entry per cycle)", len(rn) >= 1, "empty residual history"):
        return out
    out.true(f"{site}:residual history finite", bool(np.all(np.isfinite(rn))), f"history tail {rn[-3:]}")
    out.true(f"{site}:converged == (last residual <= tol)", converged == (rn[-1] <= tol),
             f"converged={converged}, last={rn[-1]:.3e}, tol={tol:.1e}")
    np.random.seed(seed)
    Pi = _draw_sketch(n, min(6, n))
    E = pb.E(X)
    rec = ref.fro(ref.qmm(E, Pi)) / ref.fro(Pi)
    xf = ref.fro(X)
    # the hyperpower factor is evaluated as a polynomial in F: the rounding of the returned X (and of
    # its residual) carries the factor sum_i ||F||^i <= p of the last cycle
    abs_slack = _truth(out, site, rn[-1], rec, m + n + 6, xf * pb.afro, extra=float(p))
    iters = int(info["iterations_rsp"])
    rowdev = ref.fro(ref.qmm(X, pb.off))
    row_bound = C_ROW * (iters + 10) * U_ * pb.kappa * xf * p * p
    if solver == "spd":
        row_bound += SPD_ROW_TERM * pb.kappa * xf * p * p
    if m > n:
        out.le(f"{site}:iterate stays in the row space of A^H", rowdev, row_bound,
               f"||X(I-AA^+)||_F = {rowdev:.3e}, ||X||_F = {xf:.3e}, kappa = {pb.kappa:.3g}")
    d1 = ref.fro(X - pb.P)
    _flag_and_pinv(out, site, converged, ref.fro(E), d1, n, tol, _rho(Pi, n), abs_slack, pb.pinv2, row_bound)
    out.label("converged" if converged else "not_converged")
    if rn[-1] < 1e-12:
        out.label("rounding_floor")
    out.label("cycles=1" if len(rn) == 1 else "cycles>1")
    out.nontrivial = bool(converged and n >= 2 and r < n)
    out.sample = {"shape": [m, n], "kappa": pb.kappa, "r": r, "p": p, "T": T, "iterations_rsp": iters, "last": rn[-1],
                  "E_over_sqrt_n": ref.fro(E) / np.sqrt(n), "dist_rel": d1 * pb.smin}
    return out


# ---------------------------------------------------------------------------------------------
# clause: CGNE


def check_cgne(case):
    A = case["A"]
    m, n = A.shape[:2]
    pr = case["prec_rank"]
    pr_eff = pr if 0 < pr <= n else 0          # documented: rank <= 0 or > n means no preconditioner
    pb = _Problem(A)
    cls = "deterministic" if pr_eff == 0 else "preconditioned"
    out = Out(tags=_base_tags(m, n, None, cls, case["scale_exp"], pb.kappa))
    tol, seed = case["tol"], case["seed"]
    site = f"{CGNE}.compute[{cls}]"
    budget = 500 if case["max_iter"] is None else case["max_iter"]
    out.label(cls, _kappa_class(pb.kappa), "square" if m == n else "tall",
              "default_budget" if case["max_iter"] is None else "small_budget")
    if case["scale_exp"]:
        out.label("scaled")
    Aq = Q(A)
    h0 = ahash(Aq)

    keep = {}

    def run():
        kw = dict(tol=tol, preconditioner_rank=pr, seed=seed, verbose=case_flag(A, 6))
        if case["max_iter"] is not None:
            kw["max_iter"] = case["max_iter"]
        sol = L.solver.CGNEQSolver(**kw)
        if case.get("warmup"):
            keep["w"] = sol.compute(Q(_warm_matrix(A)))
            keep["before"] = _digest(keep["w"])
            if seed is not None:
                np.random.seed(seed)
        res_ = sol.compute(Aq)
        if "w" in keep:
            keep["after"] = _digest(keep["w"])
        return res_

    ok, res = out.call(site, quiet, run)
    _kept_result_check(out, site, keep)
    if not ok:
        return out
    out.true(f"{site}:argument unchanged", ahash(Aq) == h0, "input array modified")
    if not out.true(f"{site}:returns (X, info)", isinstance(res, tuple) and len(res) == 2, repr(type(res))):
        return out
    X, info = res
    rn = _info_ok(out, site, info, ("iterations", "residual_norms", "converged"))
    X = _x_ok(out, site, X, (n, m))
    if rn is None or X is None:
        return out
    converged = bool(info["converged"])
    out.true(f"{site}:iterations == len(residual_norms) <= max_iter",
             info["iterations"] == len(rn) and len(rn) <= budget, f"iterations={info['iterations']} len={len(rn)}")
    E = pb.E(X)
    d1 = ref.fro(X - pb.P)
    xf = ref.fro(X)
    iters = len(rn)
    if rn:
        out.true(f"{site}:residual history finite", bool(np.all(np.isfinite(rn))), f"history tail {rn[-3:]}")
        out.true(f"{site}:converged == (last residual <= tol)", converged == (rn[-1] <= tol),
                 f"converged={converged}, last={rn[-1]:.3e}, tol={tol:.1e}")
        out.true(f"{site}:stops at the first residual <= tol", all(v > tol for v in rn[:-1]),
                 "an earlier residual was already <= tol")
        rec = ref.fro(E) / np.sqrt(n)
        rmax = max([1.0] + [v for v in rn if np.isfinite(v)])
        drift = iters * (1.0 + rmax) * pb.afro * pb.pinv2
        abs_slack = _truth(out, site, rn[-1], rec, m + n, xf * pb.afro, extra=1.0 + drift)
    else:
        # the loop left through its ||D A||_F <= 1e-20 guard before recording anything (the start is
        # already a stationary point); whatever the flag says is judged on the returned X below
        out.label("empty_history")
        abs_slack = C_T * (m + n) * U_ * (1.0 + xf * pb.afro)
    rowdev = ref.fro(ref.qmm(X, pb.off))
    rmax = max([1.0] + [v for v in rn if np.isfinite(v)])
    row_bound = C_ROW * (iters + 10) * U_ * pb.kappa * max(xf, rmax * np.sqrt(n) * pb.pinv2)
    if m > n:
        out.le(f"{site}:iterate stays in the row space of A^H", rowdev, row_bound,
               f"||X(I-AA^+)||_F = {rowdev:.3e}, ||X||_F = {xf:.3e}, kappa = {pb.kappa:.3g}")
    # flag soundness for every configuration (rho = 1: the full residual is monitored)
    _flag_and_pinv(out, site, converged, ref.fro(E), d1, n, tol, 1.0, abs_slack, pb.pinv2, row_bound)
    if pr_eff == 0:
        # (iv) deterministic CGNE
        worst = 0.0
        for a, b in zip(rn[:-1], rn[1:]):
            if a > 0:
                worst = max(worst, b / a - 1.0)
        out.le(f"{site}:residual history non-increasing", worst, MONO_SLACK,
               f"a residual grew by the factor 1+{worst:.3e}")
        d0 = ref.fro(pb.x0() - pb.P)
        out.le(f"{site}:distance to A^+ never exceeds the initial distance", max(0.0, d1 - d0),
               SLACK_QR * d0 + _dist_floor(pb, iters), f"||X-A^+||_F = {d1:.6e} > ||X_0-A^+||_F = {d0:.6e}")
        if case["max_iter"] is None and tol >= 50.0 * U_ * pb.kappa ** 2:
            out.true(f"{site}:converges within the default budget (tol >= 50 u kappa^2)", converged,
                     f"not converged after {iters} iterations, last = {rn[-1] if rn else None}, kappa = {pb.kappa:.3g}")
        if not converged and iters < budget:
            # the only exit before the budget without meeting tol is the stationarity guard ||D A||_F <= 1e-20,
            # i.e. the accuracy floor: a run that is abandoned anywhere else did not use "its budget"
            out.label("left_before_budget_unconverged")
            out.le(f"{site}:an unconverged run uses its whole budget unless it sits at the accuracy floor",
                   ref.fro(E) / np.sqrt(n), 50.0 * U_ * pb.kappa ** 2 + abs_slack,
                   f"stopped after {iters} of {budget} iterations with last residual {rn[-1] if rn else None}, "
                   f"tol={tol:.1e}, kappa={pb.kappa:.3g}")
        if iters > 2 * n + 2:
            out.label("iterations>2n+2")
    else:
        if rn and max(rn) > 10.0:
            out.label("preconditioned_run_diverged")
    out.label("converged" if converged else "not_converged")
    out.nontrivial = bool(converged and n >= 2 and iters >= 2)
    out.sample = {"shape": [m, n], "kappa": pb.kappa, "prec_rank": pr, "iterations": iters,
                  "last": rn[-1] if rn else None, "dist_rel": d1 * pb.smin}
    return out


# ---------------------------------------------------------------------------------------------
# clause: reference trajectory for the QR micro-solver (RSP column variant and hybrid)


class _RefTrajectory:
    """The documented iteration carried in the harness's own arithmetic together with a first-order
    bound `err` on ||X_lib - X_ref||_F.

    RSP step (affine in X, Z = Y^+ depends on the sketch only):
        X' = X + (Omega - X Y) Z,   dX' = dX (I - Y Z),  ||I - Y Y^+||_2 = 1          -> err' = err + local
        local = c u [ ||R||_F kappa(Y) ||Y^+||_2      (backward stable QR + back substitution: dZ <= c u kappa(Y) ||Y^+||)
                    + ||X||_F ||A||_F ||Omega||_F ||Y^+||_2   (rounding of Y = A Omega and of X Y inside R)
                    + ||R||_F ||Y^+||_2 + ||X'||_F ]        (product R Z, final addition)
    hyperpower step X' = S X, S = sum_{i<p} F^i, F = I - X A:
        dF = -dX A,  dS = sum_{i=1}^{p-1} sum_{j<i} F^j dF F^{i-1-j}
        err' = (g0 + ||A||_2 ||X||_2 g1) err + local,  g0 = sum_{i<p} f^i, g1 = sum_{i=1}^{p-1} i f^{i-1}, f = ||F||_2
        local = c u p (g0 + ||A||_F ||X||_F g1) ||X||_F
    Second-order terms are negligible while err ||A||_2 g1 << 1; the comparison stops (label) once the
    bound exceeds 1e-6 ||A^+||_2.  c = C_TRAJ * (m + n)."""

    def __init__(self, pb, seed, sketch_cols):
        self.pb = pb
        self.cu = C_TRAJ * (pb.m + pb.n) * U_
        np.random.seed(seed)
        self.Pi = _draw_sketch(pb.n, sketch_cols)
        self.APi = ref.qmm(pb.A, self.Pi)
        self.pin = ref.fro(self.Pi)
        self.api2 = _norm2(self.APi)
        self.X = pb.x0()
        self.err = self.cu * ref.fro(self.X)
        self.a2 = pb.smax
        self.loose = False

    def rsp_step(self, r):
        pb = self.pb
        Om = _draw_sketch(pb.n, r)
        Y = ref.qmm(pb.A, Om)
        sv = _sigmas(Y)
        ypinv2 = 1.0 / float(sv[-1])
        kY = float(sv[0]) * ypinv2
        R = Om - ref.qmm(self.X, Y)
        Xn = self.X + ref.qmm(R, ref.pinv(Y))
        rf, xf = ref.fro(R), ref.fro(self.X)
        self.err += self.cu * (rf * kY * ypinv2 + xf * pb.afro * ref.fro(Om) * ypinv2 + rf * ypinv2 + ref.fro(Xn))
        self.X = Xn

    def ns_step(self, p):
        pb = self.pb
        Fm = pb.I - ref.qmm(self.X, pb.A)
        f = _norm2(Fm)
        g0 = sum(f ** i for i in range(p))
        g1 = sum(i * f ** (i - 1) for i in range(1, p))
        S = pb.I.copy()
        Fp = Fm.copy()
        for _ in range(1, p):
            S = S + Fp
            Fp = ref.qmm(Fp, Fm)
        xf = ref.fro(self.X)
        x2 = _norm2(self.X)
        self.err = (g0 + self.a2 * x2 * g1) * self.err + self.cu * p * (g0 + pb.afro * xf * g1) * xf
        self.X = ref.qmm(S, self.X)

    def proxy(self):
        """(value, bound on |library value - value|)."""
        pb = self.pb
        v = ref.fro(self.Pi - ref.qmm(self.X, self.APi)) / self.pin
        b = self.err * self.api2 / self.pin + self.cu * (1.0 + ref.fro(self.X) * pb.afro)
        if self.err > 1e-6 * pb.pinv2:
            self.loose = True
        return v, b


def _ref_rsp(pb, seed, s, block, tol, max_iter):
    tr = _RefTrajectory(pb, seed, s)
    hist = []
    ambiguous = None
    for k in range(max_iter):
        tr.rsp_step(block)
        v, b = tr.proxy()
        hist.append((v, b))
        if tr.loose or abs(v - tol) <= 4.0 * b + 1e-9 * tol:
            ambiguous = k
            break
        if v <= tol:
            break
    return tr, hist, ambiguous


def _ref_hybrid(pb, seed, r, p, T, tol, max_iter):
    tr = _RefTrajectory(pb, seed, min(6, pb.n))
    hist = []
    ambiguous = None
    it = 0

    def record():
        v, b = tr.proxy()
        hist.append((v, b))
        if tr.loose or abs(v - tol) <= 4.0 * b + 1e-9 * tol:
            return None
        return v <= tol

    while it < max_iter and ambiguous is None:
        for _ in range(T):
            tr.rsp_step(r)
            it += 1
            if it % 10 == 0:
                d = record()
                if d is None:
                    ambiguous = len(hist) - 1
                    break
                if d:
                    break
        if ambiguous is not None:
            break
        tr.ns_step(p)
        d = record()
        if d is None:
            ambiguous = len(hist) - 1
            break
        if d:
            break
    return tr, hist, ambiguous, it


def check_trajectory(case):
    A = case["A"]
    m, n = A.shape[:2]
    pb = _Problem(A)
    kind = case["kind"]
    tol, seed = case["tol"], case["seed"]
    block = case["block"] if kind == "rsp" else case["r"]
    out = Out(tags=_base_tags(m, n, block, "qr", case["scale_exp"], pb.kappa))
    out.label(kind, _kappa_class(pb.kappa), "block=n" if block == n else "block<n", "square" if m == n else "tall")
    Aq = Q(A)
    if kind == "rsp":
        site = f"{RSP}.{case['entry']}[qr]"

        def run():
            sol = L.solver.RandomizedSketchProjectPseudoinverse(
                block_size=block, max_iter=case["max_iter"], tol=tol, test_sketch_size=case["sketch"], seed=seed,
                column_solver="qr")
            return getattr(sol, case["entry"])(Aq)
    else:
        site = f"{HYB}.compute[qr]"

        def run():
            sol = L.solver.HybridRSPNewtonSchulz(r=block, p=case["p"], T=case["T"], tol=tol,
                                                 max_iter=case["max_iter"], seed=seed, column_solver="qr")
            return sol.compute(Aq)

    ok, res = out.call(site, quiet, run)
    if not ok:
        return out
    if not out.true(f"{site}:returns (X, info)", isinstance(res, tuple) and len(res) == 2, repr(type(res))):
        return out
    X, info = res
    rn = _info_ok(out, site, info, ("residual_norms", "converged"))
    X = _x_ok(out, site, X, (n, m))
    if rn is None or X is None:
        return out
    if kind == "rsp":
        tr, hist, ambiguous = _ref_rsp(pb, seed, case["sketch"], block, tol, case["max_iter"])
        it_ref = len(hist)
    else:
        tr, hist, ambiguous, it_ref = _ref_hybrid(pb, seed, block, case["p"], case["T"], tol, case["max_iter"])
    # residual history, entry by entry, on the prefix where the reference decisions are unambiguous
    ncmp = min(len(rn), len(hist))
    worst = (0.0, 1.0, -1)
    for k in range(ncmp):
        v, b = hist[k]
        dv = abs(rn[k] - v)
        if not np.isfinite(dv):
            worst = (float("nan"), b, k)
            break
        if dv / b > worst[0] / worst[1]:
            worst = (dv, b, k)
    if ncmp:
        k = worst[2]
        out.le(f"{site}:residual history equals the documented iteration's history", worst[0], worst[1],
               f"entry {k}: reported {rn[k] if k >= 0 else None}, reference {hist[k][0] if k >= 0 else None}")
    if ambiguous is None:
        out.true(f"{site}:history length equals the documented iteration's", len(rn) == len(hist),
                 f"library recorded {len(rn)} residuals, the reference iteration {len(hist)}")
        if kind == "hybrid" and "iterations_rsp" in info:
            out.true(f"{site}:iterations_rsp equals the documented iteration's", int(info["iterations_rsp"]) == it_ref,
                     f"library {info['iterations_rsp']} RSP steps, reference {it_ref}")
        if len(rn) == len(hist):
            dx = ref.fro(X - tr.X)
            out.le(f"{site}:returned X equals the documented iteration's iterate", dx, tr.err + 1e-300,
                   f"||X_lib - X_ref||_F = {dx:.3e}, ||X_ref||_F = {ref.fro(tr.X):.3e}")
            out.true(f"{site}:converged flag equals the documented iteration's",
                     bool(info["converged"]) == (hist[-1][0] <= tol),
                     f"library converged={bool(info['converged'])}, reference last = {hist[-1][0]:.3e}, tol = {tol:.1e}")
            out.label("compared_to_the_end")
    else:
        out.label("bound_loose" if tr.loose else "stop_decision_within_rounding")
    out.label("converged" if bool(info["converged"]) else "not_converged")
    out.label("history=1" if len(rn) == 1 else "history>1")
    out.nontrivial = bool(ambiguous is None and bool(info["converged"]) and n >= 2 and block < n)
    out.sample = {"shape": [m, n], "kappa": pb.kappa, "kind": kind, "block": block, "history": len(rn),
                  "err_bound_rel": tr.err * pb.smin}
    return out


# ---------------------------------------------------------------------------------------------
# clause: orientation guards (exhaustive over shapes <= 5)


def _hval(*key):
    import hashlib
    h = hashlib.sha256(repr(key).encode()).digest()
    return (int.from_bytes(h[:4], "big") % 33 - 16) / 16.0


def enum_guards(tier):
    cases = []
    hi = 5
    for m in range(1, hi + 1):
        for n in range(1, hi + 1):
            if m < n:
                for which in ("rsp_column_qr", "rsp_column_spd", "hybrid_qr", "hybrid_spd", "cgne", "cgne_prec"):
                    cases.append({"which": which, "m": m, "n": n})
            elif m > n:
                cases.append({"which": "rsp_row", "m": m, "n": n})
    return cases


def check_guard(case):
    m, n, which = case["m"], case["n"], case["which"]
    out = Out(tags=(which,))
    A = np.array([[[_hval(which, m, n, i, j, c) for c in range(4)] for j in range(n)] for i in range(m)]).reshape(m, n, 4)
    for i in range(min(m, n)):
        A[i, i, 0] += 3.0                                   # full rank, well conditioned
    Aq = Q(A)
    S = L.solver
    mk = {
        "rsp_column_qr": lambda: S.RandomizedSketchProjectPseudoinverse(block_size=1, max_iter=3, seed=1).compute_column_variant(Aq),
        "rsp_column_spd": lambda: S.RandomizedSketchProjectPseudoinverse(block_size=1, max_iter=3, seed=1, column_solver="spd").compute_column_variant(Aq),
        "rsp_row": lambda: S.RandomizedSketchProjectPseudoinverse(block_size=1, max_iter=3, seed=1).compute_row_variant(Aq),
        "hybrid_qr": lambda: S.HybridRSPNewtonSchulz(r=1, p=2, T=1, max_iter=2, seed=1).compute(Aq),
        "hybrid_spd": lambda: S.HybridRSPNewtonSchulz(r=1, p=2, T=1, max_iter=2, seed=1, column_solver="spd").compute(Aq),
        "cgne": lambda: S.CGNEQSolver(max_iter=3).compute(Aq),
        "cgne_prec": lambda: S.CGNEQSolver(max_iter=3, preconditioner_rank=1, seed=1).compute(Aq),
    }[which]
    site = f"orientation guard {which}"
    out.label(which)
    try:
        mk()
        out.true(f"{site}:raises ValueError", False, f"no exception for a {m}x{n} input in the wrong orientation")
    except ValueError:
        pass
    except Exception as e:  # noqa: BLE001
        out.true(f"{site}:raises ValueError", False, f"raised {type(e).__name__}: {e}"[:200])
    out.nontrivial = True
    return out


PROPERTY = Property(
    id="C13",
    title="Sketch-and-project, hybrid and CGNE solvers never flag a wrong inverse converged",
    rule=("rsp_column / rsp_row / hybrid / trajectory_qr: a run that reports converged=True on an input with "
          "min(m,n) >= 2 and sketch block < min(m,n) (a genuinely iterative run; for trajectory_qr additionally "
          "compared with the reference iteration to the end); cgne: converged with n >= 2 after >= 2 iterations; "
          "guards: every enumerated wrong-orientation shape. Distinct = distinct input digest (matrix, configuration, seed)."),
    clauses=[
        Clause("rsp_column", check_rsp_column, strategy=rsp_column_cases, budget={"quick": 320, "thorough": 6000}),
        Clause("rsp_row", check_rsp_row, strategy=rsp_row_cases, budget={"quick": 160, "thorough": 3000}),
        Clause("hybrid", check_hybrid, strategy=hybrid_cases, budget={"quick": 320, "thorough": 6000}),
        Clause("cgne", check_cgne, strategy=cgne_cases, budget={"quick": 240, "thorough": 4000}),
        Clause("rsp_column_long_dimension", check_rsp_column, strategy=lambda tier: rsp_column_cases(tier, long=True),
               budget={"quick": 16, "thorough": 160}, shrink=False),
        Clause("rsp_row_long_dimension", check_rsp_row, strategy=lambda tier: rsp_row_cases(tier, long=True),
               budget={"quick": 12, "thorough": 120}, shrink=False),
        Clause("hybrid_long_dimension", check_hybrid, strategy=lambda tier: hybrid_cases(tier, long=True),
               budget={"quick": 16, "thorough": 160}, shrink=False),
        Clause("cgne_long_dimension", check_cgne, strategy=lambda tier: cgne_cases(tier, long=True),
               budget={"quick": 16, "thorough": 160}, shrink=False),
        Clause("cgne_moderate_size", check_cgne, strategy=lambda tier: cgne_cases(tier, moderate=True),
               budget={"quick": 32, "thorough": 400}, shrink=False),
        Clause("trajectory_qr", check_trajectory, strategy=trajectory_cases, budget={"quick": 320, "thorough": 6000}),
        Clause("guards", check_guard, enumerate=enum_guards, budget={"quick": 0, "thorough": 0}),
    ],
    assumptions=[
        "numpy-quaternion dtype conversions (as_quat_array/as_float_array) are trusted",
        "numpy's legacy global generator (np.random.seed / randn) is trusted base; the solvers' documented sketch "
        "(four successive randn(rows, cols) planes w,x,y,z; test sketch first) is reconstructed from the seed",
        "A^+, singular values and spectral norms come from LAPACK on the harness's own complex adjoint; products from ref.qmm",
        "flag soundness uses M = max(10, 4 rho(Pi)) (deterministic when the test sketch has full row rank); for a test "
        "sketch narrower than n (hybrid with n = 7, test_sketch_size 6 with n = 7) M = 10 rests on the stated probability < 1e-19",
        "convergence itself is only demanded of the deterministic CGNE solver (preconditioner rank 0, default budget); "
        "the randomized solvers are only held to what they report",
        "SPD micro-solver: the row-space clause carries the extra 1e-7 kappa ||X|| term (column-wise CG accepted at 1e-6)",
    ],
    exhaustive_note="guards enumerates every shape m != n with m, n <= 5 in the wrong orientation for each guarded entry point (6 column-type entry points x 10 wide shapes + the row variant x 10 tall shapes = 70 cases)",
)
