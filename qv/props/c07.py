"""C07 - LU with partial pivoting reproduces A in both output modes, loud when singular."""
import hashlib
import itertools

import numpy as np
from hypothesis import strategies as st
from hypothesis.extra import numpy as hnp

from .. import gen, ref
from ..core import Clause, Out, Property
from ..env import L
from ..lib import F, Q, ahash

U_ = ref.U
C_RECON = 100.0     # |PA - LU|_F <= C_RECON * N * u * |L|_F |U|_F   (backward-error form)


def _hval(*key):
    """Deterministic dyadic value in [-1, 1] from a key (a hash, not an RNG)."""
    h = hashlib.sha256(repr(key).encode()).digest()
    return (int.from_bytes(h[:4], "big") % 33 - 16) / 16.0


def is_involution(perm):
    return all(perm[perm[i]] == i for i in range(len(perm)))


def build_forced(perm, n, lmult, udiag, uoff, scale=1.0):
    """A (m x n) whose partial-pivoting LU is forced through `perm`:
    (P A)[i] = A[perm[i]] = (L U)[i] with |multipliers| <= 1/2 and |U_jj| in [1,4]."""
    m = len(perm)
    N = min(m, n)
    Lm = np.zeros((m, N, 4))
    Um = np.zeros((N, n, 4))
    for i in range(m):
        for j in range(N):
            if i == j:
                Lm[i, j, 0] = 1.0
            elif i > j:
                Lm[i, j] = 0.25 * lmult[i, j]        # components in [-1/4,1/4] -> modulus <= 1/2
    for i in range(N):
        for j in range(n):
            if i == j:
                d = udiag[i].copy()
                nd = float(np.sqrt(np.sum(d * d)))
                if nd == 0.0:
                    d = np.array([1.0, 0.0, 0.0, 0.0])
                    nd = 1.0
                Um[i, j] = d / nd * (1.0 + 3.0 * min(1.0, nd / 2.0))   # modulus in [1, 4]
            elif j > i:
                Um[i, j] = 2.0 * uoff[i, j]
    LU = ref.qmm(Lm, Um)
    A = np.zeros((m, n, 4))
    for i in range(m):
        A[perm[i]] = LU[i]
    return A * scale


def perm_of_P(P):
    """Row -> column index of the unit entry; None if P is not an exact permutation matrix."""
    m = P.shape[0]
    if P.shape != (m, m, 4):
        return None
    if np.any(P[..., 1:] != 0.0):
        return None
    W = P[..., 0]
    if not np.all((W == 0.0) | (W == 1.0)):
        return None
    if not (np.all(W.sum(axis=0) == 1.0) and np.all(W.sum(axis=1) == 1.0)):
        return None
    return [int(np.argmax(W[i])) for i in range(m)]


def check_lu(A, out, expect_perm=None, may_raise=False, where=""):
    m, n, _ = A.shape
    N = min(m, n)
    Aq = Q(A)
    h0 = ahash(Aq)
    lu = L.LU.quaternion_lu
    try:
        L3, U3, P3 = lu(Aq, return_p=True)
        raised3 = None
    except ValueError as e:
        raised3 = e
    except Exception as e:  # noqa: BLE001
        out.true("quaternion_lu(return_p=True):exception type", False, f"raised {type(e).__name__}: {e}"[:200])
        return
    try:
        L2, U2 = lu(Aq, return_p=False)
        raised2 = None
    except ValueError as e:
        raised2 = e
    except Exception as e:  # noqa: BLE001
        out.true("quaternion_lu(return_p=False):exception type", False, f"raised {type(e).__name__}: {e}"[:200])
        return
    out.true("argument unchanged", ahash(Aq) == h0, "input array modified by quaternion_lu")
    out.true("both modes agree on raising", (raised2 is None) == (raised3 is None),
             f"3-output raised={raised3!r}, 2-output raised={raised2!r}")
    if raised3 is not None or raised2 is not None:
        out.label("raised")
        if not may_raise:
            out.true("no spurious singularity error", False,
                     f"ValueError on a matrix with pivots of modulus >= 1e-12: {raised3 or raised2}")
        return
    L3, U3, P3, L2, U2 = F(L3), F(U3), F(P3), F(L2), F(U2)
    anorm = ref.fro(A)
    # ---- structure, three-output
    s3 = "quaternion_lu(return_p=True)"
    perm = perm_of_P(P3)
    out.true(f"{s3}:P is a permutation matrix", perm is not None, "P is not an exact 0/1 permutation matrix")
    ok_shapes = out.true(f"{s3}:shapes", L3.shape == (m, N, 4) and U3.shape == (N, n, 4),
                         f"L {L3.shape} U {U3.shape} for A {A.shape}")
    if not ok_shapes or perm is None:
        return
    iu = np.triu_indices(m, 1, N)
    out.true(f"{s3}:L unit lower trapezoidal",
             np.all(L3[iu] == 0.0) and all(np.array_equal(L3[i, i], [1.0, 0, 0, 0]) for i in range(N)),
             "L has non-zero above the diagonal or non-unit diagonal")
    il = np.tril_indices(N, -1, n)
    out.true(f"{s3}:U upper trapezoidal", np.all(U3[il] == 0.0), "U has non-zero below the diagonal")
    if np.all(np.isfinite(L3)):
        mult = float(np.max(ref.modulus(L3))) if L3.size else 0.0
        out.le(f"{s3}:multipliers <= 1", mult, 1.0 + 16 * U_, "a multiplier exceeds modulus 1")
    # ---- reconstruction
    bound = C_RECON * max(1, N) * U_ * ref.fro(L3) * ref.fro(U3) + 1e-300
    PA = np.stack([A[perm[i]] for i in range(m)], axis=0) if m else A
    out.le(f"{s3}:PA=LU", ref.fro(PA - ref.qmm(L3, U3)), bound, f"||PA-LU||_F, ||A||_F={anorm:.3e}")
    s2 = "quaternion_lu(return_p=False)"
    if out.true(f"{s2}:shapes", L2.shape == (m, N, 4) and U2.shape == (N, n, 4), f"L {L2.shape} U {U2.shape}"):
        out.le(f"{s2}:A=LU", ref.fro(A - ref.qmm(L2, U2)), bound, f"||A-L2U2||_F, ||A||_F={anorm:.3e}")
        out.equal_bits(f"{s2}:U equals three-output U", U2, U3)
        rows3 = sorted(L3[i].tobytes() for i in range(m))
        rows2 = sorted(L2[i].tobytes() for i in range(m))
        out.true(f"{s2}:L is a row permutation of L", rows2 == rows3, "rows of two-output L are not a permutation of L")
    # ---- forced pivot order
    if expect_perm is not None:
        out.true("pivot order follows the unique maximum", list(perm[:N]) == list(expect_perm[:N]),
                 f"returned P rows {perm[:N]} != forced {list(expect_perm[:N])}")
    if not is_involution(perm):
        out.nontrivial = True
        out.label("returned_perm_non_involutive")
    out.sample = {"shape": [m, n], "returned_perm": perm}


# ----------------------------------------------------------------------------
# clause 1: exhaustive over all permutations, m <= 5


def enum_forced(tier):
    cases = []
    mmax = 5
    for m in range(1, mmax + 1):
        for pidx, perm in enumerate(itertools.permutations(range(m))):
            widths = sorted({max(1, m - 1), m, m + 1, 1})
            for n in widths:
                for d in range(2 if tier == "quick" else 4):
                    cases.append({"perm": list(perm), "n": n, "draw": d})
    return cases


def _forced_from_enum(case):
    perm, n, d = case["perm"], case["n"], case["draw"]
    m = len(perm)
    N = min(m, n)
    key = (tuple(perm), n, d)
    lmult = np.array([[[_hval("l", key, i, j, c) for c in range(4)] for j in range(N)] for i in range(m)]).reshape(m, N, 4)
    udiag = np.array([[_hval("d", key, i, c) for c in range(4)] for i in range(N)]).reshape(N, 4)
    uoff = np.array([[[_hval("u", key, i, j, c) for c in range(4)] for j in range(n)] for i in range(N)]).reshape(N, n, 4)
    return build_forced(perm, n, lmult, udiag, uoff)


def check_forced_enum(case):
    out = Out()
    A = _forced_from_enum(case)
    out.label(f"m={len(case['perm'])}")
    if not is_involution(case["perm"]):
        out.label("forced_non_involutive")
    check_lu(A, out, expect_perm=case["perm"])
    # non-triviality by the stated rule: the FORCED permutation is not an involution
    out.nontrivial = not is_involution(case["perm"])
    return out


# ----------------------------------------------------------------------------
# clause 2: generated forced permutations (m <= 6), generated entries and scale


@st.composite
def forced_cases(draw, tier):
    m = draw(st.integers(1, 6 if tier == "quick" else 7))
    perm = draw(st.permutations(list(range(m))))
    n = draw(st.sampled_from(sorted({max(1, m - 1), m, m + 1, 1, m + 2})))
    N = min(m, n)
    el = gen.dyadic(0, 0, 16)
    lmult = draw(hnp.arrays(np.float64, (m, N, 4), elements=el, fill=st.nothing()))
    udiag = draw(hnp.arrays(np.float64, (N, 4), elements=gen.dyadic(0, 0, 32), fill=st.nothing()))
    uoff = draw(hnp.arrays(np.float64, (N, n, 4), elements=el, fill=st.nothing()))
    e = draw(st.sampled_from([0, 0, 0, -12, -6, 6, 12]))
    return {"perm": list(perm), "n": n, "lmult": lmult, "udiag": udiag, "uoff": uoff, "scale_exp": e}


def check_forced_gen(case):
    out = Out()
    A = build_forced(case["perm"], case["n"], case["lmult"], case["udiag"], case["uoff"], 10.0 ** case["scale_exp"])
    if case["scale_exp"]:
        out.label("scaled")
    m, n = A.shape[:2]
    out.label("tall" if m > n else ("wide" if m < n else "square"))
    check_lu(A, out, expect_perm=case["perm"])
    out.nontrivial = not is_involution(case["perm"])
    if out.nontrivial:
        out.label("forced_non_involutive")
    return out


# ----------------------------------------------------------------------------
# clause 3: arbitrary matrices (ties, integers, zero columns, singular)


@st.composite
def arbitrary_cases(draw, tier, size=None):
    lo_, hi = size or (1, 6 if tier == "quick" else 7)
    m = draw(st.integers(lo_, hi))
    n = draw(st.sampled_from([m, m]) if size and draw(st.booleans()) else st.integers(lo_, hi))
    m, n = draw(gen.maybe_high_aspect(m, n, one_in=10))
    A = draw(gen.qmat(m, n, patterns=("generic", "generic", "int", "pure_imag", "axis", "sparse", "unit", "zero", "units", "units")))
    kind = draw(st.sampled_from(["plain", "plain", "zero_col", "dup_row", "scaled", "row_dominant", "col_dominant", "banded",
                                 "banded", "leading_triangle", "hermitian", "hermitian"]))
    A = A.copy()
    if kind == "hermitian" and m == n:
        # exactly Hermitian (indefinite, often with a zero or small diagonal: saddle-point / adjacency type), so that
        # interchanges are needed and destroy the symmetry of the trailing block
        A = gen.make_hermitian(A)
        sub = draw(st.sampled_from(["as_is", "hollow", "saddle", "small_diagonal"]))
        for i in range(n):
            if sub == "hollow" or (sub == "saddle" and i >= (n + 1) // 2):
                A[i, i] = 0.0
            elif sub == "small_diagonal":
                A[i, i] = A[i, i] / 64.0
        if sub == "saddle":
            h = (n + 1) // 2
            A[h:, h:] = 0.0
        kind = "hermitian:" + sub
    if kind == "banded":
        # exact zeros outside a band, sub-diagonal entries often larger than the diagonal: interchanges create fill-in
        # beyond the band of the input
        lo, up = draw(st.integers(1, 2)), draw(st.integers(0, 2))
        ii, jj = np.indices((m, n))
        A = A * (((ii - jj) <= lo) & ((jj - ii) <= up))[..., None]
        if draw(st.booleans()):
            for i in range(min(m, n)):
                A[i, i] = A[i, i] / 8.0
    elif kind == "leading_triangle":
        # the leading min(m,n) block is exactly upper triangular with a non-zero diagonal; rows below it (tall) are dense
        for i in range(min(m, n)):
            A[i, :i] = 0.0
            if not A[i, i].any():
                A[i, i] = draw(gen.unit_q(exact=True))
    if kind in ("row_dominant", "col_dominant") and m == n:
        # strictly diagonally dominant by rows resp. by columns (one does not imply the other): partial pivoting keeps
        # the diagonal only for COLUMN dominance
        mod = ref.modulus(A)
        np.fill_diagonal(mod, 0.0)
        sums = mod.sum(axis=1 if kind == "row_dominant" else 0)
        for i in range(n):
            A[i, i] = draw(gen.unit_q()) * (float(sums[i]) + draw(st.sampled_from([0.125, 0.5, 1.0])))
        # scaling the rows (resp. columns) keeps row (resp. column) dominance and destroys the other one
        f = 2.0 ** np.array(draw(st.lists(st.integers(-6, 6), min_size=n, max_size=n)), dtype=float)
        A = A * (f[:, None, None] if kind == "row_dominant" else f[None, :, None])
    if kind == "zero_col":
        A[:, draw(st.integers(0, n - 1))] = 0.0
    elif kind == "dup_row" and m >= 2:
        i = draw(st.integers(0, m - 1))
        j = draw(st.integers(0, m - 1))
        A[i] = A[j]
    elif kind == "scaled":
        A = A * 10.0 ** draw(st.sampled_from([-12, -6, 6, 12, -100, 100]))
    return {"A": A, "kind": kind}


@st.composite
def long_lu_cases(draw, tier):
    """Tall / wide with one long dimension, or a square matrix just past the blocking sizes 32 / 64."""
    shape = draw(st.sampled_from(["tall", "wide", "square", "wilkinson"]))
    wilk = shape == "wilkinson"
    if wilk:
        m = draw(st.sampled_from([65, 70, 72]))
        n = m + draw(st.sampled_from([0, 0, 20]))
        shape = "square" if m == n else "wide"
    elif shape == "square":
        m = n = draw(st.sampled_from([33, 64, 65] if tier == "quick" else [33, 64, 65, 100, 129]))
    else:
        Lg, sh = draw(gen.long_dim(cap=257 if tier == "quick" else 520)), draw(st.integers(1, 3))
        m, n = (Lg, sh) if shape == "tall" else (sh, Lg)
    A, pat = draw(gen.long_qarray(m, n, draw(st.sampled_from(["generic", "int", "sparse"]))))
    if wilk:
        # A = L0 U0 with a unit lower triangle whose leading multipliers all equal -c (c just below 1, one phase):
        # no interchanges, no element growth in U, but L0's leading triangle is as ill conditioned as a triangle with
        # multipliers <= 1 can be (Wilkinson's example) - explicit inverses of panel triangles lose many digits
        k = min(m, n)
        c = draw(st.sampled_from([0.99, 0.9375, 1.0]))
        L0 = ref.qeye(m)[:, :k].copy()
        rng = np.random.RandomState(draw(gen.seeds()))
        Rnd = rng.uniform(-0.5, 0.5, size=(m, k, 4))
        for i in range(m):
            for j in range(min(i, k)):
                L0[i, j] = [-c, 0, 0, 0] if (i < 40 and j < 40) else Rnd[i, j]
        U0, _ = draw(gen.long_qarray(k, n, "generic"))
        U0 = U0 / (4.0 * n)
        for i in range(k):
            U0[i, :i] = 0.0
            U0[i, i] = [2.0 + (i % 3), 0, 0, 0]
        A = ref.qmm(L0, U0)
        return {"A": A, "kind": "long:wilkinson_" + shape}
    return {"A": A, "kind": "long:" + shape}


def check_arbitrary(case):
    out = Out()
    out.label(case["kind"])
    check_lu(case["A"], out, expect_perm=None, may_raise=True)
    return out


PROPERTY = Property(
    id="C07",
    title="LU with partial pivoting reproduces A in both output modes, loud when singular",
    rule=("forced-permutation clauses: the constructed pivot permutation is NOT an involution (has a cycle of "
          "length >= 3); arbitrary-matrix clause: the returned permutation is not an involution. Distinct = distinct "
          "input digest."),
    clauses=[
        Clause("forced_perm_exhaustive", check_forced_enum, enumerate=enum_forced, budget={"quick": 0, "thorough": 0}),
        Clause("forced_perm_generated", check_forced_gen, strategy=forced_cases,
               budget={"quick": 400, "thorough": 6000}),
        Clause("arbitrary", check_arbitrary, strategy=arbitrary_cases, budget={"quick": 600, "thorough": 8000},
               fuzz={"runs": 4000, "procs": 4}),
        Clause("arbitrary_moderate_size", check_arbitrary, strategy=lambda tier: arbitrary_cases(tier, size=(9, 20 if tier == "quick" else 40)),
               budget={"quick": 40, "thorough": 400}, shrink=False),
        Clause("arbitrary_long_dimension", check_arbitrary, strategy=long_lu_cases, budget={"quick": 32, "thorough": 320},
               shrink=False),
    ],
    assumptions=[
        "numpy-quaternion dtype conversions (as_quat_array/as_float_array) are trusted",
        "reference products use the harness's own Hamilton table (qv/ref.py), not the library",
        "a ValueError is accepted (never required) on arbitrary inputs; on constructed inputs with pivots >= 1e-12 it is a failure",
    ],
    exhaustive_note="forced_perm_exhaustive enumerates all 153 permutations of m<=5 rows x widths {1,m-1,m,m+1} x 2-4 entry draws",
)
