"""C01 - the quaternion matrix product is the Hamilton product in every storage format."""
import itertools

import numpy as np
from hypothesis import strategies as st
from scipy import sparse as sp

from .. import gen, ref
from ..core import Clause, Out, Property
from ..env import L
from ..lib import F, Q, S, SF, ahash, to_float

U_ = ref.U


def _coo_dup(P):
    """COO matrix equal to P whose triplets repeat every position (a stored as a/2 + a/2: exact)."""
    r, c = np.nonzero(P)
    v = P[r, c] / 2.0
    return sp.coo_matrix((np.concatenate([v, v]), (np.concatenate([r, r]), np.concatenate([c, c]))), shape=P.shape)


def planes(A, sparse=False):
    if sparse == "coo_dup":
        return tuple(_coo_dup(np.ascontiguousarray(A[..., c])) for c in range(4))
    if sparse == "csc":
        return tuple(sp.csc_matrix(A[..., c]) for c in range(4))
    if sparse:
        return tuple(sp.csr_matrix(A[..., c]) for c in range(4))
    return tuple(np.ascontiguousarray(A[..., c]) for c in range(4))


def all_paths(A, B, out, site_prefix=""):
    """Every storage path of the product; returns {path name: (m,n,4) float array}."""
    u = L.utils
    res = {}
    Aq, Bq = Q(A), Q(B)
    As, Bs = S(A), S(B)
    calls = {
        "quat_matmat(dense,dense)": lambda: u.quat_matmat(Aq, Bq),
        "quat_matmat(sparse,dense)": lambda: u.quat_matmat(As, Bq),
        "quat_matmat(dense,sparse)": lambda: u.quat_matmat(Aq, Bs),
        "quat_matmat(sparse,sparse)": lambda: u.quat_matmat(As, Bs),
        "sparse@dense": lambda: As @ Bq,
        "sparse@sparse": lambda: As @ Bs,
        "left_multiply": lambda: Bs.left_multiply(Aq),
        "timesQsparse(dense planes)": lambda: np.stack(u.timesQsparse(*planes(A), *planes(B)), axis=-1),
        "timesQsparse(sparse planes)": lambda: np.stack(u.timesQsparse(*planes(A, True), *planes(B, True)), axis=-1),
        "timesQsparse(COO planes with repeated triplets, CSC planes)":
            lambda: np.stack(u.timesQsparse(*planes(A, "coo_dup"), *planes(B, "csc")), axis=-1),
        "SparseQuaternionMatrix(from COO with repeated triplets)@sparse(from CSC)":
            lambda: u.SparseQuaternionMatrix(*planes(A, "coo_dup"), A.shape[:2]) @ u.SparseQuaternionMatrix(*planes(B, "csc"), B.shape[:2]),
    }
    for name, fn in calls.items():
        ok, r = out.call(site_prefix + name, fn)
        if ok:
            res[name] = to_float(r)
    return res


def u_():
    return L.utils


def noncommuting_pair(A, B):
    m, k, _ = A.shape
    n = B.shape[1]
    for i in range(m):
        for t in range(k):
            va = A[i, t, 1:]
            if not va.any():
                continue
            for j in range(n):
                vb = B[t, j, 1:]
                if np.any(np.cross(va, vb) != 0.0):
                    return True
    return False


# ----------------------------------------------------------------------------
# clause 1: exhaustive basis-unit pairs at every position of small shapes

SMALL_SHAPES = [s for s in itertools.product((1, 2), repeat=3)] + [(3, 2, 3)]


def enum_basis(tier):
    cases = []
    for (m, k, n) in SMALL_SHAPES:
        for i in range(m):
            for t in range(k):
                for t2 in range(k):
                    for j in range(n):
                        for a in range(4):
                            for b in range(4):
                                cases.append({"shape": [m, k, n], "pa": [i, t], "pb": [t2, j], "a": a, "b": b})
    return cases


def check_basis(case):
    out = Out()
    m, k, n = case["shape"]
    A = np.zeros((m, k, 4))
    B = np.zeros((k, n, 4))
    A[case["pa"][0], case["pa"][1], case["a"]] = 1.0
    B[case["pb"][0], case["pb"][1], case["b"]] = 1.0
    expected = np.zeros((m, n, 4))
    if case["pa"][1] == case["pb"][0]:
        ea = [1.0 if c == case["a"] else 0.0 for c in range(4)]
        eb = [1.0 if c == case["b"] else 0.0 for c in range(4)]
        expected[case["pa"][0], case["pb"][1]] = ref.ham(ea, eb)
    for name, C in all_paths(A, B, out).items():
        out.equal_bits(name + ":basis units", C, expected, f"e{case['a']}*e{case['b']}")
    # non-trivial: the two units meet (inner indices match) and do not commute
    out.nontrivial = (case["pa"][1] == case["pb"][0] and case["a"] != case["b"] and case["a"] > 0 and case["b"] > 0)
    return out


# ----------------------------------------------------------------------------
# clause 2: generated products against the exact rational product


@st.composite
def product_cases(draw, tier, size=None):
    lo_, hi = size or (1, 5 if tier == "quick" else 7)
    m, k, n = draw(st.integers(lo_, hi)), draw(st.integers(lo_, hi)), draw(st.integers(lo_, hi))
    A, pa = draw(gen.qarray(m, k, None, -60, 60))
    B, pb = draw(gen.qarray(k, n, None, -60, 60))
    if draw(st.integers(0, 7)) == 0:
        # the four component planes have the SAME number of stored entries per row but at different columns (one entry
        # per row and plane, cyclically shifted): equal CSR row pointers, different column indices
        sh = draw(st.lists(st.integers(0, max(0, k - 1)), min_size=4, max_size=4))
        vals = draw(gen.qarray(m, 1, "int"))[0][:, 0, :]
        A = np.zeros((m, k, 4))
        for c in range(4):
            for i in range(m):
                A[i, (i + sh[c]) % k, c] = vals[i, c] if vals[i, c] != 0 else 1.0
        pa = "plane_shifted"
    return {"A": A, "B": B, "pa": pa, "pb": pb}


@st.composite
def long_product_cases(draw, tier):
    """One of m / k / n long (crossing the blocking sizes 32..512), the others <= 3."""
    which = draw(st.sampled_from(["m", "k", "k", "n", "mk", "kn"]))
    dims = {d: draw(st.integers(1, 3)) for d in "mkn"}
    if len(which) == 2:
        # two moderately long dimensions: an operand with thousands of entries (size-switched code paths)
        for d in which:
            dims[d] = draw(st.sampled_from([33, 64, 65, 70]))
    else:
        dims[which] = draw(gen.long_dim(cap=300 if tier == "quick" else None))
    A, pa = draw(gen.long_qarray(dims["m"], dims["k"]))
    B, pb = draw(gen.long_qarray(dims["k"], dims["n"]))
    return {"A": A, "B": B, "pa": pa, "pb": pb}


def check_product(case):
    out = Out()
    A, B = case["A"], case["B"]
    m, k, _ = A.shape
    n = B.shape[1]
    out.label("patA=" + case["pa"], "patB=" + case["pb"])
    Ce, Se = ref.mat_mul_exact(A, B)
    Cx = ref.exact_to_float(Ce)
    Sx = ref.exact_to_float(Se)
    bound = (4 * k + 4) * 4 * U_ * Sx + 1e-300
    paths = all_paths(A, B, out)
    for name, C in paths.items():
        if not out.true(name + ":shape", C.shape == (m, n, 4), f"{C.shape}"):
            continue
        err = np.abs(C - Cx)
        ratio = float(np.max(err / bound))
        out.le(name + ":C=sum_k A_ik*B_kj", ratio, 1.0, f"max entrywise error/bound over {m}x{n} entries")
    # objects DERIVED from a sparse product (conjugate transpose, scalar multiple) and the product itself are independent
    # values: taking the norm of one (which may canonicalise its storage) must leave the others what they were
    okp, Cs = (out.call("sparse@sparse (kept)", lambda: S(A) @ S(B)) if m * k * n <= 4096 else (False, None))   # small and moderate cases only
    if okp:
        okd, D = out.call("quat_hermitian(sparse product)", u_().quat_hermitian, Cs)
        oke, E = out.call("sparse product * 2.0", lambda: Cs * 2.0)
        okf, c0 = out.call("read sparse product", to_float, Cs)
        if okd and oke and okf:
            d0, e0 = to_float(D), to_float(E)
            for nm_, obj in (("conjugate transpose", D), ("scalar multiple", E), ("product", Cs)):
                out.call(f"quat_frobenius_norm({nm_} of a sparse product)", u_().quat_frobenius_norm, obj)
            for nm_, obj, want in (("product", Cs, c0), ("conjugate transpose", D, d0), ("scalar multiple", E, e0)):
                okr, got = out.call(f"read {nm_} again", to_float, obj)
                if okr:
                    out.true(f"sparse product and derived objects:{nm_} unchanged after norms of the others were taken",
                             got.shape == want.shape and bool(np.array_equal(got, want)), "values changed")
            out.le("quat_hermitian(sparse product):equals conjugate transpose of the product", float(np.max(np.abs(d0 - ref.conjT(c0)))) if c0.size else 0.0, 0.0)
    # successive kernel calls whose left operands SHARE the real-part object (A, then conj(A) written as
    # (A0, -A1, -A2, -A3)): each call must answer for the planes it was given
    pA, pB = planes(A, True), planes(B, True)
    ok1, _ = out.call("timesQsparse(sparse planes), first of two calls", u_().timesQsparse, *pA, *pB)
    ok2, r2 = out.call("timesQsparse(sparse planes; same real-part object, negated imaginary planes)", u_().timesQsparse,
                       pA[0], -pA[1], -pA[2], -pA[3], *pB)
    if ok1 and ok2:
        C2 = to_float(np.stack([np.asarray(x) for x in r2], axis=-1))
        Ce2, Se2 = ref.mat_mul_exact(ref.conj(A), B)
        b2 = (4 * k + 4) * 4 * U_ * ref.exact_to_float(Se2) + 1e-300
        if out.true("timesQsparse(shared real-part object):shape", C2.shape == (m, n, 4), f"{C2.shape}"):
            out.le("timesQsparse(shared real-part object):second call answers for ITS planes (conj(A) B)",
                   float(np.max(np.abs(C2 - ref.exact_to_float(Ce2)) / b2)), 1.0)
    # the SAME object as both operands (A A for square A: powers, Gram-type products): one argument aliases the other
    if m == k:
        Ce3, Se3 = ref.mat_mul_exact(A, A)
        b3 = (4 * k + 4) * 4 * U_ * ref.exact_to_float(Se3) + 1e-300
        Aq_, As_, pl_, pls_ = Q(A), S(A), planes(A), planes(A, True)
        same = {"quat_matmat(dense X, the same X)": (lambda: u_().quat_matmat(Aq_, Aq_)),
                "quat_matmat(sparse X, the same X)": (lambda: u_().quat_matmat(As_, As_)),
                "sparse X @ the same X": (lambda: As_ @ As_),
                "timesQsparse(dense planes of X, the same plane objects)": (lambda: np.stack(u_().timesQsparse(*pl_, *pl_), axis=-1)),
                "timesQsparse(sparse planes of X, the same plane objects)": (lambda: np.stack(u_().timesQsparse(*pls_, *pls_), axis=-1))}
        for nm, fn in same.items():
            ok3, r3 = out.call(nm, fn)
            if ok3:
                C3 = to_float(r3)
                if out.true(nm + ":shape", C3.shape == (m, m, 4), f"{C3.shape}"):
                    out.le(nm + ":equals X X", float(np.max(np.abs(C3 - ref.exact_to_float(Ce3)) / b3)), 1.0)
        out.true("X X with one object as both operands:operand unchanged",
                 np.array_equal(to_float(Aq_), A) and np.array_equal(to_float(As_), A), "the operand was modified")
    # 1-D quaternion vectors (numpy's own vector type): the dense product follows numpy's matmul shapes on this tree.
    # The documented domain is 2-D ("vectors are matrices with one column"), so a rejection is accepted - a value
    # that is returned must be the Hamilton product.
    if n == 1:
        try:
            r = u_().quat_matmat(Q(A), Q(B)[:, 0].copy())
        except Exception:  # noqa: BLE001
            out.label("1d_right_rejected")
        else:
            try:
                C1 = to_float(r)
            except Exception as e:  # noqa: BLE001
                C1 = None
                out.true("quat_matmat(dense, 1-D vector):returns a quaternion array", False, f"{type(e).__name__}: {e}"[:200])
            if C1 is not None and out.true("quat_matmat(dense, 1-D vector):shape (m,)", C1.shape == (m, 4), f"{C1.shape}"):
                out.le("quat_matmat(dense, 1-D vector):C_i=sum_k A_ik*x_k",
                       float(np.max(np.abs(C1 - Cx[:, 0]) / bound[:, 0])), 1.0)
                out.label("1d_right_checked")
    if m == 1:
        try:
            r = u_().quat_matmat(Q(A)[0].copy(), Q(B))
        except Exception:  # noqa: BLE001
            out.label("1d_left_rejected")
        else:
            try:
                C1 = to_float(r)
            except Exception as e:  # noqa: BLE001
                C1 = None
                out.true("quat_matmat(1-D vector, dense):returns a quaternion array", False, f"{type(e).__name__}: {e}"[:200])
            if C1 is not None and out.true("quat_matmat(1-D vector, dense):shape (n,)", C1.shape == (n, 4), f"{C1.shape}"):
                out.le("quat_matmat(1-D vector, dense):C_j=sum_k x_k*B_kj",
                       float(np.max(np.abs(C1 - Cx[0]) / bound[0])), 1.0)
                out.label("1d_left_checked")
    names = list(paths)
    for x, y in zip(names, names[1:]):
        if paths[x].shape == paths[y].shape:
            r = float(np.max(np.abs(paths[x] - paths[y]) / (2 * bound)))
            out.le(f"paths agree", r, 1.0, f"{x} vs {y}")
    out.nontrivial = k >= 2 and noncommuting_pair(A, B)
    if out.nontrivial:
        out.label("noncommuting")
    out.sample = {"shape": [m, k, n], "patterns": [case["pa"], case["pb"]]}
    return out


# ----------------------------------------------------------------------------
# clause 3: component-form kernel with the shapes Q-GMRES uses


@st.composite
def kernel_cases(draw, tier):
    N = draw(st.integers(1, 6))
    kind = draw(st.sampled_from(["inner", "mat_x_scalar", "scalar_x_mat", "one_elem_x_row"]))
    V, _ = draw(gen.qarray(N, 1, draw(st.sampled_from(["generic", "int", "pure_imag", "sparse"]))))
    W, _ = draw(gen.qarray(N, 1, draw(st.sampled_from(["generic", "int", "pure_imag", "sparse"]))))
    q = draw(gen.nonzero_q())
    ncols = draw(st.integers(1, 3))
    R, _ = draw(gen.qarray(1, ncols, "generic"))
    return {"kind": kind, "V": V, "W": W, "q": q, "R": R}


def check_kernel(case):
    out = Out()
    u = L.utils
    kind = case["kind"]
    V, W, q, R = case["V"], case["W"], case["q"], case["R"]
    N = V.shape[0]
    out.label(kind)
    if kind == "inner":
        # (1 x N)(N x 1): <v, w> = v^H w as Q-GMRES forms it
        VH = ref.conjT(V)
        ok, r = out.call("timesQsparse(1xN,Nx1)", u.timesQsparse, *planes(VH), *planes(W))
        if ok:
            got = np.array([np.asarray(x).reshape(()) for x in r], dtype=float)
            Ce, Se = ref.mat_mul_exact(VH, W)
            want = ref.exact_to_float(Ce)[0, 0]
            bnd = (4 * N + 4) * 4 * U_ * ref.exact_to_float(Se)[0, 0] + 1e-300
            out.le("timesQsparse(1xN,Nx1):inner product", float(np.max(np.abs(got - want) / bnd)), 1.0)
    elif kind == "mat_x_scalar":
        sc = tuple(np.float64(x) for x in q)
        ok, r = out.call("timesQsparse(matrix,scalar)", u.timesQsparse, *planes(V), *sc)
        if ok:
            got = np.stack([np.asarray(x, dtype=float) for x in r], axis=-1)
            want = ref.qmul(V, q.reshape(1, 1, 4))
            absb = _abs_bound(V, q.reshape(1, 1, 4))
            out.true("timesQsparse(matrix,scalar):shape", got.shape == want.shape, f"{got.shape}")
            if got.shape == want.shape:
                out.le("timesQsparse(matrix,scalar):v*q", float(np.max(np.abs(got - want) / absb)), 1.0)
    elif kind == "scalar_x_mat":
        sc = tuple(np.float64(x) for x in q)
        ok, r = out.call("timesQsparse(scalar,matrix)", u.timesQsparse, *sc, *planes(V))
        if ok:
            got = np.stack([np.asarray(x, dtype=float) for x in r], axis=-1)
            want = ref.qmul(q.reshape(1, 1, 4), V)
            absb = _abs_bound(q.reshape(1, 1, 4), V)
            out.true("timesQsparse(scalar,matrix):shape", got.shape == want.shape, f"{got.shape}")
            if got.shape == want.shape:
                out.le("timesQsparse(scalar,matrix):q*v", float(np.max(np.abs(got - want) / absb)), 1.0)
    else:
        # one-element arrays times a row (the form UtriangleQsparse uses: delta (1,) x b[n-1,:] (ncols,))
        one = tuple(np.array([x]) for x in q)
        row = tuple(np.ascontiguousarray(R[0, :, c]) for c in range(4))
        if R.shape[1] == 1:
            ok, r = out.call("timesQsparse((1,),(1,))", u.timesQsparse, *one, *row)
            if ok:
                got = np.array([np.asarray(x, dtype=float).reshape(()) for x in r])
                want = ref.qmul(q, R[0, 0])
                absb = _abs_bound(q, R[0, 0])
                out.le("timesQsparse((1,),(1,)):q*r", float(np.max(np.abs(got - want) / absb)), 1.0)
    out.nontrivial = N >= 2 or kind != "inner"
    return out


def _abs_bound(P, Qq):
    """8u * sum |partial products| per component (4 products, 3 additions) + tiny."""
    Sx = np.zeros(np.broadcast_shapes(P.shape[:-1], Qq.shape[:-1]) + (4,))
    for a in range(4):
        for b in range(4):
            Sx[..., ref.IDX[a][b]] += np.abs(P[..., a] * Qq[..., b])
    return 8 * U_ * Sx + 1e-300


# ----------------------------------------------------------------------------
# clause 4: conjugate transpose


@st.composite
def herm_cases(draw, tier, size=None):
    lo_, hi = size or (1, 5 if tier == "quick" else 7)
    m, k, n = draw(st.integers(lo_, hi)), draw(st.integers(lo_, hi)), draw(st.integers(lo_, hi))
    A, pa = draw(gen.qarray(m, k, None, -60, 60))
    B, pb = draw(gen.qarray(k, n, None, -60, 60))
    return {"A": A, "B": B}


def check_herm(case):
    out = Out()
    u = L.utils
    A, B = case["A"], case["B"]
    m, k, _ = A.shape
    n = B.shape[1]
    want = ref.conjT(A)
    for name, mk in (("dense", Q), ("sparse", S)):
        arg = mk(A)
        h0 = ahash(arg)
        ok, r = out.call(f"quat_hermitian({name})", u.quat_hermitian, arg)
        if ok:
            out.equal_bits(f"quat_hermitian({name}):equals conjugate transpose", to_float(r), want)
            # the operand is still the matrix it was (a transpose may be a view of it; the conjugation must not write
            # through), so it can be used again
            out.true(f"quat_hermitian({name}):operand unchanged", ahash(arg) == h0, "the argument was modified in place")
            out.equal_bits(f"quat_hermitian({name}):operand still holds A after the call", to_float(arg), A)
            hr = ahash(r) if isinstance(r, (np.ndarray, u.SparseQuaternionMatrix)) else None
            ok2, r2 = out.call(f"quat_hermitian({name}) twice", u.quat_hermitian, r)
            if ok2:
                out.equal_bits(f"quat_hermitian({name}):involution", to_float(r2), A)
                if hr is not None:
                    out.true(f"quat_hermitian({name}):operand unchanged (second application)", ahash(r) == hr,
                             "the argument was modified in place")
    # (AB)^H = B^H A^H, all through the library, compared with the exact bound
    Ce, Se = ref.mat_mul_exact(A, B)
    bound = (4 * k + 4) * 4 * U_ * ref.conjT(ref.exact_to_float(Se)) + 1e-300
    # conjT flips the sign of components 1..3 in the |.| sums: restore
    bound = np.abs(bound)
    for name, mk in (("dense", Q), ("sparse", S)):
        ok1, AB = out.call(f"product({name})", u.quat_matmat, mk(A), mk(B))
        ok2, BA = out.call(f"product of transposes({name})", u.quat_matmat, u.quat_hermitian(mk(B)),
                           u.quat_hermitian(mk(A)))
        if ok1 and ok2:
            lhs = to_float(u.quat_hermitian(AB))
            rhs = to_float(BA)
            if out.true(f"(AB)^H shape({name})", lhs.shape == rhs.shape == (n, m, 4), f"{lhs.shape} {rhs.shape}"):
                out.le(f"(AB)^H=B^H A^H ({name})", float(np.max(np.abs(lhs - rhs) / (2 * bound))), 1.0)
    out.nontrivial = min(m, k) >= 2 and bool(np.any(A[..., 1:] != 0))
    return out


# ----------------------------------------------------------------------------
# clause 5: Frobenius norm


@st.composite
def norm_cases(draw, tier, size=None):
    lo_, hi = size or (1, 5 if tier == "quick" else 7)
    m, k, n = draw(st.integers(lo_, hi)), draw(st.integers(lo_, hi)), draw(st.integers(lo_, hi))
    A, pa = draw(gen.qarray(m, k, None, -60, 60))
    B, pb = draw(gen.qarray(k, n, None, -60, 60))
    Ul = draw(gen.unitary(m))
    Ur = draw(gen.unitary(k))
    return {"A": A, "B": B, "Ul": Ul, "Ur": Ur, "pa": pa}


def _dia_with_padding(P):
    """DIA storage of the real matrix P whose data array carries junk in the positions that lie outside the matrix (as
    spdiags / dia_matrix((data, offsets)) built from full-length diagonal vectors leave it): the junk is not part of
    the matrix and no operation may read it."""
    M = sp.dia_matrix(P)
    if M.data.size == 0:
        return M
    data = M.data.astype(float).copy()
    rows = np.arange(data.shape[1])[None, :] - M.offsets[:, None]
    data[(rows < 0) | (rows >= P.shape[0])] = 7.0
    return sp.dia_matrix((data, M.offsets), shape=P.shape)


def check_norm(case):
    out = Out()
    u = L.utils
    A, B, Ul, Ur = case["A"], case["B"], case["Ul"], case["Ur"]
    m, k, _ = A.shape
    n = B.shape[1]
    out.label("pat=" + case["pa"])
    exact = ref.sqrt_fraction(ref.fro_exact_sq(A))
    rel = (4 * m * k + 8) * U_
    vals = {}
    for name, mk in (("dense", Q), ("sparse", S)):
        ok, r = out.call(f"quat_frobenius_norm({name})", u.quat_frobenius_norm, mk(A))
        if ok:
            r = float(r)
            vals[name] = r
            out.le(f"quat_frobenius_norm({name}):definition", abs(r - exact), rel * exact + 1e-300 * (exact == 0),
                   f"got {r!r} exact {exact!r}")
            okh, rh = out.call(f"quat_frobenius_norm({name}) of A^H", u.quat_frobenius_norm, u.quat_hermitian(mk(A)))
            if okh:
                out.le(f"quat_frobenius_norm({name}):invariant under ^H", abs(float(rh) - r), 2 * rel * exact)
    if len(vals) == 2:
        out.le("quat_frobenius_norm:dense == sparse", abs(vals["dense"] - vals["sparse"]), 2 * rel * exact)
    # component form (the Krylov solver's norm) on dense planes and on scipy planes in CSR / DIA-with-padding storage
    for pname, mkp in (("dense planes", lambda P: np.ascontiguousarray(P)), ("CSR planes", sp.csr_matrix),
                       ("DIA planes with padding", _dia_with_padding)):
        okp, rp = out.call(f"normQsparse({pname})", lambda mk_=mkp: u.normQsparse(*[mk_(A[..., c]) for c in range(4)]))
        if okp:
            out.le(f"normQsparse({pname}):definition", abs(float(rp) - exact), rel * exact + 1e-300 * (exact == 0),
                   f"got {float(rp)!r} exact {exact!r}")
    # a norm is asked for, THEN the same object is scaled / conjugate-transposed and asked again (derived objects must
    # not inherit anything that the operation invalidates); both storage formats
    for name, mk in (("dense", Q), ("sparse", S)):
        obj = mk(A)
        ok0, _ = out.call(f"quat_frobenius_norm({name}) before scaling", u.quat_frobenius_norm, obj)
        for a in (-2.5, 0.5):
            okm, T = out.call(f"{name} * {a}", lambda o=obj, a_=a: o * a_)
            if ok0 and okm:
                okn, rn = out.call(f"quat_frobenius_norm({name} * {a})", u.quat_frobenius_norm, T)
                if okn:
                    out.le(f"quat_frobenius_norm({name}):||a A|| = |a| ||A|| after the norm of A was taken", abs(float(rn) - abs(a) * exact),
                           2 * rel * abs(a) * exact + 1e-300 * (exact == 0), f"a={a} got {float(rn)!r}")
                okh2, rh2 = out.call(f"quat_frobenius_norm(({name} * {a})^H)", lambda T_=T: u.quat_frobenius_norm(u.quat_hermitian(T_)))
                if okh2:
                    out.le(f"quat_frobenius_norm({name}):||(a A)^H|| = |a| ||A||", abs(float(rh2) - abs(a) * exact),
                           2 * rel * abs(a) * exact + 1e-300 * (exact == 0), f"a={a} got {float(rh2)!r}")
    # unitary invariance (the unitary factors are harness-built; their own defect is accounted for)
    dl = ref.unitarity_defect(Ul)
    dr = ref.unitarity_defect(Ur)
    ok, UA = out.call("quat_matmat(U,A)", u.quat_matmat, Q(Ul), Q(A))
    if ok:
        nu = float(u.quat_frobenius_norm(UA))
        out.le("frobenius:invariant under left unitary", abs(nu - exact), (64 * (m + k) * U_ + dl) * exact)
    ok, AU = out.call("quat_matmat(A,U)", u.quat_matmat, Q(A), Q(Ur))
    if ok:
        nu = float(u.quat_frobenius_norm(AU))
        out.le("frobenius:invariant under right unitary", abs(nu - exact), (64 * (m + k) * U_ + dr) * exact)
    # sub-multiplicativity
    ok, AB = out.call("quat_matmat(A,B)", u.quat_matmat, Q(A), Q(B))
    if ok:
        nab = float(u.quat_frobenius_norm(AB))
        nb = ref.sqrt_fraction(ref.fro_exact_sq(B))
        out.le("frobenius:sub-multiplicative", nab, exact * nb * (1 + 64 * (k + m + n) * U_))
    out.nontrivial = min(m, k) >= 2 and int(np.sum(np.any(A != 0, axis=(0, 1)))) >= 2
    return out


PROPERTY = Property(
    id="C01",
    title="Quaternion matrix product is the Hamilton product in every storage format",
    rule=("generated clauses: inner dimension k >= 2 and some pair (A_ik, B_kj) does not commute under the Hamilton "
          "product (norm/hermitian clauses: min dim >= 2 and >= 2 components present); exhaustive clause: two distinct "
          "imaginary units meeting at a matching inner index. Distinct = distinct input digest."),
    clauses=[
        Clause("basis_exhaustive", check_basis, enumerate=enum_basis, budget={"quick": 0, "thorough": 0}),
        Clause("product_generated", check_product, strategy=product_cases, budget={"quick": 600, "thorough": 12000}),
        Clause("product_long_dimension", check_product, strategy=long_product_cases, budget={"quick": 48, "thorough": 600},
               shrink=False),
        Clause("hermitian_long_dimension", check_herm, strategy=long_product_cases, budget={"quick": 32, "thorough": 300},
               shrink=False),
        Clause("product_moderate_size", check_product, strategy=lambda tier: product_cases(tier, size=(9, 16 if tier == "quick" else 32)),
               budget={"quick": 24, "thorough": 240}, shrink=False),
        Clause("hermitian_moderate_size", check_herm, strategy=lambda tier: herm_cases(tier, size=(9, 16 if tier == "quick" else 32)),
               budget={"quick": 16, "thorough": 160}, shrink=False),
        Clause("frobenius_moderate_size", check_norm, strategy=lambda tier: norm_cases(tier, size=(9, 16 if tier == "quick" else 32)),
               budget={"quick": 16, "thorough": 160}, shrink=False),
        Clause("kernel_shapes", check_kernel, strategy=kernel_cases, budget={"quick": 400, "thorough": 6000}),
        Clause("hermitian", check_herm, strategy=herm_cases, budget={"quick": 400, "thorough": 6000}),
        Clause("frobenius", check_norm, strategy=norm_cases, budget={"quick": 400, "thorough": 6000}),
    ],
    assumptions=[
        "oracle = exact rational (fractions.Fraction) Hamilton product from the multiplication table in qv/ref.py",
        "entrywise forward bound (4k+4)*4u*sum|partial products| (rigorous for any summation order, generous constant)",
        "magnitudes restricted to 10^+-60 so that products and squared norms are representable (no overflow/underflow claims)",
    ],
    exhaustive_note="basis_exhaustive: all 16 unit pairs at every pair of positions of shapes {1,2}^3 and (3,2,3), 9 storage paths each, compared exactly",
)
