"""C04 - Q-GMRES returns a true solution and truthful convergence information."""
import numpy as np
from hypothesis import strategies as st
from hypothesis.extra import numpy as hnp

from .. import gen, ref
from ..core import Clause, Out, Property
from ..env import L
from ..lib import F, Q, S, ahash, case_flag, quiet

U_ = ref.U


# ----------------------------------------------------------------------------
# generators


@st.composite
def normal_matrix(draw, n):
    """A = U D U^H with known (right) eigenvectors U[:,i] and diagonal quaternion D."""
    exact = draw(st.booleans())
    Uf = draw(gen.unitary(n, exact=exact))
    kind = draw(st.sampled_from(["hermitian_mixed", "hpd", "unit_diag", "scaled_identity", "few_distinct",
                                 "repeats", "quaternion_diag"]))
    d = np.zeros((n, 4))
    if kind == "hermitian_mixed":
        vals = draw(st.lists(st.sampled_from([-4.0, -3.0, -2.0, -1.0, -0.5, 0.5, 1.0, 2.0, 3.0, 4.0]), min_size=n, max_size=n))
        d[:, 0] = vals
    elif kind == "hpd":
        vals = draw(st.lists(st.sampled_from([0.25, 0.5, 1.0, 2.0, 3.0, 4.0, 8.0]), min_size=n, max_size=n))
        d[:, 0] = vals
    elif kind == "unit_diag":
        for i in range(n):
            d[i] = draw(gen.unit_q(exact=exact))
    elif kind == "scaled_identity":
        d[:, 0] = draw(st.sampled_from([1.0, 2.0, -3.0, 0.5]))
    elif kind == "few_distinct":
        k = draw(st.integers(1, min(3, n)))
        base = draw(st.lists(st.sampled_from([-3.0, -2.0, -1.0, 1.0, 2.0, 3.0, 4.0]), min_size=k, max_size=k, unique=True))
        idx = draw(st.lists(st.integers(0, k - 1), min_size=n, max_size=n))
        d[:, 0] = [base[i] for i in idx]
    elif kind == "repeats":
        v = draw(st.sampled_from([1.0, 2.0, -2.0]))
        d[:, 0] = v
        if n >= 2:
            d[draw(st.integers(0, n - 1)), 0] = draw(st.sampled_from([3.0, -1.0, 5.0]))
    else:
        for i in range(n):
            q = draw(gen.unit_q(exact=True))
            d[i] = q * draw(st.sampled_from([1.0, 2.0, 3.0]))
    D = np.zeros((n, n, 4))
    for i in range(n):
        D[i, i] = d[i]
    A = ref.qmm(ref.qmm(Uf, D), ref.conjT(Uf))
    return A, Uf, d, kind, exact


@st.composite
def systems(draw, tier, nmax=None):
    n = draw(st.integers(1, nmax or (6 if tier == "quick" else 8)))
    cls = draw(st.sampled_from(["normal", "normal", "normal", "svals", "triangular", "identity_plus_lowrank", "zero_diagonal"]))
    Uf = d = None
    exact = False
    if cls == "zero_diagonal" and n >= 2:
        # exactly zero diagonal entries: a cyclic shift / permutation with unit-quaternion entries (unitary), optionally
        # plus a small strictly off-diagonal part - with b = q e_k the first Arnoldi coefficient v^H A v is exactly 0
        perm = list(range(1, n)) + [0] if draw(st.booleans()) else list(draw(st.permutations(list(range(n)))))
        if any(perm[i] == i for i in range(n)):
            perm = list(range(1, n)) + [0]
        A = np.zeros((n, n, 4))
        for i in range(n):
            A[i, perm[i]] = draw(gen.unit_q(exact=True)) * draw(st.sampled_from([1.0, 1.0, 2.0]))
        if draw(st.booleans()):
            Eo = draw(gen.qmat(n, n, patterns=("generic", "int"))) / 32.0
            for i in range(n):
                Eo[i, i] = 0.0
            A = A + Eo
        clsA = "zero_diagonal"
    elif cls == "zero_diagonal":
        A = ref.qeye(n) * 2.0
        clsA = "identity"
    elif cls == "normal":
        A, Uf, d, kind, exact = draw(normal_matrix(n))
        clsA = "normal:" + kind
    elif cls == "svals":
        s, skind = draw(gen.spectrum(n, kinds=("distinct", "repeated", "geometric", "allequal"), cond_max=1e3))
        A = draw(gen.matrix_with_svals(n, n, s))
        clsA = "svals:" + skind
    elif cls == "triangular":
        A = draw(gen.qmat(n, n, patterns=("generic", "int", "pure_imag")))
        A = A.copy() / 4.0
        lower = draw(st.booleans())
        for i in range(n):
            for j in range(n):
                if (i > j and not lower) or (i < j and lower):
                    A[i, j] = 0.0
            A[i, i] = draw(gen.unit_q()) * draw(st.sampled_from([1.0, 2.0, 3.0]))
        clsA = "triangular"
    else:
        r = draw(st.integers(1, max(1, min(2, n))))
        Xa = draw(hnp.arrays(np.float64, (n, r, 4), elements=gen.dyadic(0, 0, 16), fill=st.nothing()))
        Ya = draw(hnp.arrays(np.float64, (n, r, 4), elements=gen.dyadic(0, 0, 16), fill=st.nothing()))
        A = ref.qeye(n) + 0.5 * ref.qmm(Xa, ref.conjT(Ya))
        clsA = "identity_plus_lowrank"
    # right-hand side
    opts = ["generic", "generic", "sparse_support", "zero"]
    if clsA == "zero_diagonal":
        opts += ["sparse_support"] * 4
    if Uf is not None:
        opts += ["eigvec", "eigvec", "grade_g", "grade_g"]
    clsb = draw(st.sampled_from(opts))
    if clsb == "generic":
        b = draw(gen.qmat(n, 1, patterns=("generic", "int", "pure_imag")))
        if not b.any():
            b[0, 0, 0] = 1.0
    elif clsb == "sparse_support":
        b = np.zeros((n, 1, 4))
        b[draw(st.integers(0, n - 1)), 0] = draw(gen.nonzero_q())
    elif clsb == "zero":
        b = np.zeros((n, 1, 4))
    elif clsb == "eigvec":
        i = draw(st.integers(0, n - 1))
        q = draw(gen.unit_q(exact=exact)) * draw(st.sampled_from([1.0, 2.0, 0.5]))
        b = ref.qmul(Uf[:, i:i + 1, :], q.reshape(1, 1, 4))
    else:
        g = draw(st.integers(1, n))
        idx = draw(st.lists(st.integers(0, n - 1), min_size=g, max_size=g, unique=True))
        b = np.zeros((n, 1, 4))
        for i in idx:
            q = draw(gen.unit_q(exact=exact)) * draw(st.sampled_from([1.0, 2.0, 3.0]))
            b = b + ref.qmul(Uf[:, i:i + 1, :], q.reshape(1, 1, 4))
        if not b.any():
            b = Uf[:, idx[0]:idx[0] + 1, :].copy()
    e = draw(st.sampled_from([0, 0, 0, -6, -3, 3, 6]))
    tol = 10.0 ** draw(st.integers(-12, -2))
    return {"A": A * 10.0 ** e, "b": b * 10.0 ** e, "clsA": clsA, "clsb": clsb, "scale_exp": e, "tol": tol,
            "sparse": draw(st.booleans()), "prec": draw(st.sampled_from([None, None, "left_lu"])),
            "cap": draw(st.sampled_from([None, None, None] + list(range(0, n + 1))))}


@st.composite
def long_systems(draw, tier):
    """Orders just past the blocking sizes 32 / 64: identity plus low rank (grade <= 3), or diagonally dominant
    dense / sparse / banded matrices (well conditioned, a few cycles)."""
    n = draw(st.sampled_from([33, 64, 65] if tier == "quick" else [33, 64, 65, 100, 129]))
    cls = draw(st.sampled_from(["identity_plus_lowrank", "dominant_dense", "dominant_sparse", "dominant_banded"]))
    if cls == "identity_plus_lowrank":
        r = draw(st.integers(1, 2))
        Xa, _ = draw(gen.long_qarray(n, r, "generic"))
        Ya, _ = draw(gen.long_qarray(n, r, "generic"))
        A = ref.qeye(n) + ref.qmm(Xa, ref.conjT(Ya)) / (8.0 * n)
    else:
        A, _ = draw(gen.long_qarray(n, n, "sparse" if cls == "dominant_sparse" else "generic"))
        if cls == "dominant_banded":
            idx = np.arange(n)
            A = A * (np.abs(idx[:, None] - idx[None, :]) <= draw(st.sampled_from([1, 2, 5])))[..., None]
        A = A / (2.0 * n)
        rng = np.random.RandomState(draw(gen.seeds()))
        d = rng.standard_normal((n, 4))
        d = d / np.sqrt(np.sum(d * d, axis=1))[:, None]
        for i in range(n):
            A[i, i] = d[i] * (2.0 + (i % 3))
    clsb = draw(st.sampled_from(["generic", "generic", "sparse_support", "zero"]))
    if clsb == "generic":
        b, _ = draw(gen.long_qarray(n, 1, "generic"))
        if not b.any():
            b[0, 0, 0] = 1.0
    elif clsb == "sparse_support":
        b = np.zeros((n, 1, 4))
        b[draw(st.integers(0, n - 1)), 0] = draw(gen.nonzero_q())
    else:
        b = np.zeros((n, 1, 4))
    e = draw(st.sampled_from([0, 0, -6, 6]))
    return {"A": np.ascontiguousarray(A) * 10.0 ** e, "b": b * 10.0 ** e, "clsA": "long:" + cls, "clsb": clsb, "scale_exp": e,
            "tol": 10.0 ** draw(st.integers(-10, -3)), "sparse": draw(st.booleans()),
            "prec": draw(st.sampled_from([None, None, "left_lu"])),
            "cap": draw(st.sampled_from([None, None, 1, 2, 5, 40]))}


# ----------------------------------------------------------------------------
# helpers


def solve(case_or_A, b=None, tol=1e-6, cap=None, prec=None, sparse=False):
    A = case_or_A
    solver = L.solver.QGMRESSolver(tol=tol, max_iter=cap, verbose=case_flag(A, 6), preconditioner=prec)   # verbose: same result
    Aarg = S(A) if sparse else Q(A)
    barg = Q(b)
    hA, hb = ahash(Aarg), ahash(barg)
    x, info = quiet(solver.solve, Aarg, barg)
    unchanged = (ahash(Aarg) == hA and ahash(barg) == hb)
    return F(np.asarray(x)), info, unchanged


def rel_res(A, x, b):
    nb = ref.fro(b)
    return ref.fro(ref.qmm(A, x) - b) / nb if nb > 0 else ref.fro(ref.qmm(A, x))


def krylov_opt(A, x0, b, m, rtol=1e-9):
    """min || b - A z ||_F over z in x0 + K_m(A, b - A x0) (right quaternion span), by real least squares."""
    n = A.shape[0]
    AR = ref.chi_r(A)
    r = b - ref.qmm(A, x0)
    rR = ref.chi_r(r)             # 4n x 4 : real span of r*H
    W = np.zeros((4 * n, 0))
    blk = rR
    scale = np.linalg.norm(AR, 2)
    for _ in range(m):
        nb = np.linalg.norm(blk, 2) if blk.size else 0.0
        if nb == 0:
            break
        for _ in range(2):
            if W.shape[1]:
                blk = blk - W @ (W.T @ blk)
        Qb, Rb = np.linalg.qr(blk)
        keep = np.abs(np.diag(Rb)) > rtol * nb
        if not keep.any():
            break
        Qb = Qb[:, keep]
        if W.shape[1]:
            Qb = Qb - W @ (W.T @ Qb)
            Qb, _ = np.linalg.qr(Qb)
        W = np.hstack([W, Qb])
        blk = AR @ Qb
    rhs = rR[:, 0]
    if W.shape[1] == 0:
        return float(np.linalg.norm(rhs)), 0
    AW = AR @ W
    y, *_ = np.linalg.lstsq(AW, rhs, rcond=None)
    return float(np.linalg.norm(rhs - AW @ y)), W.shape[1] // 4


def grade(A, b, rtol=1e-9):
    n = A.shape[0]
    if not b.any():
        return 0
    _, dim = krylov_opt(A, np.zeros_like(b), b, n, rtol)
    return dim


def common_info_checks(out, site, A, b, x, info, tol, kappa, prec):
    """(a) truthfulness and (b) no false convergence."""
    if not out.true(site + ":x finite", np.all(np.isfinite(x)), "solution contains NaN/inf"):
        return None
    nb = ref.fro(b)
    rr = rel_res(A, x, b)
    keff = ref.fro(A) * ref.fro(x) / nb + 1.0
    for key in ("residual", "residual_true"):
        v = info.get(key)
        ok = v is not None and np.isfinite(v)
        out.true(site + f":info[{key}] finite", ok, f"{v!r}")
        if ok:
            out.le(site + f":info[{key}] is the true relative residual", abs(float(v) - rr),
                   1e-9 * rr + 1e3 * U_ * keff, f"reported {float(v):.3e} true {rr:.3e}")
    if bool(info.get("converged")):
        if prec is None:
            bound = tol * (1 + 1e-6) + 1e3 * U_ * keff
        else:
            bound = 10.0 * kappa * tol + 1e3 * U_ * keff * kappa
        out.le(site + ":converged implies small true residual", rr, bound, f"tol={tol:g} kappa={kappa:.2e}")
    return rr


# ----------------------------------------------------------------------------
# clause: truthfulness / termination / invariance on one solve configuration


def check_solve(case):
    out = Out()
    A, b, tol, cap, prec = case["A"], case["b"], case["tol"], case["cap"], case["prec"]
    n = A.shape[0]
    out.label(case["clsA"], "b=" + case["clsb"], "prec=" + str(prec), "cap=" + ("None" if cap is None else "int"),
              "sparse" if case["sparse"] else "dense")
    if case["scale_exp"]:
        out.label("scaled")
    kappa = ref.cond(A)
    if not np.isfinite(kappa) or kappa > 1e6:
        out.label("skipped_illconditioned")
        return out
    site = f"QGMRES(prec={prec})"
    ok, r = out.call(site, solve, A, b, tol, cap, prec, case["sparse"])
    if not ok:
        return out
    x, info, unchanged = r
    out.true(site + ":arguments unchanged", unchanged, "A or b modified by solve")
    if not out.true(site + ":x shape", x.shape == b.shape, f"{x.shape}"):
        return out
    if case["clsb"] == "zero":
        out.true(site + ":b=0 gives x=0", np.all(x == 0.0), "non-zero (or NaN) solution for b = 0")
        for key in ("residual", "residual_true"):
            v = info.get(key)
            out.true(site + f":b=0 info[{key}] finite", v is not None and np.isfinite(v), f"{v!r}")
        out.nontrivial = True
        return out
    rr = common_info_checks(out, site, A, b, x, info, tol, kappa, prec)
    if rr is None:
        return out
    g = grade(A, b)
    out.label(f"grade<n" if g < n else "grade=n")
    floor = 1e3 * U_ * kappa * n
    if cap is None:
        # (d) finite termination
        out.le(site + ":solves within n cycles", rr, max(tol * (10.0 * kappa if prec else 1.0) * (1 + 1e-6), floor),
               f"tol={tol:g} kappa={kappa:.2e} grade={g}")
        if tol > 10 * floor:
            out.true(site + ":converged reported when solved", bool(info.get("converged")),
                     f"residual {rr:.2e} < tol {tol:g} but converged={info.get('converged')}")
        it = info.get("iterations")
        out.true(site + ":iterations <= n", isinstance(it, (int, np.integer)) and 0 <= it <= n, f"iterations={it!r}")
        # (e) agreement with the reference solution
        xref = ref.solve(A, b)
        out.le(site + ":x equals reference solution", ref.fro(x - xref),
               (10.0 * kappa * max(tol, floor) + floor) * max(ref.fro(xref), 1e-300) * (kappa if prec else 1.0),
               f"||x-xref||, kappa={kappa:.2e}")
    if cap is None and not case["sparse"] and case_flag(A, 3, salt=1):
        # the right-hand side is a VIEW of a column of A itself (b = A[:, j:j+1], e.g. when inverting column by
        # column): the solution is e_j, and neither argument may change although they share memory
        j = int(np.argmax(np.sum(A * A, axis=(0, 2))))
        Aq_ = Q(A)
        bq_ = Aq_[:, j:j + 1]
        hA_ = ahash(Aq_)
        sol_ = L.solver.QGMRESSolver(tol=tol, max_iter=None, verbose=False, preconditioner=prec)
        site_v = site + "[b is a view of a column of A]"
        okv, rv = out.call(site_v, sol_.solve, Aq_, bq_)
        if okv:
            out.true(site_v + ":arguments unchanged", ahash(Aq_) == hA_, "A (and with it b) modified by solve")
            xv = F(np.asarray(rv[0]))
            if out.true(site_v + ":x shape", xv.shape == (n, 1, 4), f"{xv.shape}"):
                ej = np.zeros((n, 1, 4))
                ej[j, 0, 0] = 1.0
                out.le(site_v + ":x = e_j", ref.fro(xv - ej),
                       (10.0 * kappa * max(tol, floor) + floor) * (kappa if prec else 1.0), f"kappa={kappa:.2e}")
            out.label("b_view_of_A_column")
    # residual history is non-increasing in its true-residual column
    hist = info.get("residual_history") or []
    vals = [float(h[2]) for h in hist if len(h) >= 3]
    if prec is None and len(vals) >= 2:
        worst = max(vals[i + 1] - vals[i] * (1 + 1e-9) for i in range(len(vals) - 1))
        out.le(site + ":residual history non-increasing", worst, 1e3 * U_ * kappa + 0.0, f"history {vals[:6]}")
    out.nontrivial = (g < n) or prec is not None or case["clsb"] in ("eigvec",) or case["scale_exp"] != 0
    out.sample = {"n": n, "clsA": case["clsA"], "clsb": case["clsb"], "grade": g, "kappa": kappa,
                  "iterations": int(info.get("iterations", -1)), "true_rel_res": rr, "converged": bool(info.get("converged"))}
    return out


# ----------------------------------------------------------------------------
# clause: ill-conditioned, non-normal systems with a consistent right-hand side.  The residual statements of the
# property do not depend on cond(A): full-dimension GMRES with (modified) Gram-Schmidt is backward stable, so after
# n cycles ||b - Ax|| <= c n u (||A|| ||x|| + ||b||) whatever the conditioning; what conditioning changes is the
# ERROR x - x_true, which is not claimed here.


@st.composite
def illcond_cases(draw, tier):
    n = draw(st.integers(3, 8 if tier == "quick" else 10))
    kexp = draw(st.sampled_from([6, 8, 10, 12]))
    s = np.array([10.0 ** (-kexp * i / (n - 1)) for i in range(n)])
    if draw(st.booleans()):
        s[1:-1] = np.sort(10.0 ** (-kexp * np.array(draw(st.lists(st.integers(0, 16), min_size=n - 2, max_size=n - 2))) / 16.0))[::-1]
    if draw(st.integers(0, 2)) == 0:
        # Hermitian (indefinite) with the same spread: short recurrences are tempting here and lose orthogonality
        n = draw(st.integers(6, 12))
        s = np.array([10.0 ** (-min(kexp, 8) * i / (n - 1)) for i in range(n)])
        sg = np.array(draw(st.lists(st.sampled_from([1.0, -1.0]), min_size=n, max_size=n)))
        A = draw(gen.hermitian_with_spectrum(n, s * sg))
    else:
        A = draw(gen.matrix_with_svals(n, n, s))              # U diag(s) W^H with independent unitary factors
    xt = draw(gen.qmat(n, 1, patterns=("generic", "int", "full53")))
    if not xt.any():
        xt[0, 0, 0] = 1.0
    e = draw(st.sampled_from([0, 0, -5, 5]))
    A = A * 10.0 ** e
    return {"A": A, "xt": xt, "b": ref.qmm(A, xt), "kexp": kexp, "tol": 10.0 ** draw(st.integers(-13, -6)),
            "sparse": draw(st.booleans())}


def check_illcond(case):
    out = Out()
    A, b, tol = case["A"], case["b"], case["tol"]
    n = A.shape[0]
    out.label(f"cond=1e{case['kexp']}", "sparse" if case["sparse"] else "dense")
    site = "QGMRES(ill-conditioned, b = A x_true)"
    ok, r = out.call(site, solve, A, b, tol, None, None, case["sparse"])
    if not ok:
        return out
    x, info, unchanged = r
    out.true(site + ":arguments unchanged", unchanged, "A or b modified by solve")
    if not out.true(site + ":x shape", x.shape == b.shape, f"{x.shape}"):
        return out
    rr = common_info_checks(out, site, A, b, x, info, tol, 1.0, None)
    if rr is None:
        return out
    nb = ref.fro(b)
    keff = ref.fro(A) * max(ref.fro(x), ref.fro(case["xt"])) / nb + 1.0
    floor = 1e3 * n * U_ * keff
    if rr > max(tol * (1 + 1e-6), floor):
        # The property fixes every cycle's iterate (the minimiser over its Krylov space), and for ill-conditioned
        # non-normal systems those iterates can be far larger than the solution (||x_c|| up to ||r_c|| / sigma_min).
        # The last cycle then has to cancel x_{n-1} down to x, which no update x_{c+1} = x_c + correction can do
        # below u ||A|| ||x_c||: the rounding floor of the restarted method carries the LARGEST iterate, not the
        # final one (false-alarm log 8.3 item 13).  The intermediate iterates are read off capped runs.
        grow = ref.fro(x)
        for c in range(0, n - 1):
            okc, rc = out.call(site + f"[cap={c}]", solve, A, b, tol, c, None, case["sparse"])
            if okc and rc[0].shape == b.shape and np.all(np.isfinite(rc[0])):
                grow = max(grow, ref.fro(rc[0]))
        keff = max(keff, ref.fro(A) * grow / nb + 1.0)
        floor = 1e3 * n * U_ * keff
        out.label("iterate_growth_floor")
    out.le(site + ":solves within n cycles (backward stable residual)", rr, max(tol * (1 + 1e-6), floor),
           f"tol={tol:g} ||A|| max_c||x_c||/||b||={keff:.2e}")
    if tol > 10 * floor:
        out.true(site + ":converged reported when solved", bool(info.get("converged")),
                 f"residual {rr:.2e} < tol {tol:g} but converged={info.get('converged')}")
    it = info.get("iterations")
    out.true(site + ":iterations <= n", isinstance(it, (int, np.integer)) and 0 <= it <= n, f"iterations={it!r}")
    hist = info.get("residual_history") or []
    vals = [float(h[2]) for h in hist if len(h) >= 3]
    if len(vals) >= 2:
        worst = max(vals[i + 1] - vals[i] * (1 + 1e-9) for i in range(len(vals) - 1))
        out.le(site + ":residual history non-increasing", worst, floor, f"history {vals[:8]}")
    out.nontrivial = True
    out.sample = {"n": n, "cond_exp": case["kexp"], "true_rel_res": rr, "iterations": int(info.get("iterations", -1))}
    return out


# ----------------------------------------------------------------------------
# clause: per-cycle optimality chain (no preconditioner)


@st.composite
def chain_cases(draw, tier):
    c = draw(systems(tier, nmax=5 if tier == "quick" else 6))
    c["prec"] = None
    c["cap"] = None
    if c["clsb"] == "zero":
        c["b"] = c["b"].copy()
        c["b"][0, 0, 0] = 10.0 ** c["scale_exp"]
        c["clsb"] = "sparse_support"
    return c


def check_chain(case):
    out = Out()
    A, b, tol = case["A"], case["b"], case["tol"]
    n = A.shape[0]
    out.label(case["clsA"], "b=" + case["clsb"])
    kappa = ref.cond(A)
    if not np.isfinite(kappa) or kappa > 1e4:
        out.label("skipped_illconditioned")
        return out
    nb = ref.fro(b)
    delta = 1e4 * U_ * kappa * nb
    prev = np.zeros_like(b)
    prev_info = None
    prev_res = nb
    g = grade(A, b)
    for cap in range(0, n):
        site = "QGMRES(cap=c)"
        ok, r = out.call(site, solve, A, b, tol, cap, None, case["sparse"])
        if not ok:
            return out
        x, info, _ = r
        if not out.true(site + ":x finite", np.all(np.isfinite(x)), f"NaN/inf at cap={cap}"):
            return out
        res = ref.fro(b - ref.qmm(A, x))
        if prev_info is not None and bool(prev_info.get("converged")):
            out.equal_bits(site + ":stops once converged", x, prev, f"cap={cap}")
            continue
        opt, dim = krylov_opt(A, prev, b, cap + 1)
        out.le(site + ":cycle residual not above the Krylov optimum", res, opt * (1 + 1e-6) + delta,
               f"cap={cap} res={res:.3e} opt={opt:.3e} dim={dim} grade={g}")
        out.le(site + ":cycle residual not below the Krylov optimum", opt * (1 - 1e-6) - delta, res,
               f"cap={cap} res={res:.3e} opt={opt:.3e}")
        out.le(site + ":residual never increases", res, prev_res * (1 + 1e-9) + delta, f"cap={cap}")
        hist = info.get("residual_history") or []
        if hist and len(hist[-1]) >= 3 and nb > 0:
            out.le(site + ":history entry is the true residual of the cycle iterate", abs(float(hist[-1][2]) - res / nb),
                   1e-9 * res / nb + 1e3 * U_ * (ref.fro(A) * ref.fro(x) / nb + 1.0), f"cap={cap}")
        common_info_checks(out, site, A, b, x, info, tol, kappa, None)
        prev, prev_info, prev_res = x, info, res
    out.nontrivial = g < n or case["clsb"] == "eigvec" or case["scale_exp"] != 0
    out.label("grade<n" if g < n else "grade=n")
    out.sample = {"n": n, "grade": g, "clsA": case["clsA"], "clsb": case["clsb"]}
    return out


# ----------------------------------------------------------------------------
# clause: preconditioner / scale invariance on the same system


@st.composite
def invariance_cases(draw, tier):
    c = draw(systems(tier, nmax=5 if tier == "quick" else 7))
    if c["clsb"] == "zero":
        c["b"] = c["b"].copy()
        c["b"][0, 0, 0] = 10.0 ** c["scale_exp"]
        c["clsb"] = "sparse_support"
    c["cap"] = None
    c["cexp"] = draw(st.sampled_from([-6, -4, -2, 2, 4, 6]))
    return c


def check_invariance(case):
    out = Out()
    A, b, tol = case["A"], case["b"], case["tol"]
    n = A.shape[0]
    out.label(case["clsA"], "b=" + case["clsb"])
    kappa = ref.cond(A)
    if not np.isfinite(kappa) or kappa > 1e4:
        out.label("skipped_illconditioned")
        return out
    xref = ref.solve(A, b)
    floor = 1e3 * U_ * kappa * n
    nx = max(ref.fro(xref), 1e-300)
    sols = {}
    c = 10.0 ** case["cexp"]
    for name, (AA, bb, prec) in {"none": (A, b, None), "left_lu": (A, b, "left_lu"),
                                 "scaled": (A * c, b * c, None), "scaled+left_lu": (A * c, b * c, "left_lu")}.items():
        ok, r = out.call(f"QGMRES[{name}]", solve, AA, bb, tol, None, prec, case["sparse"])
        if not ok:
            continue
        x, info, unchanged = r
        out.true(f"QGMRES[{name}]:arguments unchanged", unchanged)
        if not out.true(f"QGMRES[{name}]:x finite", np.all(np.isfinite(x)), "NaN/inf"):
            continue
        sols[name] = x
        kf = kappa if "left_lu" in name else 1.0
        out.le(f"QGMRES[{name}]:x equals reference solution", ref.fro(x - xref) / nx,
               (10.0 * kappa * max(tol, floor) + floor) * kf, f"kappa={kappa:.2e} tol={tol:g} c=1e{case['cexp']}")
        common_info_checks(out, f"QGMRES[{name}]", AA, bb, x, info, tol, kappa, prec)
        out.true(f"QGMRES[{name}]:iterations <= n", 0 <= int(info.get("iterations", -1)) <= n, f"{info.get('iterations')}")
    out.nontrivial = True
    out.sample = {"n": n, "kappa": kappa, "cexp": case["cexp"]}
    return out


# ----------------------------------------------------------------------------
# clause: injected faults


@st.composite
def fault_cases(draw, tier):
    c = draw(systems(tier, nmax=5))
    if c["clsb"] == "zero":
        c["b"] = c["b"].copy()
        c["b"][0, 0, 0] = 10.0 ** c["scale_exp"]
        c["clsb"] = "sparse_support"
    c["fault"] = draw(st.sampled_from(["lu_raises", "zero_diag"]))
    c["fault_cycle"] = draw(st.integers(1, c["A"].shape[0]))
    c["fault_row"] = draw(st.integers(0, 5))
    return c


def check_fault(case):
    out = Out()
    A, b, tol = case["A"], case["b"], case["tol"]
    n = A.shape[0]
    kappa = ref.cond(A)
    out.label(case["fault"])
    if not np.isfinite(kappa) or kappa > 1e4:
        out.label("skipped_illconditioned")
        return out
    if case["fault"] == "lu_raises":
        ok, base = out.call("QGMRES(prec=None)", solve, A, b, tol, case["cap"], None, False)
        if not ok:
            return out
        orig = L.decomp.quaternion_lu

        def boom(*a, **k):
            raise ValueError("injected: zero pivot")
        L.decomp.quaternion_lu = boom
        try:
            ok, r = out.call("QGMRES(left_lu, LU fails)", solve, A, b, tol, case["cap"], "left_lu", False)
        finally:
            L.decomp.quaternion_lu = orig
        if ok:
            x, info, unchanged = r
            out.true("QGMRES(left_lu, LU fails):arguments unchanged", unchanged)
            out.equal_bits("QGMRES(left_lu, LU fails):falls back to the unpreconditioned result", x, base[0])
            out.true("QGMRES(left_lu, LU fails):same flags",
                     bool(info.get("converged")) == bool(base[1].get("converged"))
                     and info.get("iterations") == base[1].get("iterations"))
        out.nontrivial = True
        return out
    # zero diagonal handed to the small triangular solve in one cycle
    orig = L.solver.UtriangleQsparse
    state = {"calls": 0, "hit": False}
    fc, fr = case["fault_cycle"], case["fault_row"]

    def wrapped(R0, R1, R2, R3, b0, b1, b2, b3, *a, **k):
        state["calls"] += 1
        if state["calls"] == fc:
            R0, R1, R2, R3 = R0.copy(), R1.copy(), R2.copy(), R3.copy()
            i = fr % R0.shape[0]
            for Rm in (R0, R1, R2, R3):
                Rm[i, i] = 0.0
            state["hit"] = True
        return orig(R0, R1, R2, R3, b0, b1, b2, b3, *a, **k)
    L.solver.UtriangleQsparse = wrapped
    try:
        import contextlib
        import io
        with contextlib.redirect_stdout(io.StringIO()):
            ok, r = out.call("QGMRES(zero diagonal in cycle j)", solve, A, b, tol, None, None, False)
    finally:
        L.solver.UtriangleQsparse = orig
    if not ok:
        return out
    x, info, _ = r
    site = "QGMRES(zero diagonal in cycle j)"
    rr = common_info_checks(out, site, A, b, x, info, tol, kappa, None)
    if rr is not None and state["hit"]:
        last = (fc >= state["calls"])
        out.label("fault_in_last_cycle" if last else "fault_recovered")
        if not last:
            # The faulty cycle returns an arbitrary iterate; G = the largest true relative residual recorded from the
            # faulty cycle on.  A later cycle reduces ||r0|| = G||b|| down to its Krylov optimum up to the loss of
            # orthogonality of single-pass modified Gram-Schmidt, which re-orthogonalises only below a cancellation
            # ratio of sqrt(eps) (so <= eps/sqrt(eps) = sqrt(eps)): recovery to max(tol, floor, 4 sqrt(u) G).
            hist_f = [float(h[2]) for h in (info.get("residual_history") or []) if len(h) >= 3][fc - 1:]
            G = max([1.0] + [v for v in hist_f if np.isfinite(v)])
            out.le(site + ":later cycles recover", rr, max(tol * (1 + 1e-6), 1e3 * U_ * kappa * n, 4.0 * np.sqrt(U_) * G),
                   f"fault cycle {fc} of {state['calls']}, largest residual after the fault {G:.3e}")
    out.nontrivial = state["hit"]
    return out


# ----------------------------------------------------------------------------
# clause: one solver object, the caller updates A (and b) IN PLACE between solves


@st.composite
def reuse_cases(draw, tier):
    c = draw(systems(tier, nmax=5))
    if c["clsb"] == "zero":
        c["b"] = c["b"].copy()
        c["b"][0, 0, 0] = 10.0 ** c["scale_exp"]
        c["clsb"] = "sparse_support"
    c["cap"] = None
    c["mix"] = draw(st.sampled_from([0.5, 0.25, 2.0]))
    c["second"] = draw(st.sampled_from(["updated_system", "updated_system", "zero_rhs_same_A", "zero_rhs_updated_A", "same_system"]))
    return c


def check_reuse(case):
    out = Out()
    A, b, tol, prec = case["A"], case["b"], case["tol"], case["prec"]
    n = A.shape[0]
    sc = 10.0 ** case["scale_exp"]
    A2 = case["mix"] * A[::-1, ::-1].copy() + 3.0 * sc * ref.qeye(n) * max(1.0, ref.fro(A) / sc)
    b2 = b[::-1].copy() * 0.5 + 0.25 * sc
    second = case.get("second", "updated_system")
    if second == "zero_rhs_same_A":
        A2, b2 = A.copy(), np.zeros_like(b)
    elif second == "zero_rhs_updated_A":
        b2 = np.zeros_like(b)
    elif second == "same_system":
        A2, b2 = A.copy(), b.copy()
    k1, k2 = ref.cond(A), ref.cond(A2)
    out.label("prec=" + str(prec), "second=" + second)
    if not (np.isfinite(k1) and np.isfinite(k2)) or max(k1, k2) > 1e4:
        out.label("skipped_illconditioned")
        return out
    solver = L.solver.QGMRESSolver(tol=tol, max_iter=None, verbose=False, preconditioner=prec)
    Aq, bq = Q(A), Q(b)
    ok, r = out.call("QGMRES first solve", solver.solve, Aq, bq)
    if not ok:
        return out
    Aq[...] = Q(A2)            # the caller updates the SAME array objects in place
    bq[...] = Q(b2)
    ok, r = out.call("QGMRES second solve on updated arrays", solver.solve, Aq, bq)
    if not ok:
        return out
    x, info = F(np.asarray(r[0])), r[1]
    site = f"QGMRES(prec={prec}) after in-place update of A and b"
    if not b2.any():
        out.true(site + ":b = 0 gives x = 0 (also on a solver that has solved before)", x.shape == b2.shape and np.all(x == 0.0),
                 f"max |x| = {float(np.max(np.abs(x))) if x.size and np.all(np.isfinite(x)) else float('nan')}")
        for key in ("residual", "residual_true"):
            v = info.get(key)
            out.true(site + f":b = 0 info[{key}] finite and zero", v is not None and np.isfinite(v) and float(v) == 0.0, f"{v!r}")
        out.nontrivial = True
        return out
    if out.true(site + ":x shape", x.shape == b2.shape, f"{x.shape}"):
        rr = common_info_checks(out, site, A2, b2, x, info, tol, k2, prec)
        if rr is not None:
            floor = 1e3 * U_ * k2 * n
            out.le(site + ":solves the UPDATED system", rr, max(tol * (10.0 * k2 if prec else 1.0) * (1 + 1e-6), floor),
                   f"true relative residual w.r.t. the new A, b; tol={tol:g}")
    out.nontrivial = True
    return out


PROPERTY = Property(
    id="C04",
    title="Q-GMRES returns a true solution and truthful convergence information",
    rule=("a case is non-trivial if grade(A,b) < n (Krylov space invariant early; computed by the harness from the "
          "real Krylov matrix rank), or the solve is preconditioned, or b is an eigenvector or zero, or the system is "
          "uniformly scaled (c != 1), or a fault was injected."),
    clauses=[
        Clause("solve", check_solve, strategy=systems, budget={"quick": 500, "thorough": 6000}),
        Clause("solve_long_dimension", check_solve, strategy=long_systems, budget={"quick": 16, "thorough": 160}, shrink=False),
        Clause("solve_ill_conditioned", check_illcond, strategy=illcond_cases, budget={"quick": 200, "thorough": 3000}),
        Clause("cycle_optimality", check_chain, strategy=chain_cases, budget={"quick": 150, "thorough": 2000}),
        Clause("invariance", check_invariance, strategy=invariance_cases, budget={"quick": 150, "thorough": 2000}),
        Clause("faults", check_fault, strategy=fault_cases, budget={"quick": 150, "thorough": 2000}),
        Clause("solver_reuse_inplace", check_reuse, strategy=reuse_cases, budget={"quick": 150, "thorough": 2000}),
    ],
    assumptions=[
        "reference solution / condition number from LAPACK on the harness's complex adjoint",
        "Krylov optimum by real least squares on chi_r with a twice-orthonormalised block Krylov basis (drop threshold 1e-9)",
        "flag soundness with left_lu is relative to cond(A) (the flag is decided on the preconditioned residual)",
        "systems with cond > 1e6 (1e4 in the chain/invariance clauses) are generated rarely and skipped (labelled)",
    ],
)
