"""C06 - quaternion QR reproduces A with orthonormal Q and triangular R for every shape."""
import numpy as np
from hypothesis import strategies as st
from hypothesis.extra import numpy as hnp

from .. import gen, ref
from ..core import Clause, Out, Property
from ..env import L
from ..lib import F, Q, ahash

U_ = ref.U
C_ORTH = 1000.0
C_REC = 200.0
C_TRI = 200.0
ILL_COND = 50.0    # leading block with cond >= 100: contracted Q loses orthonormality like u*cond (same root cause as the
                   # rank-deficient case, gradual); the class is part of the known finding


@st.composite
def qr_cases(draw, tier, size=None):
    lo_, hi = size or (1, 7 if tier == "quick" else 9)
    shape_kind = draw(st.sampled_from(["any", "any", "wide", "row", "col", "square", "tall", "very_tall", "very_wide"]))
    m, n = draw(st.integers(lo_, hi)), draw(st.integers(lo_, hi))
    if shape_kind in ("very_tall", "very_wide"):
        # aspect ratio >= 4 with at least two lines on the short side (tall-skinny / short-fat data matrices)
        sh_ = draw(st.integers(2, 3 if size is None else 5))
        lg_ = 4 * sh_ + draw(st.integers(0, 4))
        m, n = (lg_, sh_) if shape_kind == "very_tall" else (sh_, lg_)
    if shape_kind == "wide" and m >= n:
        m, n = min(m, n), max(m, n) + (1 if m == n else 0)
    elif shape_kind == "tall" and m <= n:
        m, n = max(m, n) + (1 if m == n else 0), min(m, n)
    elif shape_kind == "row":
        m = 1
    elif shape_kind == "col":
        n = 1
    elif shape_kind == "square":
        n = m
    kind = draw(st.sampled_from(["generic", "generic", "int", "pure_imag", "zero_real_diag", "product_rank", "zero_cols",
                                 "dup_cols", "spectrum", "zero", "scaled", "scaled", "nearly_real", "unit_entries",
                                 "trapezoidal", "trapezoidal", "nearly_trapezoidal", "nearly_trapezoidal", "leading_block",
                                 "graded_cols", "stacked_R", "tall_hessenberg"]))
    if kind in ("stacked_R", "tall_hessenberg"):
        # tall inputs whose LEADING block is already reduced while rows below it are not: stacked R factors [R1; R2] /
        # [R; B] of a two-level factorisation, and the (n+1) x n (or taller) Hessenberg matrices of Arnoldi
        if m <= n:
            m = n + draw(st.integers(1, 3))
        A = draw(gen.qarray(m, n, draw(st.sampled_from(["generic", "int"]))))[0].copy()
        if kind == "stacked_R":
            for i in range(n):
                A[i, :i] = 0.0
                A[i, i] = [abs(A[i, i, 0]) + draw(st.sampled_from([0.5, 1.0, 2.0])), 0.0, 0.0, 0.0]
            if draw(st.booleans()):
                for i in range(n, m):
                    A[i, :min(i - n, n)] = 0.0           # a second upper triangular factor underneath
            if not A[n:].any():
                A[n, n - 1] = [0.0, 1.0, 0.0, 0.0]
        else:
            for i in range(m):
                A[i, :max(0, i - 1)] = 0.0
            if n >= 1 and not A[n, n - 1].any():
                A[n, n - 1] = [0.0, 0.0, 1.0, 0.0]
        return {"A": np.ascontiguousarray(A), "kind": kind}
    if kind in ("trapezoidal", "nearly_trapezoidal", "leading_block"):
        # columns that are exactly (or nearly: relative 1e-3 .. 1e-9) zero below a quaternion pivot: already reduced
        # inputs, where an elimination step has nothing (or almost nothing) to annihilate
        A = draw(gen.qarray(m, n, draw(st.sampled_from(["generic", "int", "units"]))))[0].copy()
        for i in range(min(m, n)):
            if not A[i, i].any():
                A[i, i] = draw(gen.unit_q(exact=True))
        if kind == "leading_block":
            k0 = draw(st.integers(1, min(m, n)))
            A[k0:, :k0] = 0.0                           # the leading k0 columns are supported on the first k0 rows
        else:
            low = np.tril(np.ones((m, n)), -1)[..., None]
            if kind == "trapezoidal":
                A = A * (1.0 - low)
            else:
                A = A * (1.0 - low) + A * low * draw(st.sampled_from([1e-3, 1e-5, 1e-6, 1e-7, 1e-8, 1e-9]))
        return {"A": np.ascontiguousarray(A), "kind": kind}
    if kind == "graded_cols":
        A = draw(gen.qarray(m, n, "generic"))[0]
        e = draw(st.lists(st.integers(-6, 6), min_size=n, max_size=n))
        return {"A": np.ascontiguousarray(A * (10.0 ** np.array(e, dtype=float))[None, :, None]), "kind": kind}
    if kind in ("generic", "int", "pure_imag"):
        A = draw(gen.qarray(m, n, kind))[0]
    elif kind == "zero_real_diag":
        A = draw(gen.qarray(m, n, "generic"))[0].copy()
        A[:, 0, 0] = 0.0                      # first eliminated diagonal entry has exactly zero real part
        if min(m, n) >= 2:
            A[0, :, 0] = 0.0
    elif kind == "product_rank":
        r = draw(st.integers(0, min(m, n)))
        if r == 0:
            A = np.zeros((m, n, 4))
        else:
            B = draw(gen.qarray(m, r, draw(st.sampled_from(["generic", "int"]))))[0]
            C = draw(gen.qarray(r, n, draw(st.sampled_from(["generic", "int"]))))[0]
            A = ref.qmm(B, C)
    elif kind == "zero_cols":
        A = draw(gen.qarray(m, n, "generic"))[0].copy()
        for j in draw(st.lists(st.integers(0, n - 1), min_size=1, max_size=max(1, n // 2), unique=True)):
            A[:, j] = 0.0
    elif kind == "dup_cols":
        A = draw(gen.qarray(m, n, "generic"))[0].copy()
        if n >= 2:
            i, j = draw(st.integers(0, n - 1)), draw(st.integers(0, n - 1))
            q = draw(gen.unit_q())
            A[:, j] = ref.qmul(A[:, i], q.reshape(1, 4))       # right multiple of another column
    elif kind == "spectrum":
        s, _ = draw(gen.spectrum(min(m, n), kinds=("distinct", "repeated", "geometric", "allequal", "withzeros")))
        A = draw(gen.matrix_with_svals(m, n, s))
    elif kind == "zero":
        A = np.zeros((m, n, 4))
    elif kind == "nearly_real":
        A = draw(gen.qarray(m, n, "generic"))[0].copy()
        A[..., 1:] *= draw(st.sampled_from([1e-6, 1e-9, 1e-12]))          # tiny but non-zero imaginary parts
    elif kind == "unit_entries":
        # entries from {0, +-1, +-i, +-j, +-k}: pivots / norms of modulus exactly 1, many exact ties
        idx = draw(hnp.arrays(np.int64, (m, n), elements=st.integers(0, 8), fill=st.nothing()))
        A = np.zeros((m, n, 4))
        for i in range(m):
            for j in range(n):
                if idx[i, j] < 8:
                    A[i, j] = gen.BASIS_UNITS[int(idx[i, j])]
    else:
        A = draw(gen.qarray(m, n, "generic"))[0] * 10.0 ** draw(st.sampled_from([-16, -12, -9, -4, 4, 9, 12, -200, -170, 160, 200]))
    return {"A": np.ascontiguousarray(A), "kind": kind}


@st.composite
def long_qr_cases(draw, tier):
    Lg, sh = draw(gen.long_dim(cap=257 if tier == "quick" else 520)), draw(st.integers(1, 4))
    A, pat = draw(gen.long_qarray(Lg, sh, draw(st.sampled_from(["generic", "int"]))))
    if sh >= 2 and draw(st.integers(0, 1)) == 0:
        # full column rank, but two columns coincide on a block of the rows (a row-split / tree factorisation meets a
        # rank-deficient block although the matrix is well conditioned)
        h = {0: Lg // 2, 1: Lg // 4, 2: Lg - Lg // 4}[draw(st.integers(0, 2))]
        A = A.copy()
        jd = draw(st.integers(1, sh - 1))       # a dependent column that is FOLLOWED by another one matters most
        if draw(st.booleans()):
            A[:h, jd] = A[:h, 0]
        else:
            A[Lg - h:, jd] = A[Lg - h:, 0]
        pat = pat + ":columns_equal_on_a_row_block"
    if draw(st.booleans()):
        A = np.ascontiguousarray(np.swapaxes(A, 0, 1))
    return {"A": np.ascontiguousarray(A * 10.0 ** draw(st.sampled_from([0, 0, -9, 9]))), "kind": pat}


def leading_rank(A):
    """(numerical rank, condition number) of the leading min(m,n) columns."""
    m, n, _ = A.shape
    k = min(m, n)
    s = ref.svals(A[:, :k])
    if len(s) == 0 or s[0] == 0:
        return 0, np.inf
    r = int(np.sum(s > 1e-10 * s[0]))
    return r, (float(s[0] / s[-1]) if r == k else np.inf)


def check_qr(case):
    A = case["A"]
    m, n, _ = A.shape
    k = min(m, n)
    lr, lcond = leading_rank(A)
    tags = []
    # rank deficiency that comes ONLY from exactly-zero columns is not part of the known finding (the real QR meets an
    # exactly zero column, not a rounding-level one): judged like a full-rank input if the non-zero leading columns
    # are independent and well conditioned
    zc = [j for j in range(min(m, n)) if not A[:, j].any()]
    if lr < k and zc and len(zc) < k:
        keep = [j for j in range(k) if j not in zc]
        sk = ref.svals(A[:, keep])
        if len(sk) == len(keep) and sk[-1] > 0 and sk[0] / sk[-1] < ILL_COND and lr == len(keep):
            lr, lcond = k, float(sk[0] / sk[-1])
    if lr < k:
        tags.append("leading_rank_deficient")
    elif lcond >= ILL_COND:
        tags.append("leading_ill_conditioned")
    if m < n:
        tags.append("wide")
    out = Out(tags=tuple(tags))
    out.label(case["kind"], "wide" if m < n else ("tall" if m > n else "square"))
    if lr < k:
        out.label("leading_rank_deficient")
    elif lcond >= ILL_COND:
        out.label("leading_ill_conditioned")
    if m == 1:
        out.label("row")
    Aq = Q(A)
    h0 = ahash(Aq)
    ok, r = out.call("qr_qua", L.qsvd.qr_qua, Aq)
    if not ok:
        return out
    out.true("qr_qua:argument unchanged", ahash(Aq) == h0, "input modified")
    Qf, Rf = F(r[0]), F(r[1])
    if not out.true("qr_qua:shapes", Qf.shape == (m, k, 4) and Rf.shape == (k, n, 4), f"Q {Qf.shape} R {Rf.shape}"):
        return out
    if not out.true("qr_qua:finite", np.all(np.isfinite(Qf)) and np.all(np.isfinite(Rf)), "non-finite factor"):
        return out
    amax = float(np.max(np.abs(A))) if A.size else 0.0
    if amax > 0 and not (1e-100 <= amax <= 1e100):
        # far scales: the factors are representable (Q is O(1), R is O(A)); the ORACLE's own sums of squares are not, so
        # A and R are brought to unit scale by a power of two before they are compared
        sc = 2.0 ** -int(np.floor(np.log2(amax)))
        A, Rf = A * sc, Rf * sc
        out.label("far_scale")
    an = ref.fro(A)
    qdef = ref.unitarity_defect(Qf)
    out.le("qr_qua:Q orthonormal", qdef, C_ORTH * (m + n) * U_)
    if lr == k and np.isfinite(lcond):
        # inside the known-finding class the loss follows u*cond(leading block) (KF-C06-2); a loss far beyond that law
        # is a different defect and is reported (no exemption for this site)
        out.le("qr_qua:Q orthonormal up to the u*cond law of the contracted factor", qdef,
               C_ORTH * (m + n) * U_ * max(1.0, lcond), f"cond(leading block)={lcond:.2e}", tags=())
    below = 0.0
    for i in range(k):
        for j in range(min(i, n)):
            below = max(below, float(ref.modulus(Rf[i, j])))
    out.le("qr_qua:R upper triangular", below, C_TRI * (m + n) * U_ * an + 1e-300 * (an == 0))
    rdef = ref.fro(A - ref.qmm(Qf, Rf))
    out.le("qr_qua:A = QR", rdef, C_REC * (m + n) * U_ * an + 1e-300 * (an == 0),
           f"||A||={an:.3e} shape {m}x{n} leading rank {lr}/{k}")
    if lr == k and np.isfinite(lcond):
        out.le("qr_qua:A = QR up to the u*cond law of the contracted factor", rdef,
               C_REC * (m + n) * U_ * an * max(1.0, lcond) + 1e-300 * (an == 0), f"cond(leading block)={lcond:.2e}", tags=())
    out.nontrivial = (m < n) or (lr < k) or m == 1
    out.sample = {"shape": [m, n], "kind": case["kind"], "leading_rank": lr}
    return out


PROPERTY = Property(
    id="C06",
    title="Quaternion QR reproduces A with orthonormal Q and triangular R for every shape",
    rule="m < n (wide), or numerical rank of the leading min(m,n) columns < min(m,n), or m = 1",
    clauses=[Clause("qr", check_qr, strategy=qr_cases, budget={"quick": 1500, "thorough": 24000}),
             Clause("qr_moderate_size", check_qr, strategy=lambda tier: qr_cases(tier, size=(9, 20 if tier == "quick" else 40)),
                    budget={"quick": 40, "thorough": 400}, shrink=False),
             Clause("qr_long_dimension", check_qr, strategy=long_qr_cases, budget={"quick": 32, "thorough": 320}, shrink=False)],
    assumptions=[
        "orthonormality / reconstruction judged in the harness's own Hamilton arithmetic with c*(m+n)*u bounds (c=200)",
        "input-class tag 'leading_rank_deficient' = numerical rank (rel 1e-10, LAPACK on the complex adjoint) of the "
        "leading min(m,n) columns is deficient; computed from the input alone",
    ],
)
