"""C14 - results depend only on configuration and arguments: no hidden state, no mutation,
import-style independence."""
import contextlib
import hashlib
import io
import json
import os
import shutil
import subprocess
import sys
import tempfile

import numpy as np
from hypothesis import strategies as st
from hypothesis.stateful import RuleBasedStateMachine, invariant, rule

from .. import gen, ref
from ..core import Clause, Out, Property
from ..env import L, REPO, VERIF
from ..lib import F, Q, S, ahash

TIMING_KEYS = ("iteration_times", "total_time")


# ----------------------------------------------------------------------------
# canonical, bit-exact digest of a result structure (timing fields excluded)


def canon(obj):
    h = hashlib.sha1()

    def upd(o):
        if isinstance(o, L.utils.SparseQuaternionMatrix):
            h.update(ahash(o).encode())
        elif isinstance(o, np.ndarray):
            if o.dtype == np.quaternion:
                import quaternion
                o = quaternion.as_float_array(o)
            h.update(str(o.shape).encode())
            if o.dtype == object:
                for v in o.ravel():
                    upd(v)
            else:
                h.update(np.ascontiguousarray(o).tobytes())
        elif isinstance(o, (list, tuple)):
            h.update(b"[")
            for v in o:
                upd(v)
            h.update(b"]")
        elif isinstance(o, dict):
            for k in sorted(o, key=str):
                if k in TIMING_KEYS:
                    continue
                h.update(str(k).encode())
                upd(o[k])
        elif isinstance(o, (float, np.floating)):
            h.update(float(o).hex().encode())
        elif isinstance(o, (complex, np.complexfloating)):
            h.update((float(o.real).hex() + float(o.imag).hex()).encode())
        elif hasattr(o, "w") and hasattr(o, "x") and hasattr(o, "y") and hasattr(o, "z"):
            h.update(b"q" + b"".join(float(v).hex().encode() for v in (o.w, o.x, o.y, o.z)))
        else:
            h.update(repr(o).encode())
    upd(obj)
    return h.hexdigest()


def config_state(obj):
    """Public configuration of a solver object (recursing into nested solver objects)."""
    d = {}
    for k, v in sorted(vars(obj).items()):
        if hasattr(v, "__dict__") and not isinstance(v, np.ndarray) and type(v).__module__ not in ("builtins", "numpy"):
            d[k] = config_state(v)
        else:
            d[k] = repr(v)
    return d


# ----------------------------------------------------------------------------
# solver configurations


def _hval(*key):
    h = hashlib.sha256(repr(key).encode()).digest()
    return (int.from_bytes(h[:4], "big") % 65 - 32) / 16.0


def det_matrix(tag, m, n, rank=None):
    A = np.array([[[_hval(tag, i, j, c) for c in range(4)] for j in range(n)] for i in range(m)], dtype=float).reshape(m, n, 4)
    if rank is not None and rank < min(m, n):
        B = np.array([[[_hval(tag, "b", i, j, c) for c in range(4)] for j in range(rank)] for i in range(m)], dtype=float).reshape(m, rank, 4)
        C = np.array([[[_hval(tag, "c", i, j, c) for c in range(4)] for j in range(n)] for i in range(rank)], dtype=float).reshape(rank, n, 4)
        A = ref.qmm(B, C)
    return A


def det_system(tag, n):
    A = det_matrix(tag, n, n) + 4.0 * ref.qeye(n)
    b = det_matrix((tag, "rhs"), n, 1)
    return A, b


CONFIGS = [
    {"cls": "NS", "kw": {"gamma": 0.5, "max_iter": 8, "tol": 1e-6}, "pool": "any"},
    {"cls": "NS", "kw": {"gamma": 1.0, "max_iter": 6, "tol": 1e-3, "compute_residuals": False}, "pool": "any"},
    {"cls": "HON", "kw": {"max_iter": 5}, "pool": "any"},
    {"cls": "QGMRES", "kw": {"tol": 1e-8}, "pool": "sys"},
    {"cls": "QGMRES", "kw": {"tol": 1e-8, "max_iter": 2}, "pool": "sys"},
    {"cls": "QGMRES", "kw": {"tol": 1e-8, "preconditioner": "left_lu"}, "pool": "sys"},
    {"cls": "QGMRES", "kw": {"tol": 1e-3, "max_iter": 2, "preconditioner": "left_lu"}, "pool": "sys"},
    {"cls": "RSP", "kw": {"block_size": 4, "max_iter": 12, "tol": 1e-6}, "pool": "any"},
    {"cls": "RSP", "kw": {"block_size": 3, "max_iter": 8, "tol": 1e-6, "column_solver": "spd"}, "pool": "any"},
    {"cls": "HYBRID", "kw": {"r": 2, "p": 2, "T": 2, "max_iter": 6, "tol": 1e-8}, "pool": "tall"},
    {"cls": "CGNE", "kw": {"tol": 1e-8, "max_iter": 12}, "pool": "tall"},
    {"cls": "CGNE", "kw": {"tol": 1e-8, "max_iter": 8, "preconditioner_rank": 2}, "pool": "tall"},
    {"cls": "DEEP", "kw": {"max_iter": 2, "tol": 1e-6}, "pool": "deep"},
    # non-default options: private seeds, verbose paths, the alternative micro-solver, random initialisation
    {"cls": "RSP", "kw": {"block_size": 2, "max_iter": 8, "tol": 1e-6, "seed": 7, "test_sketch_size": 2}, "pool": "any"},
    {"cls": "HYBRID", "kw": {"r": 2, "p": 1, "T": 1, "max_iter": 5, "tol": 1e-8, "seed": 11, "column_solver": "spd"}, "pool": "tall"},
    {"cls": "CGNE", "kw": {"tol": 1e-8, "max_iter": 8, "preconditioner_rank": 1, "seed": 5}, "pool": "tall"},
    {"cls": "DEEP", "kw": {"max_iter": 2, "tol": 1e-6, "random_init": True, "inner_iterations": 2, "compute_residuals": False},
     "pool": "deep"},
    {"cls": "NS", "kw": {"gamma": 0.9, "max_iter": 5, "tol": 1e-6, "verbose": True}, "pool": "any"},
    {"cls": "QGMRES", "kw": {"tol": 1e-6, "verbose": True}, "pool": "sys"},
    # sketch / block sizes ABOVE the row count of the smallest pool problems and below that of the others: the clamped /
    # fallback paths taken for a small problem must leave nothing behind for the next one
    {"cls": "HYBRID", "kw": {"r": 4, "p": 2, "T": 2, "max_iter": 5, "tol": 1e-8}, "pool": "tall"},
    {"cls": "RSP", "kw": {"block_size": 4, "max_iter": 8, "tol": 1e-6, "test_sketch_size": 3}, "pool": "tall"},
]

POOLS = {
    "any": [("any0", 2, 2, None), ("any1", 5, 3, None), ("any2", 3, 5, None), ("any3", 4, 4, 2)],
    "tall": [("tall0", 2, 2, None), ("tall1", 5, 3, None), ("tall2", 4, 4, None), ("tall3", 6, 2, None)],
    "sys": [("sys0", 2), ("sys1", 3), ("sys2", 5), ("sys3", 6)],
    "deep": [("deep0", 4, 2), ("deep1", 3, 3), ("deep2", 5, 2), ("deep3", 2, 2)],
}


def pool_problem(pool, idx):
    spec = POOLS[pool][idx]
    if pool == "sys":
        A, b = det_system(spec[0], spec[1])
        return {"A": A, "b": b}
    if pool == "deep":
        X = det_matrix(spec[0], spec[1], spec[2])
        return {"A": X, "layers": [spec[2], spec[2]]}
    return {"A": det_matrix(spec[0], spec[1], spec[2], spec[3])}


def make(cfg):
    s = L.solver
    cls = {"NS": s.NewtonSchulzPseudoinverse, "HON": s.HigherOrderNewtonSchulzPseudoinverse, "QGMRES": s.QGMRESSolver,
           "RSP": s.RandomizedSketchProjectPseudoinverse, "HYBRID": s.HybridRSPNewtonSchulz, "CGNE": s.CGNEQSolver,
           "DEEP": s.DeepLinearNewtonSchulz}[cfg["cls"]]
    return cls(**cfg["kw"])


def invoke(cfg, obj, prob, seed, buffers=None):
    """One call; returns (result, args) with the global numpy RNG seeded immediately before.
    buffers: optional dict shape -> ndarray object of an earlier step; when the step asks for it the SAME array
    object is overwritten in place with the new contents and passed again (in-place update by the caller)."""
    A = Q(prob["A"])
    if buffers is not None:
        key = ("A",) + tuple(A.shape)
        if prob.get("reuse_buffer") and key in buffers:
            np.copyto(buffers[key], A)
            A = buffers[key]
        else:
            buffers[key] = A
    args = [A]
    np.random.seed(seed)
    with contextlib.redirect_stdout(io.StringIO()):
        if cfg["cls"] == "QGMRES":
            b = Q(prob["b"])
            if buffers is not None:
                keyb = ("b",) + tuple(b.shape)
                if prob.get("reuse_buffer") and keyb in buffers:
                    np.copyto(buffers[keyb], b)
                    b = buffers[keyb]
                else:
                    buffers[keyb] = b
            args.append(b)
            r = obj.solve(A, b)
            # the Krylov basis is part of the returned info and must be reproducible too
        elif cfg["cls"] == "DEEP":
            r = obj.compute(A, list(prob["layers"]))
        else:
            r = obj.compute(A)
            if cfg["cls"] == "HON":
                r = r[:2]            # third return value is the list of per-iteration wall-clock times
    return r, args


def check_history(case):
    """Replay a history on ONE reused object; compare every call with a fresh object."""
    cfg = CONFIGS[case["config"]]
    out = Out(tags=(cfg["cls"],))
    out.label(cfg["cls"])
    ok, obj = out.call(f"{cfg['cls']}()", make, cfg)
    if not ok:
        return out
    state0 = config_state(obj)
    prev_shape = None
    differs = False
    buffers = {}
    for i, step in enumerate(case["steps"]):
        site = f"{cfg['cls']}{json.dumps(cfg['kw'], sort_keys=True)}"
        shape = tuple(step["A"].shape[:2])
        if prev_shape is not None and shape != prev_shape:
            differs = True
        prev_shape = shape
        try:
            Aq = Q(step["A"])
            h_before = ahash(Aq)
            r_reused, args = invoke(cfg, obj, step, step["seed"], buffers)
            if step.get("reuse_buffer"):
                differs = True
                out.label("argument_buffer_updated_in_place")
            raised = None
        except Exception as e:  # noqa: BLE001
            raised = e
        try:
            r_fresh, args_f = invoke(cfg, make(cfg), step, step["seed"])
            raised_f = None
        except Exception as e:  # noqa: BLE001
            raised_f = e
        if raised is not None or raised_f is not None:
            out.true(site + ":reused object raises exactly when a fresh one does",
                     (raised is None) == (raised_f is None) and type(raised) is type(raised_f),
                     f"step {i} shape {shape}: reused raised {raised!r}, fresh raised {raised_f!r}")
            continue
        out.true(site + ":reused object returns what a fresh object returns", canon(r_reused) == canon(r_fresh),
                 f"step {i} of history {[tuple(s['A'].shape[:2]) for s in case['steps']]}: results differ bit-wise")
        for a, proto in zip(args, ("A", "b")):
            out.true(site + ":caller's arrays untouched", np.array_equal(F(a), step[proto]), f"argument {proto} modified at step {i}")
        st_now = config_state(obj)
        out.true(site + ":public configuration unchanged by a call", st_now == state0,
                 f"step {i}: " + ", ".join(f"{k}: {state0.get(k)} -> {st_now.get(k)}" for k in st_now if st_now.get(k) != state0.get(k)))
        if step.get("repeat"):
            r_again, _ = invoke(cfg, obj, step, step["seed"])
            out.true(site + ":repeating a call repeats the result", canon(r_again) == canon(r_reused), f"step {i}")
    out.nontrivial = differs
    out.sample = {"config": cfg["cls"], "kw": {k: str(v) for k, v in cfg["kw"].items()},
                  "shapes": [list(s["A"].shape[:2]) for s in case["steps"]]}
    return out


def enum_histories(tier):
    cases = []
    for ci, cfg in enumerate(CONFIGS):
        npool = len(POOLS[cfg["pool"]])
        seqs = [(a,) for a in range(npool)] + [(a, b) for a in range(npool) for b in range(npool)]
        if tier == "thorough":
            seqs += [(a, b, c) for a in range(npool) for b in range(npool) for c in range(npool)]
        else:
            seqs += [(a, b, c) for a in range(npool) for b in range(npool) for c in range(npool)
                     if (a * 5 + b * 3 + c) % 7 == 0]
        for a in range(npool):
            p0 = pool_problem(cfg["pool"], a)
            p0["seed"] = 1000 + 17 * a
            p0["pool_index"] = a
            p1 = pool_problem(cfg["pool"], a)
            p1["A"] = 0.5 * p1["A"][::-1].copy() + (ref.qeye(p1["A"].shape[0]) if p1["A"].shape[0] == p1["A"].shape[1] else 0.25)
            if "b" in p1:
                p1["b"] = p1["b"][::-1].copy() * 0.5 + 0.25
            p1["seed"] = 1000 + 17 * a + 1
            p1["pool_index"] = a
            p1["reuse_buffer"] = True
            cases.append({"config": ci, "steps": [p0, p1]})
        for seq in seqs:
            steps = []
            for k, pi in enumerate(seq):
                p = pool_problem(cfg["pool"], pi)
                p["seed"] = 1000 + 17 * pi + k
                p["pool_index"] = pi
                steps.append(p)
            cases.append({"config": ci, "steps": steps})
    return cases


# ----------------------------------------------------------------------------
# stateful machine: generated problems, up to 8 steps on one object


@st.composite
def gen_problem(draw, pool):
    if pool == "sys":
        n = draw(st.integers(1, 5))
        A = draw(gen.qarray(n, n, draw(st.sampled_from(["generic", "int"]))))[0] / 4.0 + 3.0 * ref.qeye(n)
        b = draw(gen.qarray(n, 1, "generic"))[0]
        if not b.any():
            b[0, 0, 0] = 1.0
        return {"A": A, "b": b}
    if pool == "deep":
        m, n = draw(st.integers(2, 4)), draw(st.integers(1, 3))
        A = draw(gen.qarray(m, n, "generic"))[0]
        if not A.any():
            A[0, 0, 0] = 1.0
        return {"A": A, "layers": [n, n]}
    m, n = draw(st.integers(1, 5)), draw(st.integers(1, 5))
    if pool == "tall" and m < n:
        m, n = n, m
    A = draw(gen.qarray(m, n, draw(st.sampled_from(["generic", "int", "sparse"]))))[0]
    if not A.any():
        A[0, 0, 0] = 1.0
    return {"A": A}


def make_machine(tier, hooks):
    class HistoryMachine(RuleBasedStateMachine):
        def __init__(self):
            super().__init__()
            self.case = None

        @rule(data=st.data())
        def call(self, data):
            if self.case is None:
                ci = data.draw(st.integers(0, len(CONFIGS) - 1), label="config")
                self.case = {"config": ci, "steps": []}
            cfg = CONFIGS[self.case["config"]]
            kind = data.draw(st.sampled_from(["new", "new", "repeat_last", "update_in_place"]), label="kind")
            if kind == "repeat_last" and self.case["steps"]:
                step = dict(self.case["steps"][-1])
                step["repeat"] = True
            elif kind == "update_in_place" and self.case["steps"]:
                last = self.case["steps"][-1]
                step = {k: v for k, v in last.items() if k not in ("repeat",)}
                c = data.draw(st.sampled_from([0.5, 0.75, 1.5]), label="factor")
                An = last["A"] * c
                if An.shape[0] == An.shape[1]:
                    An = An + ref.qeye(An.shape[0])
                else:
                    An = An + 0.25
                step["A"] = An
                if "b" in last:
                    step["b"] = last["b"] * c + 0.125
                step["seed"] = data.draw(st.integers(0, 2 ** 31 - 1), label="seed")
                step["reuse_buffer"] = True
            else:
                step = data.draw(gen_problem(cfg["pool"]), label="problem")
                step["seed"] = data.draw(st.integers(0, 2 ** 31 - 1), label="seed")
            self.case["steps"].append(step)

        @invariant()
        def reused_equals_fresh(self):
            if self.case is None or not self.case["steps"]:
                return
            out = check_history(self.case)
            self.out = out
            hooks.after_step(self.case, out)

        def teardown(self):
            if self.case is not None and self.case["steps"] and getattr(self, "out", None) is not None:
                hooks.done(self.case, self.out)

    return HistoryMachine


# ----------------------------------------------------------------------------
# argument mutation / repeatability probes over the public API


def _probes():
    u, s, d = L.utils, L.solver, L.decomp
    qs, lu, eg, td, hb, sc, tn, ql = L.qsvd, L.LU, L.eigen, L.tridiag, L.hessenberg, L.schur, L.tensor, L.qslst

    def planes(A):
        return [np.ascontiguousarray(A[..., c]) for c in range(4)]
    P = []

    def add(name, fn, build):
        P.append((name, fn, build))
    add("quat_matmat(dense,dense)", u.quat_matmat, lambda c: [Q(c["A"]), Q(c["B"])])
    add("quat_matmat(sparse,dense)", u.quat_matmat, lambda c: [S(c["A"]), Q(c["B"])])
    add("quat_matmat(dense,sparse)", u.quat_matmat, lambda c: [Q(c["A"]), S(c["B"])])
    add("quat_matmat(sparse,sparse)", u.quat_matmat, lambda c: [S(c["A"]), S(c["B"])])
    add("quat_frobenius_norm", u.quat_frobenius_norm, lambda c: [Q(c["A"])])
    add("quat_frobenius_norm(sparse)", u.quat_frobenius_norm, lambda c: [S(c["A"])])
    add("quat_hermitian", u.quat_hermitian, lambda c: [Q(c["A"])])
    add("quat_hermitian(sparse)", u.quat_hermitian, lambda c: [S(c["A"])])
    add("induced_matrix_norm_1", u.induced_matrix_norm_1, lambda c: [Q(c["A"])])
    add("induced_matrix_norm_inf", u.induced_matrix_norm_inf, lambda c: [Q(c["A"])])
    add("spectral_norm_2", u.spectral_norm_2, lambda c: [Q(c["A"])])
    add("matrix_norm(2)", lambda A: u.matrix_norm(A, 2), lambda c: [Q(c["A"])])
    add("real_expand", u.real_expand, lambda c: [Q(c["A"])])
    add("real_contract", lambda R, m, n: u.real_contract(R, m, n), lambda c: [ref.chi_r(c["A"]), c["A"].shape[0], c["A"].shape[1]])
    add("compute_real_svd_pinv", u.compute_real_svd_pinv, lambda c: [ref.chi_r(c["A"])])
    add("normQsparse", u.normQsparse, lambda c: planes(c["A"]))
    add("timesQsparse", u.timesQsparse, lambda c: planes(c["A"]) + planes(c["B"]))
    add("A2A0123", u.A2A0123, lambda c: [np.hstack(planes(c["A"]))])
    add("normQ", u.normQ, lambda c: [Q(c["A"])])
    add("Realp", u.Realp, lambda c: planes(c["A"]))
    add("ggivens", u.ggivens, lambda c: [c["A"][0, 0].copy(), c["B"][0, 0].copy()])
    add("GRSGivens", u.GRSGivens, lambda c: [c["A"][0, 0].copy()])
    add("absQsparse", u.absQsparse, lambda c: planes(c["A"]))
    add("dotinvQsparse", u.dotinvQsparse, lambda c: planes(c["A"]))
    add("ishermitian", u.ishermitian, lambda c: [Q(c["H"])])
    add("det(Dieudonne)", lambda X: u.det(X, "Dieudonne"), lambda c: [Q(c["Sq"])])
    add("det(Moore)", lambda X: u.det(X, "Moore"), lambda c: [Q(c["H"])])
    add("rank", u.rank, lambda c: [Q(c["A"])])
    add("power_iteration", lambda A: u.power_iteration(A, max_iterations=20, return_eigenvalue=True), lambda c: [Q(c["H"])])
    add("quaternion_to_complex_adjoint", u.quaternion_to_complex_adjoint, lambda c: [Q(c["Sq"])])
    add("power_iteration_nonhermitian", lambda A: u.power_iteration_nonhermitian(A, max_iterations=30), lambda c: [Q(c["Sq"])])
    add("quat_null_space(right)", lambda A: u.quat_null_space(A, side="right"), lambda c: [Q(c["A"])])
    add("quat_null_left", u.quat_null_left, lambda c: [Q(c["A"])])
    add("quat_kernel", u.quat_kernel, lambda c: [Q(c["A"])])
    add("NewtonSchulz.compute", lambda A: s.NewtonSchulzPseudoinverse(max_iter=5, tol=0.0).compute(A), lambda c: [Q(c["A"])])
    add("NewtonSchulz.compute(sparse)", lambda A: s.NewtonSchulzPseudoinverse(max_iter=5, tol=0.0).compute(A), lambda c: [S(c["A"])])
    add("HigherOrderNS.compute", lambda A: s.HigherOrderNewtonSchulzPseudoinverse(max_iter=4).compute(A)[:2], lambda c: [Q(c["A"])])
    add("QGMRES.solve", lambda A, b: s.QGMRESSolver(tol=1e-8).solve(A, b), lambda c: [Q(c["Sys"]), Q(c["b"])])
    add("QGMRES.solve(sparse)", lambda A, b: s.QGMRESSolver(tol=1e-8).solve(A, b), lambda c: [S(c["Sys"]), Q(c["b"])])
    add("QGMRES.solve(left_lu)", lambda A, b: s.QGMRESSolver(tol=1e-8, preconditioner="left_lu").solve(A, b),
        lambda c: [Q(c["Sys"]), Q(c["b"])])
    add("RSP.compute", lambda A: s.RandomizedSketchProjectPseudoinverse(block_size=2, max_iter=6).compute(A), lambda c: [Q(c["A"])])
    add("RSP.compute(spd)", lambda A: s.RandomizedSketchProjectPseudoinverse(block_size=2, max_iter=6, column_solver="spd").compute(A),
        lambda c: [Q(c["A"])])
    add("Hybrid.compute", lambda A: s.HybridRSPNewtonSchulz(r=2, p=2, T=2, max_iter=4).compute(A), lambda c: [Q(c["Tall"])])
    add("CGNE.compute", lambda A: s.CGNEQSolver(max_iter=6).compute(A), lambda c: [Q(c["Tall"])])
    add("CGNE.compute(prec)", lambda A: s.CGNEQSolver(max_iter=6, preconditioner_rank=1).compute(A), lambda c: [Q(c["Tall"])])
    add("_solve_lower_triangular_quat", s._solve_lower_triangular_quat, lambda c: [Q(c["Sys"]), Q(c["b"])])
    add("_solve_upper_triangular_quat", s._solve_upper_triangular_quat, lambda c: [Q(c["Sys"]), Q(c["b"])])
    add("qr_qua", qs.qr_qua, lambda c: [Q(c["A"])])
    add("classical_qsvd", lambda A: qs.classical_qsvd(A, 1), lambda c: [Q(c["A"])])
    add("classical_qsvd_full", qs.classical_qsvd_full, lambda c: [Q(c["A"])])
    add("rand_qsvd", lambda A: qs.rand_qsvd(A, 1, oversample=2, n_iter=1), lambda c: [Q(c["A"])])
    add("pass_eff_qsvd", lambda A: qs.pass_eff_qsvd(A, 1, oversample=2, n_passes=3), lambda c: [Q(c["A"])])
    add("quaternion_lu", lu.quaternion_lu, lambda c: [Q(c["Sys"])])
    add("quaternion_lu(return_p)", lambda A: lu.quaternion_lu(A, return_p=True), lambda c: [Q(c["Sys"])])
    add("quaternion_lu(no usable pivot)", lu.quaternion_lu, lambda c: [Q(np.zeros_like(c["Sys"]))])
    add("quaternion_lu(zero column)", lu.quaternion_lu, lambda c: [Q(c["Sys"] * (np.arange(c["Sys"].shape[1]) != 1)[None, :, None])])
    add("quaternion_modulus", lu.quaternion_modulus, lambda c: [Q(c["A"])])
    add("quaternion_triu", lu.quaternion_triu, lambda c: [Q(c["A"])])
    add("quaternion_tril", lu.quaternion_tril, lambda c: [Q(c["A"])])
    # strictly tall and strictly wide operands with a diagonal offset (rows / columns past the square part)
    _tallx = lambda c: np.concatenate([c["Tall"], c["Tall"][:1] * 0.5 + 0.25], axis=0)
    add("quaternion_triu(tall, k=1)", lambda A: lu.quaternion_triu(A, 1), lambda c: [Q(_tallx(c))])
    add("quaternion_tril(tall, k=-1)", lambda A: lu.quaternion_tril(A, -1), lambda c: [Q(_tallx(c))])
    add("quaternion_triu(wide)", lu.quaternion_triu, lambda c: [Q(np.ascontiguousarray(np.swapaxes(_tallx(c), 0, 1)))])
    add("quaternion_tril(wide)", lu.quaternion_tril, lambda c: [Q(np.ascontiguousarray(np.swapaxes(_tallx(c), 0, 1)))])
    add("verify_lu_decomposition", lambda A: lu.verify_lu_decomposition(A, *lu.quaternion_lu(A)), lambda c: [Q(c["Sys"])])
    add("quaternion_eigendecomposition", eg.quaternion_eigendecomposition, lambda c: [Q(c["H"])])
    add("quaternion_eigenvalues", eg.quaternion_eigenvalues, lambda c: [Q(c["H"])])
    add("quaternion_eigenvectors", eg.quaternion_eigenvectors, lambda c: [Q(c["H"])])
    add("tridiagonalize", td.tridiagonalize, lambda c: [Q(c["H2"])])
    add("householder_matrix", td.householder_matrix, lambda c: [Q(c["A"][:, 0]), np.eye(c["A"].shape[0])[0].copy()])
    add("householder_vector", td.householder_vector, lambda c: [Q(c["A"][:, 0]), np.eye(c["A"].shape[0])[0].copy()])
    add("hessenbergize", hb.hessenbergize, lambda c: [Q(c["Sq"])])
    add("is_hessenberg", hb.is_hessenberg, lambda c: [Q(c["Sq"])])
    add("check_hessenberg", hb.check_hessenberg, lambda c: [Q(c["Sq"])])
    add("quaternion_schur", lambda A: sc.quaternion_schur(A, max_iter=10), lambda c: [Q(c["Sq"])])
    # matrices that the QR sweep maps onto themselves (cyclic shifts, scaled): stagnation / exceptional-shift branches
    def _shift(c):
        q_ = c["Sq"].shape[0]
        return [Q(np.roll(ref.qeye(q_), 1, axis=0) * (1.0 + 0.5 * (c["seed"] % 3)))]
    for nm_, f_, kw_ in (("quaternion_schur", sc.quaternion_schur, {}),
                         ("quaternion_schur(wilkinson)", sc.quaternion_schur, {"shift": "wilkinson"}),
                         ("quaternion_schur_pure", sc.quaternion_schur_pure, {}),
                         ("quaternion_schur_pure_implicit", sc.quaternion_schur_pure_implicit, {}),
                         ("quaternion_schur_unified(aed)", sc.quaternion_schur_unified, {"variant": "aed"}),
                         ("quaternion_schur_unified(ds)", sc.quaternion_schur_unified, {"variant": "ds"}),
                         ("quaternion_schur_experimental", sc.quaternion_schur_experimental, {})):
        add(nm_ + "[cyclic shift, 40 sweeps]", (lambda A, f=f_, kw=kw_: f(A, max_iter=40, **kw)), _shift)
    add("quaternion_schur(40 sweeps)", lambda A: sc.quaternion_schur(A, max_iter=40), lambda c: [Q(c["Sq"])])
    add("quaternion_schur_pure(40 sweeps)", lambda A: sc.quaternion_schur_pure(A, max_iter=40), lambda c: [Q(c["Sq"])])
    add("quaternion_schur_unified(aed, 40 sweeps)", lambda A: sc.quaternion_schur_unified(A, variant="aed", max_iter=40), lambda c: [Q(c["Sq"])])
    add("quaternion_schur_pure", lambda A: sc.quaternion_schur_pure(A, max_iter=10), lambda c: [Q(c["Sq"])])
    add("quaternion_schur_pure_implicit", lambda A: sc.quaternion_schur_pure_implicit(A, max_iter=10), lambda c: [Q(c["Sq"])])
    add("quaternion_schur_unified(aed)", lambda A: sc.quaternion_schur_unified(A, variant="aed", max_iter=10), lambda c: [Q(c["Sq"])])
    add("quaternion_schur_unified(ds)", lambda A: sc.quaternion_schur_unified(A, variant="ds", max_iter=10), lambda c: [Q(c["Sq"])])
    add("quaternion_schur_experimental", lambda A: sc.quaternion_schur_experimental(A, max_iter=10), lambda c: [Q(c["Sq"])])
    for nm_, f_, kw_ in (("quaternion_schur", sc.quaternion_schur, {}),
                         ("quaternion_schur_pure", sc.quaternion_schur_pure, {}),
                         ("quaternion_schur_pure_implicit", sc.quaternion_schur_pure_implicit, {}),
                         ("quaternion_schur_unified(rayleigh)", sc.quaternion_schur_unified, {"variant": "rayleigh"}),
                         ("quaternion_schur_unified(aed)", sc.quaternion_schur_unified, {"variant": "aed"}),
                         ("quaternion_schur_unified(ds)", sc.quaternion_schur_unified, {"variant": "ds"}),
                         ("quaternion_schur_experimental", sc.quaternion_schur_experimental, {})):
        add(nm_ + "[return_diagnostics]",
            (lambda A, f=f_, kw=kw_: f(A, max_iter=6, return_diagnostics=True, **kw)), lambda c: [Q(c["Sq"])])
    add("NewtonSchulz.compute[residual histories]",
        lambda A: s.NewtonSchulzPseudoinverse(max_iter=4, tol=0.0, compute_residuals=True).compute(A), lambda c: [Q(c["A"])])
    # the same entry points on operands with more than a thousand entries (size-switched code paths)
    add("quat_matmat(dense,dense)[large]", u.quat_matmat, lambda c: [Q(c["Abig"]), Q(c["Bbig"])])
    add("quat_matmat(sparse,dense)[large]", u.quat_matmat, lambda c: [S(c["Abig"]), Q(c["Bbig"])])
    add("quat_matmat(dense,sparse)[large]", u.quat_matmat, lambda c: [Q(c["Abig"]), S(c["Bbig"])])
    add("quat_frobenius_norm[large]", u.quat_frobenius_norm, lambda c: [Q(c["Abig"])])
    add("induced_matrix_norm_1[large]", u.induced_matrix_norm_1, lambda c: [Q(c["Abig"])])
    add("induced_matrix_norm_inf[large]", u.induced_matrix_norm_inf, lambda c: [Q(c["Abig"])])
    add("matrix_norm(2)[large]", lambda A: u.matrix_norm(A, 2), lambda c: [Q(c["Abig"])])
    add("quat_hermitian[large]", u.quat_hermitian, lambda c: [Q(c["Abig"])])
    add("real_expand[large]", u.real_expand, lambda c: [Q(c["Abig"])])
    add("rank[large]", u.rank, lambda c: [Q(c["Abig"])])
    add("qr_qua[large]", qs.qr_qua, lambda c: [Q(c["Abig"])])
    add("classical_qsvd[large]", lambda A: qs.classical_qsvd(A, 2), lambda c: [Q(c["Abig"])])
    add("quaternion_lu[large]", lu.quaternion_lu, lambda c: [Q(c["Abig"])])
    add("hessenbergize[large]", hb.hessenbergize, lambda c: [Q(c["Sqbig"])])
    add("NewtonSchulz.compute[large]", lambda A: s.NewtonSchulzPseudoinverse(max_iter=3, tol=0.0).compute(A), lambda c: [Q(c["Abig"])])
    add("tensor_unfold", lambda T: tn.tensor_unfold(T, 1), lambda c: [Q(c["T3"])])
    add("tensor_fold", lambda M, shp: tn.tensor_fold(M, 1, shp), lambda c: [tn.tensor_unfold(Q(c["T3"]), 1).copy(), tuple(c["T3"].shape[:3])])
    add("tensor_frobenius_norm", tn.tensor_frobenius_norm, lambda c: [Q(c["T3"])])
    add("tensor_entrywise_abs", tn.tensor_entrywise_abs, lambda c: [Q(c["T3"])])
    add("rgb_to_quat", ql.rgb_to_quat, lambda c: [np.ascontiguousarray(c["img"][..., 1:])])
    add("quat_to_rgb", ql.quat_to_rgb, lambda c: [c["img"].copy()])
    # colour values in [-0.25, 1.25] (mild ringing after a restoration step): the range where the documented clipping acts
    add("quat_to_rgb[values slightly outside 0..1]", ql.quat_to_rgb,
        lambda c: [(c["img"] / max(float(np.max(c["img"])), 1e-300)) * 1.5 - 0.25])
    add("split_quat_channels", ql.split_quat_channels, lambda c: [c["img"].copy()])
    add("stack_quat_channels", ql.stack_quat_channels, lambda c: [np.ascontiguousarray(c["img"][..., k]) for k in range(4)])
    add("apply_blur_fft", ql.apply_blur_fft, lambda c: [c["img"].copy(), c["psf"].copy()])
    add("qslst_restore_fft", lambda B, p: ql.qslst_restore_fft(B, p, 0.1), lambda c: [c["img"].copy(), c["psf"].copy()])
    add("qslst_restore_matrix", lambda B, Am: ql.qslst_restore_matrix(B, Am, 0.1),
        lambda c: [c["img"].copy(), np.eye(c["img"].shape[0] * c["img"].shape[1]) * 0.5])
    add("add_awgn_snr", lambda Qi: ql.add_awgn_snr(Qi, 20.0, rng=np.random.default_rng(5)), lambda c: [c["img"].copy()])
    add("psnr", ql.psnr, lambda c: [c["img"].copy(), c["img"][::-1].copy()])
    add("relative_error", ql.relative_error, lambda c: [c["img"].copy(), c["img"][::-1].copy()])
    add("_pad_psf", lambda p, shp: ql._pad_psf(p, shp), lambda c: [c["psf"].copy(), tuple(c["img"].shape[:2])])
    add("SparseQuaternionMatrix@dense", lambda A, B: A @ B, lambda c: [S(c["A"]), Q(c["B"])])
    add("SparseQuaternionMatrix.left_multiply", lambda B, A: B.left_multiply(A), lambda c: [S(c["B"]), Q(c["A"])])
    add("SparseQuaternionMatrix*scalar", lambda A: A * 2.5, lambda c: [S(c["A"])])

    def shared_pattern_csr(A):
        """The four planes as CSR matrices over ONE shared pattern (the union of the non-zero positions), i.e. with
        explicitly stored zeros where a component vanishes - the caller's own scipy objects."""
        from scipy import sparse as sp_
        A = A.copy()
        A[::2, :, 1] = 0.0          # components that vanish where others do not: stored zeros in the shared pattern
        A[:, ::2, 3] = 0.0
        mask = np.any(A != 0.0, axis=-1)
        rows, cols = np.nonzero(mask)
        return [sp_.csr_matrix((np.ascontiguousarray(A[rows, cols, c_]), (rows, cols)), shape=A.shape[:2]) for c_ in range(4)]
    add("SparseQuaternionMatrix(caller's CSR planes, shared pattern with stored zeros) @ dense",
        lambda a0, a1, a2, a3, B: u.SparseQuaternionMatrix(a0, a1, a2, a3, a0.shape) @ B,
        lambda c: shared_pattern_csr(c["A"]) + [Q(c["B"])])
    return P


# entry points that are documented / observed to draw from numpy's GLOBAL generator (reproducible functions of the
# global seed); every other entry point must neither depend on nor advance the global random state
RANDOM_PROBES = {"CGNE.compute(prec)", "Hybrid.compute", "RSP.compute", "RSP.compute(spd)", "pass_eff_qsvd", "power_iteration",
                 "power_iteration_nonhermitian", "rand_qsvd"}

_PROBE_CACHE = {}


def probes():
    if "p" not in _PROBE_CACHE:
        _PROBE_CACHE["p"] = _probes()
    return _PROBE_CACHE["p"]


N_PROBES = 132   # upper bound used by the generator; indices are taken modulo the real table length


@st.composite
def mutation_cases(draw, tier):
    m, k, n = draw(st.integers(2, 4)), draw(st.integers(2, 4)), draw(st.integers(1, 4))
    pat = st.sampled_from(["generic", "int", "sparse"])
    A = draw(gen.qarray(m, k, draw(pat)))[0]
    B = draw(gen.qarray(k, n, draw(pat)))[0]
    if not A.any():
        A[0, 0] = [1, 2, 0, -1]
    if not B.any():
        B[0, 0] = [0, 1, 1, 0]
    q = draw(st.integers(2, 5))
    Sq = draw(gen.qarray(q, q, "generic"))[0]
    H = gen.make_hermitian(draw(gen.qarray(q, q, "generic"))[0])
    # structured variants reach the special-case branches (identity reflectors, zero pivots, early exits)
    struct = draw(st.sampled_from(["dense", "dense", "zero_first_subcolumn", "block_diagonal", "diagonal", "zero_column",
                                   "already_reduced", "permutation", "nearly_hermitian"]))
    if struct == "nearly_hermitian" and q >= 2:
        # Hermitian up to a relative 1e-12 .. 1e-7 (assembled from rounded / single-precision data): accepted by the
        # tolerant Hermitian tests of the eigen / determinant routines, so "clean-up" code paths run
        H = H.copy()
        H[0, q - 1] = H[0, q - 1] * (1.0 + draw(st.sampled_from([1e-12, 1e-10, 1e-8, 1e-7])))
        H[1, 0, 2] += draw(st.sampled_from([1e-12, 1e-9, 1e-7])) * (abs(H[1, 0, 2]) + 1.0)
    if struct == "zero_first_subcolumn":
        H[1:, 0] = 0.0
        H[0, 1:] = 0.0
        Sq[2:, 0] = 0.0
        Sq[1, 0] = 0.0
    elif struct == "block_diagonal":
        c = draw(st.integers(1, q - 1))
        H[c:, :c] = 0.0
        H[:c, c:] = 0.0
        Sq[c:, :c] = 0.0
    elif struct == "diagonal":
        for i in range(q):
            for j in range(q):
                if i != j:
                    H[i, j] = 0.0
                    Sq[i, j] = 0.0
    elif struct == "zero_column":
        A[:, draw(st.integers(0, k - 1))] = 0.0
        Sq[:, draw(st.integers(0, q - 1))] = 0.0
    elif struct == "permutation":
        # signed permutation times basis units (cyclic shifts included): the QR sweep maps such a matrix onto itself, so
        # stagnation / exceptional-shift branches are reached
        Sq = draw(gen.exact_unitary(q))
        if draw(st.booleans()):
            Sq = np.roll(ref.qeye(q), 1, axis=0)
    elif struct == "already_reduced":
        for i in range(q):
            for j in range(q):
                if abs(i - j) > 1:
                    H[i, j] = 0.0
                if i > j + 1:
                    Sq[i, j] = 0.0
    Sys = draw(gen.qarray(q, q, "generic"))[0] / 4.0 + 3.0 * ref.qeye(q)
    b = draw(gen.qarray(q, 1, "generic"))[0]
    if not b.any():
        b[0, 0, 0] = 1.0
    Tall = A if m >= k else np.ascontiguousarray(np.swapaxes(A, 0, 1))
    T3 = draw(gen.qarray(2 * 3, 2, "generic"))[0].reshape(2, 3, 2, 4)
    ih, iw = draw(st.integers(2, 5)), draw(st.integers(2, 5))
    img = np.abs(draw(gen.qarray(ih, iw, "generic"))[0]) / 4.0
    img_kind = draw(st.sampled_from(["raw", "unit_range", "ringing", "ringing"]))
    if img_kind != "raw" and img.max() > 0:
        img = img / img.max()                                  # colour values in [0, 1]
        if img_kind == "ringing":
            img = img * 1.5 - 0.25                             # mild over- and undershoot, as after a deblurring step
    psf = np.array([[0.0, 0.125, 0.0], [0.125, 0.5, 0.125], [0.0, 0.125, 0.0]])
    if draw(st.booleans()):
        # any kernel shape, including even extents and kernels larger than the image (documented: "pad/crop")
        kh, kw = draw(st.integers(1, 7)), draw(st.integers(1, 7))
        psf = np.abs(draw(gen.qarray(kh, kw, "int"))[0][..., 0]) + np.abs(draw(gen.qarray(kh, kw, "sparse"))[0][..., 1])
        psf[kh // 2, kw // 2] += 1.0
        psf = psf / 16.0
    big = gen.long_qarray
    Abig = draw(big(*draw(st.sampled_from([(40, 30), (33, 33), (70, 20)])), "generic"))[0]
    Bbig = draw(big(Abig.shape[1], draw(st.sampled_from([2, 35])), "generic"))[0]
    Sqbig = draw(big(34, 34, "generic"))[0]
    return {"Abig": Abig, "Bbig": Bbig, "Sqbig": Sqbig, "probe": draw(st.integers(0, N_PROBES - 1)), "struct": struct, "layout": draw(st.sampled_from(["C", "F", "strided"])), "A": A, "B": B, "Sq": Sq, "H": H, "H2": H, "Sys": Sys, "b": b,
            "Tall": np.ascontiguousarray(Tall), "T3": T3, "img": img, "psf": psf, "seed": draw(gen.seeds())}


def _variant(case):
    """A different in-domain data set of the same shapes (Hermitian stays Hermitian, systems stay well conditioned)."""
    c = dict(case)
    c["A"] = 0.5 * case["A"][::-1].copy() + 0.25
    c["B"] = case["B"][:, ::-1].copy() * 0.75
    c["Sq"] = case["Sq"].copy() * 0.5 + 0.125
    n = case["H"].shape[0]
    c["H"] = case["H"] * 0.5 + ref.qeye(n)
    c["H2"] = c["H"]
    c["Sys"] = case["Sys"] + ref.qeye(case["Sys"].shape[0])
    c["b"] = case["b"] * 0.5 + 0.25
    c["Tall"] = 0.5 * case["Tall"][::-1].copy() + 0.25
    c["T3"] = case["T3"][::-1].copy() * 0.5
    c["img"] = case["img"][::-1].copy() * 0.5 + 0.125
    for k_ in ("Abig", "Bbig", "Sqbig"):
        c[k_] = 0.5 * case[k_][::-1].copy() + 0.25
    return c


def _relayout(a, lay):
    """Same values in a non-C-contiguous layout."""
    if not isinstance(a, np.ndarray) or a.ndim == 0 or a.size == 0:
        return a
    if lay == "F" and a.ndim >= 2:
        return np.asfortranarray(a)
    if a.ndim >= 2:
        big = np.zeros((2 * a.shape[0], 2 * a.shape[1]) + a.shape[2:], dtype=a.dtype)
        big[::2, ::2] = a
        return big[::2, ::2]
    big = np.zeros((2 * a.shape[0],), dtype=a.dtype)
    big[::2] = a
    return big[::2]


def _deviation(r1, r2):
    """Max relative deviation between two result structures (inf when the structure differs)."""
    import quaternion as _q

    def flat(o, acc):
        if isinstance(o, L.utils.SparseQuaternionMatrix):
            for pl in (o.real, o.i, o.j, o.k):
                acc.append(np.asarray(pl.toarray(), dtype=float).ravel())
        elif isinstance(o, np.ndarray):
            if o.dtype == np.quaternion:
                acc.append(np.asarray(_q.as_float_array(o), dtype=float).ravel())
            elif o.dtype.kind in "fiub":
                acc.append(np.asarray(o, dtype=float).ravel())
            elif o.dtype.kind == "c":
                acc.append(np.concatenate([o.real.ravel(), o.imag.ravel()]).astype(float))
            else:
                for v in o.ravel():
                    flat(v, acc)
        elif isinstance(o, (list, tuple)):
            acc.append(np.array([float(len(o))]))
            for v in o:
                flat(v, acc)
        elif isinstance(o, dict):
            for k in sorted(o, key=str):
                if k in TIMING_KEYS:
                    continue
                flat(o[k], acc)
        elif isinstance(o, (bool, np.bool_)):
            acc.append(np.array([float(o)]))
        elif isinstance(o, (int, float, np.integer, np.floating)):
            acc.append(np.array([float(o)]))
        elif isinstance(o, (complex, np.complexfloating)):
            acc.append(np.array([o.real, o.imag], dtype=float))
        elif hasattr(o, "w") and hasattr(o, "z"):
            acc.append(np.array([o.w, o.x, o.y, o.z], dtype=float))
        return acc
    a, b = flat(r1, []), flat(r2, [])
    if len(a) != len(b) or any(x.shape != y.shape for x, y in zip(a, b)):
        return float("inf")
    dev = 0.0
    # a component that consists of rounding noise only (e.g. the recorded asymmetry ||AX - (AX)^H|| ~ 1e-16 next to
    # residuals of size 100) has no stable digits: deviations are measured against at least 1e-10 of the largest
    # magnitude in the whole result
    glob = 0.0
    for x in a + b:
        f_ = np.isfinite(x)
        if f_.any():
            glob = max(glob, float(np.max(np.abs(x[f_]))))
    for x, y in zip(a, b):
        if x.size == 0:
            continue
        fin = np.isfinite(x) & np.isfinite(y)
        if not np.array_equal(np.isfinite(x), np.isfinite(y)):
            return float("inf")
        if fin.any():
            scale = max(float(np.max(np.abs(x[fin]))), float(np.max(np.abs(y[fin]))), 1e-10 * glob, 1e-300)
            dev = max(dev, float(np.max(np.abs(x[fin] - y[fin]))) / scale)
    return dev


def _hash_args(args):
    hs = []
    for a in args:
        if isinstance(a, (np.ndarray, L.utils.SparseQuaternionMatrix)) or (hasattr(a, "getformat") and hasattr(a, "tocoo")):
            hs.append(ahash(a))
        else:
            hs.append(None)
    return hs


def _poison_heap(args, byte):
    """Allocate, fill with one byte pattern and free a few blocks of the byte sizes of the array arguments (and of their
    transposes' row counts): numpy's small-block cache / malloc hand such blocks to the next np.empty of that size."""
    for a in args:
        if isinstance(a, np.ndarray) and a.size:
            blocks = []
            for _ in range(4):
                t = np.empty(a.shape, dtype=a.dtype)
                t.view(np.uint8).fill(byte)
                blocks.append(t)
            del blocks


def check_mutation(case):
    P = probes()
    name, fn, build = P[case["probe"] % len(P)]
    out = Out(tags=(name,))
    out.label(name, "struct=" + case.get("struct", "dense"))
    args = build(case)
    h0 = _hash_args(args)
    np.random.seed(case["seed"])
    rs0 = np.random.get_state()
    err0 = np.geterr()
    _poison_heap(args, 0x7F)      # freed blocks of the arguments' sizes hold one bit pattern now, another before the repetition:
    try:                          # a result built on uninitialised memory (np.empty) then differs between the two calls
        with contextlib.redirect_stdout(io.StringIO()):
            r1 = fn(*args)
    except Exception as e:  # noqa: BLE001  (in-domain rejection is C20's business, not C14's)
        out.label("raised:" + type(e).__name__)
        out.true(f"{name}:numpy floating-point error mode unchanged (also when raising)", np.geterr() == err0,
                 f"np.geterr() {err0} -> {np.geterr()}")
        np.seterr(**err0)
        out.true(f"{name}:arguments untouched (even when raising)", _hash_args(args) == h0, "argument modified before raising")
        return out
    out.true(f"{name}:numpy floating-point error mode unchanged", np.geterr() == err0, f"np.geterr() {err0} -> {np.geterr()}")
    np.seterr(**err0)
    if name not in RANDOM_PROBES:
        rs1 = np.random.get_state()
        out.true(f"{name}:does not draw from the global random generator (deterministic routine)",
                 rs0[2] == rs1[2] and np.array_equal(rs0[1], rs1[1]),
                 "the call advanced numpy's global random state: its result depends on hidden global state")
    c1 = canon(r1)       # taken NOW: a result that aliases state shared with later calls must not change afterwards
    out.true(f"{name}:caller's arrays bit-identical after the call", _hash_args(args) == h0,
             "an array argument was modified in place")
    args2 = build(case)
    np.random.seed(case["seed"])
    _poison_heap(args2, 0x55)
    with contextlib.redirect_stdout(io.StringIO()):
        ok, r2 = out.call(f"{name}:second call", fn, *args2)
    if ok:
        out.true(f"{name}:repeating the call repeats the result", c1 == canon(r2), "results differ bit-wise")
        out.true(f"{name}:a returned value is not changed by later calls", canon(r1) == c1,
                 "the value returned by the first call changed when the call was repeated (shared mutable state)")
    # a call with DIFFERENT arguments (fresh arrays) must not change what an earlier call returned: results that alias a
    # module-level workspace or a shared default survive a repetition with the same arguments, not this
    case2 = _variant(case)
    np.random.seed(case["seed"])
    with contextlib.redirect_stdout(io.StringIO()):
        oko, _ro = out.call(f"{name}:call with other arguments", fn, *build(case2))
    if oko:
        out.true(f"{name}:a returned value is not changed by a later call with other arguments", canon(r1) == c1,
                 "the value returned by the first call changed when the routine was called with different arguments")
    # a TWIN of the arguments with the same shapes and bit-identical norms (every dense array negated): what the routine
    # returns for it right after the original call must be what it returns for it after an unrelated call - a cache
    # keyed on cheap fingerprints (shape, norm, trace) would confuse the twin with the original
    def _twin(args_):
        return [(-a if isinstance(a, np.ndarray) and a.dtype.kind in "fV" or (isinstance(a, np.ndarray) and a.dtype == np.quaternion) else a)
                for a in args_]
    if any(isinstance(a, np.ndarray) for a in args):
        try:
            with contextlib.redirect_stdout(io.StringIO()):
                np.random.seed(case["seed"])
                fn(*build(case))
                np.random.seed(case["seed"])
                t1 = canon(fn(*_twin(build(case))))
                np.random.seed(case["seed"])
                fn(*build(case2))
                np.random.seed(case["seed"])
                t2 = canon(fn(*_twin(build(case))))
        except Exception:  # noqa: BLE001 - the negated arguments may be outside the routine's domain
            out.label("twin_rejected")
        else:
            out.true(f"{name}:result for a norm-identical twin does not depend on the preceding call", t1 == t2,
                     "f(-X) right after f(X) differs from f(-X) after an unrelated call")
            out.label("twin_checked")
        np.seterr(**err0)
    # same buffers, new contents: results must depend on the VALUE of the arguments, not on object identity
    args_new = build(case2)
    compatible = len(args_new) == len(args) and all(
        (isinstance(a, np.ndarray) and isinstance(b_, np.ndarray) and a.shape == b_.shape and a.dtype == b_.dtype)
        or (not isinstance(a, np.ndarray) and not isinstance(b_, np.ndarray) and not isinstance(a, L.utils.SparseQuaternionMatrix))
        for a, b_ in zip(args, args_new))
    # (a probe with scipy arguments is left out: their buffers are not overwritten here, so only part of the argument list would change)
    if compatible and any(isinstance(a, np.ndarray) for a in args) and not any(hasattr(a, "getformat") for a in args):
        for a, b_ in zip(args, args_new):
            if isinstance(a, np.ndarray):
                np.copyto(a, b_)
        np.random.seed(case["seed"])
        with contextlib.redirect_stdout(io.StringIO()):
            ok3, r3 = out.call(f"{name}:call on reused buffers", fn, *args)
        np.random.seed(case["seed"])
        with contextlib.redirect_stdout(io.StringIO()):
            ok4, r4 = out.call(f"{name}:call on fresh copies of the same values", fn, *build(case2))
        if ok3 and ok4:
            out.true(f"{name}:result depends on argument values, not on object identity", canon(r3) == canon(r4),
                     "overwriting the argument buffers in place and calling again differs from a call on fresh arrays")
            out.label("buffer_reuse_checked")
    # same values, different memory layout (Fortran order / strided views): the result may differ by summation
    # order only (stated tolerance 1e-6 relative to the result's magnitude), never structurally
    lay = case.get("layout", "C")
    if lay != "C":
        args_l = [_relayout(a, lay) for a in build(case)]
        if any(isinstance(a, np.ndarray) and not a.flags["C_CONTIGUOUS"] for a in args_l):
            h_l = _hash_args(args_l)
            np.random.seed(case["seed"])
            with contextlib.redirect_stdout(io.StringIO()):
                ok5, r5 = out.call(f"{name}:call on {lay}-layout arguments", fn, *args_l)
            out.true(f"{name}:caller's arrays bit-identical after the call ({lay}-layout arguments)",
                     _hash_args(args_l) == h_l, "a non-C-contiguous array argument was modified in place")
            if ok5 and ok:
                dev = _deviation(r2, r5)      # r2: fresh C-contiguous call (r1 may alias buffers overwritten above)
                out.le(f"{name}:result independent of the arguments' memory layout", dev, 1e-6,
                       f"layout {lay}: max relative deviation from the C-contiguous call (inf = structure differs)")
                out.label("layout_checked:" + lay)
    big = [a for a in args if isinstance(a, np.ndarray) and a.ndim >= 2 and min(a.shape[:2]) >= 2]
    out.nontrivial = bool(big) or any(isinstance(a, L.utils.SparseQuaternionMatrix) for a in args)
    return out


# ----------------------------------------------------------------------------
# import-style differential (package vs flat), two fresh subprocesses per case

OPS_ANY = ["rank", "null_right", "null_left", "spectral_norm", "ns", "qsvd_full", "qr", "rand_qsvd", "pass_eff_qsvd",
           "rsp_qr", "rsp_spd"]
OPS_SQUARE = ["det_dieudonne", "power_iteration", "power_iteration_nonhermitian", "hessenberg", "schur_unified", "schur_real", "lu"]
OPS_HERM = ["det_moore", "eig", "tridiag"]
OPS_SYS = ["qgmres_left_lu", "qgmres_none"]
OPS_TALL = ["hybrid_qr", "hybrid_seeded", "cgne_seeded", "rsp_seeded"]
LAZY_IMPORT_OPS = {"ns_sparse", "ns_sparse_fast", "qgmres_sparse", "qgmres_sparse_left_lu", "rank", "det_dieudonne", "det_moore", "null_right", "null_left", "spectral_norm", "power_iteration",
                   "power_iteration_nonhermitian", "qgmres_left_lu", "rsp_qr", "hybrid_qr", "random_unitary"}


def _hexarr(A):
    return {"hex": [float(v).hex() for v in np.asarray(A, dtype=float).ravel()], "shape": list(A.shape)}


@st.composite
def import_cases(draw, tier):
    jobs = []
    nops = draw(st.integers(4, 8))
    for _ in range(nops):
        grp = draw(st.sampled_from(["any", "any", "square", "herm", "sys", "tall", "gen", "sparse", "sparse"]))
        seed = draw(st.integers(0, 2 ** 31 - 1))
        if grp == "any":
            m, n = draw(st.integers(1, 4)), draw(st.integers(1, 4))
            A = draw(gen.qarray(m, n, "generic"))[0]
            if not A.any():
                A[0, 0, 1] = 1.0
            jobs.append({"op": draw(st.sampled_from(OPS_ANY)), "args": {"A": A}, "seed": seed})
        elif grp == "sparse":
            op = draw(st.sampled_from(["ns_sparse", "ns_sparse_fast", "qgmres_sparse", "qgmres_sparse_left_lu", "matmat_sparse_dense",
                                       "matmat_dense_sparse", "frobenius_sparse", "hermitian_sparse", "create_sparse"]))
            if op.startswith("qgmres"):
                n = draw(st.integers(1, 4))
                A = draw(gen.qarray(n, n, "sparse"))[0] / 4.0 + 3.0 * ref.qeye(n)
                b = draw(gen.qarray(n, 1, "generic"))[0]
                b[0, 0, 0] += 1.0
                jobs.append({"op": op, "args": {"A": A, "b": b}, "seed": seed})
            elif op.startswith("matmat"):
                m, k, n = draw(st.integers(1, 3)), draw(st.integers(1, 3)), draw(st.integers(1, 3))
                jobs.append({"op": op, "args": {"A": draw(gen.qarray(m, k, "sparse"))[0], "B": draw(gen.qarray(k, n, "sparse"))[0]},
                             "seed": seed})
            elif op == "create_sparse":
                jobs.append({"op": op, "args": {"m": draw(st.integers(1, 4)), "n": draw(st.integers(1, 4))}, "seed": seed})
            else:
                m, n = draw(st.integers(1, 4)), draw(st.integers(1, 4))
                A = draw(gen.qarray(m, n, "sparse"))[0]
                A[0, 0, 1] += 1.0
                jobs.append({"op": op, "args": {"A": A}, "seed": seed})
        elif grp == "square":
            n = draw(st.integers(2, 4))
            A = draw(gen.qarray(n, n, "generic"))[0] / 4.0 + 2.0 * ref.qeye(n)
            jobs.append({"op": draw(st.sampled_from(OPS_SQUARE)), "args": {"A": A}, "seed": seed})
        elif grp == "herm":
            n = draw(st.integers(2, 4))
            A = gen.make_hermitian(draw(gen.qarray(n, n, "generic"))[0])
            jobs.append({"op": draw(st.sampled_from(OPS_HERM)), "args": {"A": A}, "seed": seed})
        elif grp == "sys":
            n = draw(st.integers(1, 4))
            A = draw(gen.qarray(n, n, "generic"))[0] / 4.0 + 3.0 * ref.qeye(n)
            b = draw(gen.qarray(n, 1, "generic"))[0]
            b[0, 0, 0] += 1.0
            jobs.append({"op": draw(st.sampled_from(OPS_SYS)), "args": {"A": A, "b": b}, "seed": seed})
        elif grp == "tall":
            n = draw(st.integers(1, 3))
            m = n + draw(st.integers(0, 2))
            A = draw(gen.qarray(m, n, "generic"))[0] + np.pad(ref.qeye(n), ((0, m - n), (0, 0), (0, 0)))
            jobs.append({"op": draw(st.sampled_from(OPS_TALL)), "args": {"A": A}, "seed": seed})
        else:
            op = draw(st.sampled_from(["random_unitary", "create_test_matrix", "unfold"]))
            if op == "random_unitary":
                jobs.append({"op": op, "args": {"n": draw(st.integers(1, 4))}, "seed": seed})
            elif op == "create_test_matrix":
                m, n = draw(st.integers(1, 4)), draw(st.integers(1, 4))
                jobs.append({"op": op, "args": {"m": m, "n": n, "rank": draw(st.integers(1, min(m, n)))}, "seed": seed})
            else:
                T = draw(gen.qarray(6, 2, "generic"))[0].reshape(2, 3, 2, 4)
                jobs.append({"op": op, "args": {"T": T, "mode": draw(st.integers(0, 2))}, "seed": seed})
    return {"jobs": jobs}


def check_import(case):
    out = Out()
    jobs = []
    for j in case["jobs"]:
        a = {k: (_hexarr(v) if isinstance(v, np.ndarray) else v) for k, v in j["args"].items()}
        jobs.append({"op": j["op"], "args": a, "seed": int(j["seed"])})
        out.label("op=" + j["op"])
    tmp = tempfile.mkdtemp(prefix="qv_c14_")
    try:
        jf = os.path.join(tmp, "jobs.json")
        json.dump(jobs, open(jf, "w"))
        res = {}
        child = os.path.join(VERIF, "qv", "child.py")
        env = {k: v for k, v in os.environ.items() if k not in ("PYTHONPATH",)}
        env["PYTHONHASHSEED"] = "0"
        for style in ("package", "flat"):
            of = os.path.join(tmp, f"out_{style}.json")
            p = subprocess.run([sys.executable, "-I", child, style, REPO, jf, of], capture_output=True, text=True,
                               env=env, cwd=tmp, timeout=600)
            if p.returncode != 0 or not os.path.exists(of):
                out.true(f"import style {style}: library imports and runs", False,
                         f"exit {p.returncode}: {p.stderr.strip()[-300:]}")
                return out
            doc = json.load(open(of))
            if "error" in doc:
                out.true(f"import style {style}: modules come from the tree under test", False, doc["error"])
                return out
            res[style] = doc["results"]
        for a, b in zip(res["package"], res["flat"]):
            same = (a.get("digest") == b.get("digest")) and (a.get("exception") == b.get("exception"))
            out.true(f"{a['op']}:package import == flat import", same,
                     f"package -> {a.get('digest') or a.get('exception')}: {a.get('msg', '')[:80]} ; "
                     f"flat -> {b.get('digest') or b.get('exception')}: {b.get('msg', '')[:80]}")
    finally:
        shutil.rmtree(tmp, ignore_errors=True)
    out.nontrivial = any(j["op"] in LAZY_IMPORT_OPS for j in case["jobs"])
    out.sample = {"ops": [j["op"] for j in case["jobs"]]}
    return out


PROPERTY = Property(
    id="C14",
    title="Results depend only on configuration and arguments: no hidden state or mutation",
    rule=("histories: consecutive problems of different sizes on one reused object; mutation probes: an array argument of "
          "at least 2x2 (or a sparse argument); import differential: a job list that reaches a lazy intra-library import "
          "(rank, det, null space, spectral norm, left_lu, power iteration, sketch-and-project QR path)"),
    clauses=[
        Clause("histories_exhaustive", check_history, enumerate=enum_histories, budget={"quick": 0, "thorough": 0}),
        Clause("histories_stateful", check_history, machine=make_machine, budget={"quick": 60, "thorough": 600}, steps=8,
               min_per_shard=4, shrink=False),
        Clause("mutation_probes", check_mutation, strategy=mutation_cases, budget={"quick": 2400, "thorough": 24000}),
        Clause("import_style", check_import, strategy=import_cases, budget={"quick": 32, "thorough": 320}, min_per_shard=2,
               shrink=False),
    ],
    assumptions=[
        "randomized routines: the global numpy RNG is re-seeded by the harness with the same value before the reused and "
        "the fresh call; timing fields (iteration_times, total_time) are excluded from the comparison",
        "the two kernels documented as in-place (Hess_QR_ggivens, UtriangleQsparse) are not probed as entry points",
        "import differential: two fresh interpreters (python -I), package style with only <repo> on sys.path vs flat style "
        "with <repo>/quatica on sys.path",
    ],
    exhaustive_note=("histories_exhaustive: 19 solver configurations x every sequence of 1 and 2 calls from a pool of 4 "
                     "problems (quick: plus a 1/7 sample of the 64 length-3 sequences; thorough: all 84 sequences)"),
)
