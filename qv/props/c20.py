"""C20 - arguments outside an operation's domain are rejected loudly, never answered.

The guarantee is a TABLE: entry point x applicable out-of-domain argument class.  Every cell of
the table is declared once below (`cell(...)`): a *builder* that generates a member of the class
(shape, entries, option value ...) from a value source, and a *maker* that turns the generated
parameters into library objects plus the call.  Two value sources exist:

  HypSrc  - every choice is a Hypothesis draw (generated clauses, ONE CLAUSE PER CELL, 20/200 members),
  HashSrc - every choice is a SHA-256 of (cell name, member index, counter): a hash, not an RNG
            (exhaustive clause: every cell of the table x a fixed number of members).

Oracle per rejection cell (independent of the library: it only observes raise / no raise and
byte hashes): the call raises an `Exception` subclass, every argument's byte hash (and the
solver object's attributes, and numpy's global RNG state) is unchanged afterwards.
Oracle per in-domain cell: the call returns (no exception) on boundary arguments that the
documentation places inside the domain (1x1, 1xn, nx1, n=2, singleton tensor axes, 1x1 images,
rank 0).

Deliberately NOT claimed (no guard anchored, the docs promise nothing, or the call still answers
the mathematical question): unknown Schur variant/shift strings and unknown preconditioner names
(fall back to a default), Frobenius norm / Newton-Schulz on real arrays, PSF larger than the image
(documented crop), classical_qsvd with R > min(m,n), zero-pivot LU (C07), singular Q-GMRES systems (C04).
"""
import contextlib
import hashlib
import io
import re
import warnings
from types import SimpleNamespace

import numpy as np
from hypothesis import strategies as st
from hypothesis.extra import numpy as hnp

from .. import gen, ref
from ..core import Clause, Out, Property
from ..env import L
from ..lib import Q, S, ahash

# ----------------------------------------------------------------------------
# value sources


class HypSrc:
    """All choices are Hypothesis draws."""

    QPAT = ("generic", "generic", "int", "pure_imag", "sparse", "scaled", "axis")

    def __init__(self, draw):
        self.draw = draw

    def i(self, lo, hi):
        return self.draw(st.integers(lo, hi))

    def pick(self, seq):
        return self.draw(st.sampled_from(list(seq)))

    def r(self, *shape):
        if int(np.prod(shape)) == 0:
            return np.zeros(shape)
        return self.draw(hnp.arrays(np.float64, shape, elements=gen.dyadic(0, 0, 64), fill=st.nothing()))

    def q(self, m, n):
        if m == 0 or n == 0:
            return np.zeros((m, n, 4))
        return self.draw(gen.qmat(m, n, -3, 3, patterns=self.QPAT))


class HashSrc:
    """Deterministic choices from a hash of (key, counter) - used by the exhaustive clause."""

    def __init__(self, *key):
        self.key = repr(key)
        self.c = 0

    def _u(self):
        self.c += 1
        return int.from_bytes(hashlib.sha256(f"{self.key}|{self.c}".encode()).digest()[:8], "big")

    def i(self, lo, hi):
        return lo + self._u() % (hi - lo + 1)

    def pick(self, seq):
        seq = list(seq)
        return seq[self._u() % len(seq)]

    def r(self, *shape):
        n = int(np.prod(shape))
        return np.array([(self._u() % 129 - 64) / 16.0 for _ in range(n)], dtype=float).reshape(shape)

    def q(self, m, n):
        return self.r(m, n, 4)


# ----------------------------------------------------------------------------
# small helpers


@contextlib.contextmanager
def quiet():
    """The library prints (warnings, 'Scale factor', ...) - keep the worker's stdout clean."""
    with contextlib.redirect_stdout(io.StringIO()), warnings.catch_warnings(), np.errstate(all="ignore"):
        warnings.simplefilter("ignore")
        yield


def _fp(x):
    """Fingerprint of one argument: arrays / sparse matrices by bytes, solver objects by attributes."""
    if isinstance(x, (np.ndarray, list, tuple)) or isinstance(x, L.utils.SparseQuaternionMatrix):
        return ahash(x)
    if hasattr(x, "__dict__"):
        return ahash(repr(sorted((k, repr(v)) for k, v in vars(x).items())))
    return ahash(x)


def _rng_fp():
    s = np.random.get_state()
    return ahash([s[0], np.asarray(s[1]), int(s[2]), int(s[3]), float(s[4])])


def _dims_ne(src, hi=5):
    m = src.i(1, hi)
    n = src.i(1, hi - 1)
    return m, (n + 1 if n >= m else n)


def _dims_lt(src, hi=5):
    """(small, large) with small < large."""
    a = src.i(1, hi - 1)
    return a, src.i(a + 1, hi)


def _herm(G):
    return gen.make_hermitian(np.array(G, dtype=float))


def planes(A):
    return [np.ascontiguousarray(A[..., c]) for c in range(4)]


# ----------------------------------------------------------------------------
# the table

CELLS = {}
CLASSES = ("nonsquare", "nonhermitian", "orientation", "dtype", "too_small", "bad_option", "shape_pair")


def _slug(name):
    return re.sub(r"[^A-Za-z0-9]+", "_", name).strip("_")


def cell(name, cls, build, make, tags=None):
    """Register one cell of the table.  `name` = entry point (+ variant) as shown in call sites;
    key = file-system-safe clause name 'reject.<class>.<slug>'."""
    key = f"reject.{cls}.{_slug(name)}"
    assert key not in CELLS, key
    CELLS[key] = SimpleNamespace(key=key, name=name, cls=cls, build=build, make=make, tags=tags or (lambda p: ()))


# ---- class: non-square ------------------------------------------------------------------------


def b_nonsquare(src):
    kind = src.pick(["generic", "generic", "row", "col", "row_const"])
    if kind == "generic":
        m, n = _dims_ne(src)
        A = src.q(m, n)
    elif kind == "row":
        A = src.q(1, src.i(2, 5))
    elif kind == "col":
        A = src.q(src.i(2, 5), 1)
    else:  # 1 x n, every entry the same real constant (A and A^H broadcast to an all-equal n x n array)
        n = src.i(2, 5)
        A = np.zeros((1, n, 4))
        A[..., 0] = float(src.i(-3, 3))
    return {"A": A, "kind": kind}


def t_nonsquare(p):
    m, n = p["A"].shape[:2]
    return ("tall" if m > n else "wide", "vector" if min(m, n) == 1 else "matrix")


def _ns(name, fn, build=b_nonsquare, tags=t_nonsquare):
    def make(p):
        Aq = Q(p["A"])
        return [Aq], (lambda: fn(Aq, p))
    cell(name, "nonsquare", build, make, tags)


_ns("ishermitian", lambda A, p: L.utils.ishermitian(A))
for _d in ("Moore", "Dieudonné", "Dieudonne", "Study"):
    _ns(f"det({_d})", lambda A, p, d=_d: L.utils.det(A, d))
_ns("power_iteration", lambda A, p: L.utils.power_iteration(A, max_iterations=5))
_ns("power_iteration_nonhermitian", lambda A, p: L.utils.power_iteration_nonhermitian(A, max_iterations=5))
_ns("quaternion_to_complex_adjoint", lambda A, p: L.utils.quaternion_to_complex_adjoint(A))
_ns("quaternion_eigendecomposition", lambda A, p: L.eigen.quaternion_eigendecomposition(A))
_ns("quaternion_eigenvalues", lambda A, p: L.eigen.quaternion_eigenvalues(A))
_ns("quaternion_eigenvectors", lambda A, p: L.eigen.quaternion_eigenvectors(A))
_ns("tridiagonalize", lambda A, p: L.tridiag.tridiagonalize(A))
_ns("hessenbergize", lambda A, p: L.hessenberg.hessenbergize(A))


def b_nonsquare_schur(variants):
    def b(src):
        p = b_nonsquare(src)
        p["variant"] = src.pick(variants)
        return p
    return b


_ns("quaternion_schur", lambda A, p: L.schur.quaternion_schur(A, max_iter=3, shift=p["variant"]),
    b_nonsquare_schur(["wilkinson", "rayleigh", "double"]))
_ns("quaternion_schur_pure", lambda A, p: L.schur.quaternion_schur_pure(A, max_iter=3, shift_mode=p["variant"]),
    b_nonsquare_schur(["none", "rayleigh"]))
_ns("quaternion_schur_pure_implicit",
    lambda A, p: L.schur.quaternion_schur_pure_implicit(A, max_iter=3, shift_mode=p["variant"]),
    b_nonsquare_schur(["none", "rayleigh"]))
_ns("quaternion_schur_unified", lambda A, p: L.schur.quaternion_schur_unified(A, variant=p["variant"], max_iter=3),
    b_nonsquare_schur(["none", "rayleigh", "implicit", "aed", "ds"]))
_ns("quaternion_schur_experimental",
    lambda A, p: L.schur.quaternion_schur_experimental(A, variant=p["variant"], max_iter=3),
    b_nonsquare_schur(["aed_windowed", "francis_ds"]))


def b_nonsquare_gmres(src):
    p = b_nonsquare(src)
    p["b"] = src.q(p["A"].shape[0], 1)
    return p


for _prec in (None, "left_lu"):
    def _mk(p, prec=_prec):
        Aq, bq = Q(p["A"]), Q(p["b"])
        solver = L.solver.QGMRESSolver(tol=1e-8, preconditioner=prec)
        return [Aq, bq, solver], (lambda: solver.solve(Aq, bq))
    cell(f"QGMRESSolver.solve(preconditioner={_prec})", "nonsquare", b_nonsquare_gmres, _mk,
         lambda p, prec=_prec: t_nonsquare(p) + (f"prec={prec}",))

# ---- class: non-Hermitian by a margin ---------------------------------------------------------
# The routines accept |A - A^H| <= 1e-10 + 1e-5|A^H| entrywise (np.allclose) resp. eps*max|A| (ishermitian).
# Members have one entry pair whose defect is >= 1/16 with max|A_ij| <= 8.1, i.e. a RELATIVE margin >= 7e-3,
# three orders of magnitude above the loosest tolerance, also after the uniform scaling by 10^e.


def b_nonherm(nmin):
    def b(src):
        n = src.i(nmin, 4)
        kind = src.pick(["perturbed_hermitian", "perturbed_hermitian", "generic", "single_component", "single_component"])
        A = src.r(n, n, 4)
        if kind in ("perturbed_hermitian", "single_component"):
            A = _herm(A)
        i, j = src.i(0, n - 1), src.i(0, n - 1)
        d = src.r(4)
        if kind == "single_component":
            # the departure from Hermitian symmetry lives in ONE of the four components only (one entry, or a whole
            # symmetric / skew plane added to that component)
            c = src.i(1, 3) if i == j else src.i(0, 3)
            amp = float(np.max(np.abs(A))) or 1.0
            if src.pick([True, False]):
                A[i, j, c] += amp * src.pick([0.5, 1.0, -1.0, 2.0])
            else:
                Sp = src.r(n, n)
                Sp = (Sp + Sp.T) if c > 0 else (Sp - Sp.T)       # wrong symmetry for that component
                if not np.any(Sp):
                    Sp[i, j] = 1.0
                    if c > 0:
                        Sp[j, i] = 1.0
                    elif i != j:
                        Sp[j, i] = -1.0
                    else:
                        c, Sp[i, j] = 1, 1.0
                A[:, :, c] += Sp * (amp / (float(np.max(np.abs(Sp))) or 1.0))
            d = np.zeros(4)
            d[c] = amp                        # used by the margin guard below only (keeps the single-component form)
        if i == j:
            d[0] = 0.0
            if float(np.sum(d[1:] ** 2)) < 1.0 / 256:
                d[1] = 1.0
        elif float(np.sum(d ** 2)) < 1.0 / 256:
            d[0] = 1.0
        if kind == "perturbed_hermitian":
            A[i, j] += d
        if float(np.max(ref.modulus(A - ref.conjT(A)))) < 1.0 / 16:
            A[i, j] += d
            if float(np.max(ref.modulus(A - ref.conjT(A)))) < 1.0 / 16:
                A[0, 0] = np.array([0.0, 1.0, 0.0, 0.0])
        e = src.pick([0, 0, 0, -3, -2, 2, 3])
        return {"A": A * 10.0 ** e, "kind": kind, "scale_exp": e}
    return b


def hermitian_defect(A):
    """max_ij |A_ij - conj(A_ji)| / max_ij |A_ij|  (harness arithmetic)."""
    a = float(np.max(ref.modulus(A))) if A.size else 0.0
    return float(np.max(ref.modulus(A - ref.conjT(A)))) / a if a > 0 else 0.0


def _nh(name, fn, nmin=1):
    def make(p):
        Aq = Q(p["A"])
        return [Aq], (lambda: fn(Aq))
    cell(name, "nonhermitian", b_nonherm(nmin), make,
         lambda p: (f"n={'1' if p['A'].shape[0] == 1 else '>=2'}",))


_nh("quaternion_eigendecomposition", lambda A: L.eigen.quaternion_eigendecomposition(A))
_nh("quaternion_eigenvalues", lambda A: L.eigen.quaternion_eigenvalues(A))
_nh("quaternion_eigenvectors", lambda A: L.eigen.quaternion_eigenvectors(A))
_nh("tridiagonalize", lambda A: L.tridiag.tridiagonalize(A), nmin=2)
_nh("det(Moore)", lambda A: L.utils.det(A, "Moore"))

# ---- class: wrong orientation ------------------------------------------------------------------


def b_orient(wide):
    def b(src):
        a, c = _dims_lt(src)
        m, n = (a, c) if wide else (c, a)
        return {"A": src.q(m, n), "block": src.i(1, 4), "column_solver": src.pick(["qr", "spd"]),
                "prank": src.i(0, 2)}
    return b


def _mk_rsp(method):
    def make(p):
        Aq = Q(p["A"])
        sv = L.solver.RandomizedSketchProjectPseudoinverse(block_size=p["block"], max_iter=3, tol=1e-6,
                                                           test_sketch_size=2, column_solver=p["column_solver"])
        return [Aq, sv], (lambda: getattr(sv, method)(Aq))
    return make


cell("RSP.compute_column_variant|m<n", "orientation", b_orient(True), _mk_rsp("compute_column_variant"),
     lambda p: ("wide",))
cell("RSP.compute_row_variant|m>n", "orientation", b_orient(False), _mk_rsp("compute_row_variant"),
     lambda p: ("tall",))


def _mk_hybrid(p):
    Aq = Q(p["A"])
    sv = L.solver.HybridRSPNewtonSchulz(r=p["block"], p=2, T=2, max_iter=4, column_solver=p["column_solver"])
    return [Aq, sv], (lambda: sv.compute(Aq))


def _mk_cgne(p):
    Aq = Q(p["A"])
    sv = L.solver.CGNEQSolver(max_iter=3, preconditioner_rank=p["prank"])
    return [Aq, sv], (lambda: sv.compute(Aq))


cell("HybridRSPNewtonSchulz.compute|m<n", "orientation", b_orient(True), _mk_hybrid, lambda p: ("wide",))
cell("CGNEQSolver.compute|m<n", "orientation", b_orient(True), _mk_cgne, lambda p: ("wide",))

# ---- class: wrong dtype / storage / tensor order -------------------------------------------------


def b_dtype(kind, square=False, order3=False):
    def b(src):
        lo = 1 if kind == "sparse" else 0
        m = src.i(lo, 4)
        n = m if square else src.i(lo, 4)
        if order3:
            shape = (src.i(1, 3), src.i(1, 3), src.i(1, 3))
        else:
            shape = (m, n)
        if kind == "real":
            X = src.r(*shape)
        elif kind == "complex":
            X = src.r(*shape) + 1j * src.r(*shape)
        else:
            X = src.q(*shape)
        return {"X": X, "flag": src.i(0, 1), "R": src.i(1, 3), "by_keyword": src.pick([False, False, True])}
    return b


def _call1(f, X, p, *a, **kw):
    """Call f with X as its first parameter - positionally, or (one member in three) by the parameter's NAME: argument
    validation must not depend on the calling convention."""
    if p.get("by_keyword"):
        import inspect
        try:
            first = next(iter(inspect.signature(f).parameters))
        except (TypeError, ValueError, StopIteration):
            first = None
        if first is not None and not a:
            return f(**{first: X}, **kw)
    return f(X, *a, **kw)


def _arg(kind, X):
    return S(X) if kind == "sparse" else np.array(X)


def _dt(name, fn, kinds=("real", "complex", "sparse"), **kw):
    for kind in kinds:
        def make(p, kind=kind):
            X = _arg(kind, p["X"])
            return [X], (lambda: fn(X, p))
        cell(f"{name}|{kind}", "dtype", b_dtype(kind, **kw), make,
             lambda p, kind=kind: (kind, "empty" if _nelem_params(p["X"], kind) == 0 else "nonempty"))


def _nelem_params(X, kind):
    return int(np.prod(X.shape[:2])) if kind == "sparse" else int(X.size)


_dt("induced_matrix_norm_1", lambda X, p: _call1(L.utils.induced_matrix_norm_1, X, p))
_dt("induced_matrix_norm_inf", lambda X, p: _call1(L.utils.induced_matrix_norm_inf, X, p))
_dt("spectral_norm_2", lambda X, p: _call1(L.utils.spectral_norm_2, X, p))
_dt("matrix_norm(ord=1)", lambda X, p: L.utils.matrix_norm(X, 1))
_dt("matrix_norm(ord=2)", lambda X, p: L.utils.matrix_norm(X, 2))
_dt("matrix_norm(ord=np.inf)", lambda X, p: L.utils.matrix_norm(X, np.inf))
_dt("matrix_norm(ord='inf')", lambda X, p: L.utils.matrix_norm(X, "inf"))
_dt("real_expand", lambda X, p: _call1(L.utils.real_expand, X, p))
_dt("quaternion_to_complex_adjoint", lambda X, p: _call1(L.utils.quaternion_to_complex_adjoint, X, p), square=True)
_dt("quaternion_lu", lambda X, p: _call1(L.LU.quaternion_lu, X, p, return_p=bool(p["flag"])))
_dt("quaternion_triu", lambda X, p: _call1(L.LU.quaternion_triu, X, p, k=p["flag"]))
_dt("quaternion_tril", lambda X, p: _call1(L.LU.quaternion_tril, X, p, k=-p["flag"]))
_dt("quaternion_modulus", lambda X, p: _call1(L.LU.quaternion_modulus, X, p))
_dt("qr_qua", lambda X, p: L.qsvd.qr_qua(X))
_dt("classical_qsvd", lambda X, p: L.qsvd.classical_qsvd(X, p["R"]))
_dt("classical_qsvd_full", lambda X, p: L.qsvd.classical_qsvd_full(X))
_dt("tensor_unfold", lambda X, p: L.tensor.tensor_unfold(X, p["flag"]), kinds=("real", "complex"), order3=True)


def b_order(order):
    def b(src):
        shape = tuple(src.i(1, 3) for _ in range(order))
        return {"T": src.r(*shape, 4), "mode": src.i(0, 2)}
    return b


for _o in (2, 4):
    def _mk(p):
        T = Q(p["T"])
        return [T], (lambda: L.tensor.tensor_unfold(T, p["mode"]))
    cell(f"tensor_unfold|order{_o}", "dtype", b_order(_o), _mk, lambda p, o=_o: (f"order{o}",))

# ---- class: too small / empty -------------------------------------------------------------------


def b_small(n):
    def b(src):
        A = src.r(n, n, 4)
        if n == 1:
            A[0, 0, 1:] = 0.0      # a 1x1 HERMITIAN matrix: only the size is out of domain
        return {"A": A}
    return b


def _sm(name, n, fn):
    def make(p):
        Aq = Q(p["A"])
        return [Aq], (lambda: fn(Aq))
    cell(f"{name}|{n}x{n}", "too_small", b_small(n), make, lambda p: (f"{n}x{n}",))


_sm("tridiagonalize", 1, lambda A: L.tridiag.tridiagonalize(A))
_sm("tridiagonalize", 0, lambda A: L.tridiag.tridiagonalize(A))
_sm("power_iteration", 0, lambda A: L.utils.power_iteration(A))
_sm("power_iteration_nonhermitian", 0, lambda A: L.utils.power_iteration_nonhermitian(A))

# ---- class: unknown option value ----------------------------------------------------------------
# (values that compare equal to a supported value - 1.0, 2.0, True, 0.0 - are NOT in the lists)

BAD_ORD = ["nuc", "Fro", "f", "1", "2", "Inf", "", 0, 3, -1, -2, 1.5, float("-inf")]
BAD_DET = ["moore", "MOORE", "dieudonne", "Dieudonné ", "study", "", "Det", " Moore", None]
BAD_SIDE = ["Right", "LEFT", "both", "", "r", "l", "rigth", None, 0]
BAD_MODE = [3, -1, 4, -3, 7, "0", "1", "mode-1", None, 1.5]
BAD_BOUNDARY = ["reflect", "zero", "Periodic", "PERIODIC", "symmetric", "", "circular", None]
BAD_AXIS = ["y", "z", "X", "w", "", "i", "j", None]


def b_opt(values, shape_kind):
    def b(src):
        p = {"opt": src.pick(values)}
        if shape_kind == "any":
            p["A"] = src.q(src.i(1, 4), src.i(1, 4))
        elif shape_kind == "hermitian":
            n = src.i(1, 4)
            p["A"] = _herm(src.r(n, n, 4))
        elif shape_kind == "square":
            n = src.i(1, 4)
            p["A"] = src.q(n, n)
        elif shape_kind == "nonhermitian":
            p["A"] = b_nonherm(1)(src)["A"]
        elif shape_kind == "tensor":
            p["T"] = src.r(src.i(1, 3), src.i(1, 3), src.i(1, 3), 4)
        elif shape_kind == "image":
            H, W = src.i(1, 4), src.i(1, 4)
            p["B"] = src.r(H, W, 4)
            p["psf"] = np.abs(src.r(src.i(1, H), src.i(1, W))) + 1.0 / 16
            p["lam"] = src.i(0, 8) / 8.0
        return p
    return b


def _op(name, values, shape_kind, fn, key="A", tags=None):
    def make(p):
        X = Q(p[key])
        return [X], (lambda: fn(X, p["opt"]))
    cell(name, "bad_option", b_opt(values, shape_kind), make, tags or (lambda p: (f"opt={p['opt']!r}",)))


_op("matrix_norm|ord", BAD_ORD, "any", lambda A, o: L.utils.matrix_norm(A, o))
_op("det|type", BAD_DET, "hermitian", lambda A, o: L.utils.det(A, o))
_op("det|type=Study", ["Study"], "hermitian", lambda A, o: L.utils.det(A, o))
_op("quat_null_space|side", BAD_SIDE, "any", lambda A, o: L.utils.quat_null_space(A, side=o))
_op("quat_kernel|side", BAD_SIDE, "any", lambda A, o: L.utils.quat_kernel(A, side=o))
_op("quaternion_to_complex_adjoint|axis", BAD_AXIS, "square",
    lambda A, o: L.utils.quaternion_to_complex_adjoint(A, axis=o))
_op("power_iteration_nonhermitian|subfield_axis", BAD_AXIS, "nonhermitian",
    lambda A, o: L.utils.power_iteration_nonhermitian(A, max_iterations=5, subfield_axis=o))
_op("tensor_unfold|mode", BAD_MODE, "tensor", lambda T, o: L.tensor.tensor_unfold(T, o), key="T")


def _mk_fold_mode(p):
    I, J, K = p["T"].shape[:3]
    M = Q(p["T"].reshape(I, J * K, 4))
    return [M], (lambda: L.tensor.tensor_fold(M, p["opt"], (I, J, K)))


cell("tensor_fold|mode", "bad_option", b_opt(BAD_MODE, "tensor"), _mk_fold_mode, lambda p: (f"opt={p['opt']!r}",))


def _mk_boundary(which):
    def make(p):
        B, psf = np.array(p["B"]), np.array(p["psf"])
        if which == "blur":
            return [B, psf], (lambda: L.qslst.apply_blur_fft(B, psf, boundary=p["opt"]))
        return [B, psf], (lambda: L.qslst.qslst_restore_fft(B, psf, p["lam"], boundary=p["opt"]))
    return make


cell("apply_blur_fft|boundary", "bad_option", b_opt(BAD_BOUNDARY, "image"), _mk_boundary("blur"),
     lambda p: (f"opt={p['opt']!r}",))
cell("qslst_restore_fft|boundary", "bad_option", b_opt(BAD_BOUNDARY, "image"), _mk_boundary("restore"),
     lambda p: (f"opt={p['opt']!r}",))

# ---- class: shape-coupled argument pairs ---------------------------------------------------------


def b_contract(src):
    m, n = src.i(1, 3), src.i(1, 3)
    kind = src.pick(["extra_block_rows", "extra_block_cols", "extra_both", "transposed", "not_multiple_of_4",
                     "too_small"])
    r, c = 4 * m, 4 * n
    if kind == "extra_block_rows":
        r += 4 * src.i(1, 2)
    elif kind == "extra_block_cols":
        c += 4 * src.i(1, 2)
    elif kind == "extra_both":
        r, c = r + 4, c + 4
    elif kind == "transposed":
        if m == n:
            n = m + 1
        r, c = 4 * n, 4 * m
    elif kind == "not_multiple_of_4":
        r += src.i(1, 3)
        c += src.i(0, 3)
    else:
        r -= src.i(1, 4)
    return {"R": src.r(r, c), "m": m, "n": n, "kind": kind}


def _mk_contract(p):
    R = np.array(p["R"])
    return [R], (lambda: L.utils.real_contract(R, p["m"], p["n"]))


cell("real_contract|R vs (m,n)", "shape_pair", b_contract, _mk_contract, lambda p: (p["kind"],))


def _unfold_shape(shape, mode):
    I, J, K = shape
    return [(I, J * K), (J, I * K), (K, I * J)][mode]


def b_fold(mode):
    def b(src):
        shape = (src.i(1, 3), src.i(1, 3), src.i(1, 3))
        want = _unfold_shape(shape, mode)
        kind = src.pick(["transposed", "other_mode", "flat_row", "flat_col", "off_by_one"])
        if kind == "transposed":
            got = (want[1], want[0])
        elif kind == "other_mode":
            got = _unfold_shape(shape, (mode + src.i(1, 2)) % 3)
        elif kind == "flat_row":
            got = (1, want[0] * want[1])
        elif kind == "flat_col":
            got = (want[0] * want[1], 1)
        else:
            got = want
        if tuple(got) == tuple(want):
            kind = "off_by_one"
            got = (want[0] + 1, want[1]) if src.i(0, 1) else (want[0], want[1] + 1)
        same_size = got[0] * got[1] == want[0] * want[1]
        return {"M": src.r(got[0], got[1], 4), "shape": list(shape), "kind": kind, "same_size": bool(same_size)}
    return b


for _mode in (0, 1, 2):
    def _mk(p, mode=_mode):
        M = Q(p["M"])
        return [M], (lambda: L.tensor.tensor_fold(M, mode, tuple(p["shape"])))
    cell(f"tensor_fold(mode={_mode})|M vs shape", "shape_pair", b_fold(_mode), _mk,
         lambda p: (p["kind"], "same_size" if p["same_size"] else "different_size"))


def b_restore_matrix(src):
    H, W = src.i(1, 3), src.i(1, 3)
    N = H * W
    kind = src.pick(["rows+1", "cols+1", "both+1", "rows-1", "HxW"])
    a, c = {"rows+1": (N + 1, N), "cols+1": (N, N + 1), "both+1": (N + 1, N + 1), "rows-1": (N - 1, N),
            "HxW": (H, W)}[kind]
    if (a, c) == (N, N):
        a, c, kind = N + 1, N + 1, "both+1"
    return {"B": src.r(H, W, 4), "A": src.r(a, c), "lam": src.i(0, 8) / 8.0, "kind": kind}


def _mk_restore_matrix(p):
    B, A = np.array(p["B"]), np.array(p["A"])
    return [B, A], (lambda: L.qslst.qslst_restore_matrix(B, A, p["lam"]))


cell("qslst_restore_matrix|A vs H*W", "shape_pair", b_restore_matrix, _mk_restore_matrix, lambda p: (p["kind"],))


def b_deep(src):
    s, d = src.i(1, 3), src.i(1, 3)
    d0 = src.i(1, 4)
    if d0 == d:
        d0 = d + 1
    layers = [d0] + [src.i(1, 3) for _ in range(src.i(0, 1))] + [s]
    return {"X": src.q(s, d), "layers": layers}


def _mk_deep(p):
    Xq = Q(p["X"])
    sv = L.solver.DeepLinearNewtonSchulz(max_iter=1)
    layers = list(p["layers"])
    return [Xq, layers, sv], (lambda: sv.compute(Xq, layers))


cell("DeepLinearNewtonSchulz.compute|layers[0] vs input_dim", "shape_pair", b_deep, _mk_deep)


def b_householder(src):
    k, l = _dims_ne(src, 4)
    col = src.i(0, 1)
    a = src.r(k, 4)
    v = np.zeros(l)
    v[src.i(0, l - 1)] = 1.0
    return {"a": a, "v": v, "column": col}


def _mk_householder(fname):
    def make(p):
        a, v = Q(p["a"]), np.array(p["v"])
        if p["column"]:
            a, v = a.reshape(-1, 1), v.reshape(-1, 1)
        return [a, v], (lambda: getattr(L.tridiag, fname)(a, v))
    return make


cell("householder_vector|sizes", "shape_pair", b_householder, _mk_householder("householder_vector"))
cell("householder_matrix|sizes", "shape_pair", b_householder, _mk_householder("householder_matrix"))


def b_channels(good):
    def b(src):
        H, W = src.i(1, 3), src.i(1, 3)
        kind = src.pick(["channels", "channels", "channels", "ndim2", "ndim4"])
        if kind == "channels":
            # c = 1 is the member that numpy broadcasting would accept silently without the guard
            c = src.pick([x for x in (1, 1, 2, 3, 4, 5, 6) if x != good])
            X = src.r(H, W, c)
        elif kind == "ndim2":
            X = src.r(H, good)
        else:
            X = src.r(H, W, 1, good)
        return {"X": np.abs(X) / 4.0, "kind": kind if kind != "channels" else f"channels={X.shape[2]}"}
    return b


def _mk_rgb(fname):
    def make(p):
        X = np.array(p["X"])
        return [X], (lambda: getattr(L.qslst, fname)(X))
    return make


cell("rgb_to_quat|channels", "shape_pair", b_channels(3), _mk_rgb("rgb_to_quat"), lambda p: (p["kind"],))
cell("quat_to_rgb|channels", "shape_pair", b_channels(4), _mk_rgb("quat_to_rgb"), lambda p: (p["kind"],))


def b_few_channels(src):
    """An image with fewer than the four quaternion components (typically the RGB image handed over without
    rgb_to_quat).  More than four components are not claimed: the library answers them."""
    H, W = src.i(2, 4), src.i(2, 4)
    c = src.pick([3, 3, 1, 2])
    return {"X": np.abs(src.r(H, W, c)) / 4.0, "H": H, "W": W, "kind": f"channels={c}"}


_PSF3 = np.array([[0.0, 0.125, 0.0], [0.125, 0.5, 0.125], [0.0, 0.125, 0.0]])


def _mk_few(which):
    def make(p):
        X = np.array(p["X"])
        psf = _PSF3.copy()
        if which == "apply_blur_fft":
            return [X, psf], (lambda: L.qslst.apply_blur_fft(X, psf))
        if which == "qslst_restore_fft":
            return [X, psf], (lambda: L.qslst.qslst_restore_fft(X, psf, 0.1))
        if which == "qslst_restore_matrix":
            Am = np.eye(p["H"] * p["W"]) * 0.5
            return [X, Am], (lambda: L.qslst.qslst_restore_matrix(X, Am, 0.1))
        return [X], (lambda: L.qslst.split_quat_channels(X))
    return make


for _w in ("apply_blur_fft", "qslst_restore_fft", "qslst_restore_matrix", "split_quat_channels"):
    cell(f"{_w}|channels<4", "shape_pair", b_few_channels, _mk_few(_w), lambda p: (p["kind"],))


def b_bad_scalar(src):
    m, n = src.i(1, 4), src.i(1, 4)
    kind = src.pick(["np.complex128", "np.complex64", "complex", "str", "quaternion", "list"])
    return {"X": src.q(m, n), "kind": kind, "re": float(src.i(-3, 3)), "im": float(src.i(1, 3)), "left": src.pick([True, False])}


def _mk_bad_scalar(p):
    Sx = S(p["X"])
    kind = p["kind"]
    sc = {"np.complex128": np.complex128(complex(p["re"], p["im"])), "np.complex64": np.complex64(complex(p["re"], p["im"])),
          "complex": complex(p["re"], p["im"]), "str": "2", "quaternion": np.quaternion(p["re"], p["im"], 0.0, 0.0),
          "list": [p["re"]]}[kind]
    if p["left"] and kind not in ("np.complex128", "np.complex64", "quaternion", "list"):
        return [Sx], (lambda: sc * Sx)                 # __rmul__ (numpy scalars / lists on the left broadcast first)
    return [Sx], (lambda: Sx * sc)


# the multiplier of a sparse quaternion matrix must be a REAL scalar (a complex number is not a quaternion scalar here:
# it would be multiplied into the four real component planes)
cell("SparseQuaternionMatrix*scalar|non-real multiplier", "dtype", b_bad_scalar, _mk_bad_scalar, lambda p: (p["kind"],))


def _dd(src, n):
    """Strictly diagonally dominant n x n (non-singular, well conditioned)."""
    A = src.q(n, n)
    A = A / max(1.0, float(np.max(np.abs(A))))            # entries of modulus <= 2
    for i in range(n):
        A[i, i] = np.array([2.0 * n + 2.0, 0.0, 0.0, 0.0]) + A[i, i]
    return A


def b_rhs(src):
    n = src.i(2, 5)
    kind = src.pick(["rows=1", "rows=1", "fewer", "more", "zero"])
    if kind == "rows=1":
        r = 1
    elif kind == "fewer":
        r = src.i(1, n - 1)
    elif kind == "more":
        r = n + src.i(1, 2)
    else:
        r = src.pick([x for x in range(1, n + 3) if x != n])
    b = np.zeros((r, 1, 4)) if kind == "zero" else src.q(r, 1)
    return {"A": _dd(src, n), "b": b}


def t_rhs(p):
    n, r = p["A"].shape[0], p["b"].shape[0]
    t = ["rhs_rows=1" if r == 1 else ("rhs_rows<n" if r < n else "rhs_rows>n")]
    if not np.any(p["b"]):
        t.append("rhs_zero")
    return tuple(t)


for _prec in (None, "left_lu"):
    def _mk(p, prec=_prec):
        Aq, bq = Q(p["A"]), Q(p["b"])
        solver = L.solver.QGMRESSolver(tol=1e-8, preconditioner=prec)
        return [Aq, bq, solver], (lambda: solver.solve(Aq, bq))
    cell(f"QGMRESSolver.solve(preconditioner={_prec})|rhs rows", "shape_pair", b_rhs, _mk,
         lambda p, prec=_prec: t_rhs(p) + (f"prec={prec}",))


def b_utri(src):
    n = src.i(1, 4)
    r = src.i(1, 5)
    if r == n:
        r = n + 1
    Rm = src.r(n, n, 4)
    for i in range(n):
        for j in range(i):
            Rm[i, j] = 0.0
        Rm[i, i, 0] = 4.0 + abs(Rm[i, i, 0])
    return {"R": Rm, "b": src.r(r, 1, 4)}


def _mk_utri(p):
    Rp, bp = planes(p["R"]), planes(p["b"])
    return Rp + bp, (lambda: L.utils.UtriangleQsparse(*Rp, *bp))


cell("UtriangleQsparse|rhs rows", "shape_pair", b_utri, _mk_utri,
     lambda p: ("rhs_rows<n" if p["b"].shape[0] < p["R"].shape[0] else "rhs_rows>n",))

REJECT = dict(CELLS)

# ----------------------------------------------------------------------------
# in-domain boundary arguments: must NOT raise

IN_CELLS = {}


def incell(name, build, make):
    key = f"accept.{_slug(name)}"
    assert key not in IN_CELLS, key
    IN_CELLS[key] = SimpleNamespace(key=key, name=name, cls="in_domain", build=build, make=make,
                                    tags=lambda p: tuple(x for x in str(p.get("kind", "")).split(",") if x))


def b_shape(kinds, nonzero_cols=False):
    """Boundary shapes; 'zero' entries (rank 0) with probability 1/6 unless nonzero_cols."""
    def b(src):
        kind = src.pick(kinds)
        k = src.i(2, 4)
        m, n = {"1x1": (1, 1), "1xn": (1, k), "nx1": (k, 1), "2x2": (2, 2), "square": (k, k),
                "tall": (k + src.i(1, 2), k), "wide": (k, k + src.i(1, 2))}[kind]
        A = src.q(m, n)
        if nonzero_cols:
            for j in range(n):
                if not np.any(A[:, j]):
                    A[0, j, 0] = 1.0
        elif src.i(0, 5) == 0:
            A = np.zeros((m, n, 4))
            kind += ",rank0"
        return {"A": A, "kind": kind, "seed": src.i(0, 2 ** 31 - 1), "k": src.i(1, min(m, n)),
                "opt": src.i(0, 7)}
    return b


ANY = ("1x1", "1xn", "nx1", "2x2", "square", "tall", "wide")
SQ = ("1x1", "2x2", "square")
TALL = ("1x1", "nx1", "2x2", "square", "tall")
WIDE = ("1x1", "1xn", "2x2", "square", "wide")


def b_herm_in(nmin):
    def b(src):
        n = src.pick([nmin, nmin, 2, 3, 4])
        kind = src.pick(["generic", "generic", "zero", "identity", "real_diagonal"])
        if kind == "generic":
            A = _herm(src.r(n, n, 4))
        elif kind == "zero":
            A = np.zeros((n, n, 4))
        elif kind == "identity":
            A = ref.qeye(n) * float(src.i(1, 3))
        else:
            A = np.zeros((n, n, 4))
            for i in range(n):
                A[i, i, 0] = float(src.i(-3, 3))
        return {"A": A, "kind": f"n={n},{kind}", "seed": src.i(0, 2 ** 31 - 1)}
    return b


def _in(name, build, fn):
    def make(p):
        Aq = Q(p["A"])
        return [Aq], (lambda: fn(Aq, p))
    incell(name, build, make)


U_ORDS = [None, "fro", "F", 1, 2, float("inf"), "inf"]
_in("ishermitian", b_shape(SQ), lambda A, p: L.utils.ishermitian(A))
_in("ishermitian(hermitian)", b_herm_in(1), lambda A, p: L.utils.ishermitian(A))
_in("det(Dieudonné)", b_shape(SQ), lambda A, p: L.utils.det(A, "Dieudonné"))
_in("det(Dieudonne)", b_shape(SQ), lambda A, p: L.utils.det(A, "Dieudonne"))
_in("det(Moore)", b_herm_in(1), lambda A, p: L.utils.det(A, "Moore"))
_in("power_iteration", b_shape(SQ), lambda A, p: L.utils.power_iteration(A, max_iterations=20, return_eigenvalue=True))
_in("power_iteration(hermitian)", b_herm_in(1), lambda A, p: L.utils.power_iteration(A, max_iterations=20))
_in("power_iteration_nonhermitian", b_shape(SQ),
    lambda A, p: L.utils.power_iteration_nonhermitian(A, max_iterations=30, seed=p["seed"] % 1000))
_in("power_iteration_nonhermitian(hermitian)", b_herm_in(1),
    lambda A, p: L.utils.power_iteration_nonhermitian(A, max_iterations=30))
_in("quaternion_to_complex_adjoint", b_shape(SQ), lambda A, p: L.utils.quaternion_to_complex_adjoint(A, axis="x"))
_in("quaternion_eigendecomposition", b_herm_in(1), lambda A, p: L.eigen.quaternion_eigendecomposition(A))
_in("quaternion_eigenvalues", b_herm_in(1), lambda A, p: L.eigen.quaternion_eigenvalues(A))
_in("quaternion_eigenvectors", b_herm_in(1), lambda A, p: L.eigen.quaternion_eigenvectors(A))
_in("tridiagonalize", b_herm_in(2), lambda A, p: L.tridiag.tridiagonalize(A))
_in("hessenbergize", b_shape(SQ), lambda A, p: L.hessenberg.hessenbergize(A))
_in("quaternion_schur", b_shape(SQ),
    lambda A, p: L.schur.quaternion_schur(A, max_iter=4, shift=["wilkinson", "rayleigh", "double"][p["opt"] % 3]))
_in("quaternion_schur_pure", b_shape(SQ),
    lambda A, p: L.schur.quaternion_schur_pure(A, max_iter=4, shift_mode=["none", "rayleigh"][p["opt"] % 2]))
_in("quaternion_schur_pure_implicit", b_shape(SQ),
    lambda A, p: L.schur.quaternion_schur_pure_implicit(A, max_iter=4))
UNIFIED_VARIANTS = ["none", "rayleigh", "implicit", "aed", "ds"]
_in("quaternion_schur_unified", b_shape(SQ),
    lambda A, p: L.schur.quaternion_schur_unified(A, variant=UNIFIED_VARIANTS[p["opt"] % 5], max_iter=4))
_in("quaternion_schur_experimental", b_shape(SQ),
    lambda A, p: L.schur.quaternion_schur_experimental(A, variant=["aed_windowed", "francis_ds"][p["opt"] % 2],
                                                       max_iter=4))
_in("induced_matrix_norm_1", b_shape(ANY), lambda A, p: L.utils.induced_matrix_norm_1(A))
_in("induced_matrix_norm_inf", b_shape(ANY), lambda A, p: L.utils.induced_matrix_norm_inf(A))
_in("spectral_norm_2", b_shape(ANY), lambda A, p: L.utils.spectral_norm_2(A))
_in("matrix_norm", b_shape(ANY), lambda A, p: L.utils.matrix_norm(A, U_ORDS[p["opt"] % len(U_ORDS)]))
_in("real_expand", b_shape(ANY), lambda A, p: L.utils.real_expand(A))
_in("quaternion_lu", b_shape(("1x1", "1xn", "nx1"), nonzero_cols=True),
    lambda A, p: L.LU.quaternion_lu(A, return_p=bool(p["opt"] % 2)))
_in("quaternion_triu", b_shape(ANY), lambda A, p: L.LU.quaternion_triu(A, k=p["opt"] % 3 - 1))
_in("quaternion_tril", b_shape(ANY), lambda A, p: L.LU.quaternion_tril(A, k=p["opt"] % 3 - 1))
_in("quaternion_modulus", b_shape(ANY), lambda A, p: L.LU.quaternion_modulus(A))
_in("qr_qua", b_shape(ANY), lambda A, p: L.qsvd.qr_qua(A))
_in("classical_qsvd", b_shape(ANY), lambda A, p: L.qsvd.classical_qsvd(A, p["k"]))
_in("classical_qsvd_full", b_shape(ANY), lambda A, p: L.qsvd.classical_qsvd_full(A))
_in("quat_null_space(right)", b_shape(ANY), lambda A, p: L.utils.quat_null_space(A, side="right"))
_in("quat_null_space(left)", b_shape(ANY), lambda A, p: L.utils.quat_null_space(A, side="left"))
_in("quat_kernel", b_shape(ANY), lambda A, p: L.utils.quat_kernel(A, side=["right", "left"][p["opt"] % 2]))
_in("quat_null_right", b_shape(ANY), lambda A, p: L.utils.quat_null_right(A))
_in("quat_null_left", b_shape(ANY), lambda A, p: L.utils.quat_null_left(A))


def _in_solver(name, kinds, ctor, method="compute"):
    def make(p):
        Aq = Q(p["A"])
        sv = ctor(p)
        return [Aq], (lambda: getattr(sv, method)(Aq))
    incell(name, b_shape(kinds), make)


def _rsp(p):
    return L.solver.RandomizedSketchProjectPseudoinverse(block_size=p["k"], max_iter=3, test_sketch_size=2,
                                                         column_solver=["qr", "spd"][p["opt"] % 2])


_in_solver("RSP.compute_column_variant", TALL, _rsp, "compute_column_variant")
_in_solver("RSP.compute_row_variant", WIDE, _rsp, "compute_row_variant")
_in_solver("RSP.compute", ANY, _rsp)
_in_solver("HybridRSPNewtonSchulz.compute", TALL,
           lambda p: L.solver.HybridRSPNewtonSchulz(r=p["k"], p=2, T=2, max_iter=4,
                                                    column_solver=["qr", "spd"][p["opt"] % 2]))
_in_solver("CGNEQSolver.compute", TALL,
           lambda p: L.solver.CGNEQSolver(max_iter=3, preconditioner_rank=(p["opt"] % 2) * p["k"]))


def b_gmres_in(src):
    n = src.pick([1, 1, 2, 3, 4])
    kind = src.pick(["generic", "generic", "b=0"])
    b = np.zeros((n, 1, 4)) if kind == "b=0" else src.q(n, 1)
    return {"A": _dd(src, n), "b": b, "kind": f"n={n},{kind}"}


for _prec in (None, "left_lu"):
    def _mk(p, prec=_prec):
        Aq, bq = Q(p["A"]), Q(p["b"])
        solver = L.solver.QGMRESSolver(tol=1e-8, preconditioner=prec)
        return [Aq, bq], (lambda: solver.solve(Aq, bq))
    incell(f"QGMRESSolver.solve(preconditioner={_prec})", b_gmres_in, _mk)


def b_contract_in(src):
    m, n = src.pick([(1, 1), (1, 3), (3, 1), (2, 2)])
    return {"R": src.r(4 * m, 4 * n), "m": m, "n": n, "kind": f"{m}x{n}"}


incell("real_contract", b_contract_in,
       lambda p: ([np.array(p["R"])], (lambda: L.utils.real_contract(np.array(p["R"]), p["m"], p["n"]))))


def b_tensor_in(src):
    kind = src.pick(["1x1x1", "singleton_axis", "singleton_axis", "generic"])
    if kind == "1x1x1":
        shape = [1, 1, 1]
    elif kind == "generic":
        shape = [src.i(1, 3), src.i(1, 3), src.i(1, 3)]
    else:
        shape = [src.i(1, 3), src.i(1, 3), src.i(1, 3)]
        shape[src.i(0, 2)] = 1
        if src.i(0, 1):
            shape[src.i(0, 2)] = 1
    return {"T": src.r(*shape, 4), "kind": kind, "mode": src.i(0, 2)}


def _mk_unfold_in(p):
    T = Q(p["T"])
    return [T], (lambda: L.tensor.tensor_unfold(T, p["mode"]))


def _mk_fold_in(p):
    shape = tuple(p["T"].shape[:3])
    r, c = _unfold_shape(shape, p["mode"])
    M = Q(p["T"].reshape(r, c, 4))
    return [M], (lambda: L.tensor.tensor_fold(M, p["mode"], shape))


incell("tensor_unfold", b_tensor_in, _mk_unfold_in)
incell("tensor_fold", b_tensor_in, _mk_fold_in)


def b_image_in(src):
    kind = src.pick(["1x1", "1x1", "1xW", "Hx1", "HxW"])
    H, W = {"1x1": (1, 1), "1xW": (1, src.i(2, 4)), "Hx1": (src.i(2, 4), 1), "HxW": (src.i(2, 3), src.i(2, 3))}[kind]
    kh, kw = src.i(1, H), src.i(1, W)
    psf = np.abs(src.r(kh, kw)) + 1.0 / 16
    return {"B": np.abs(src.r(H, W, 4)) / 4.0, "psf": psf / psf.sum(), "lam": (1 + src.i(0, 7)) / 8.0,
            "A": src.r(H * W, H * W), "kind": f"{kind},psf={kh}x{kw}", "clip": src.i(0, 1)}


incell("rgb_to_quat", b_image_in, lambda p: ([p["B"]], (lambda: L.qslst.rgb_to_quat(np.array(p["B"][..., 1:])))))
incell("quat_to_rgb", b_image_in,
       lambda p: ([p["B"]], (lambda: L.qslst.quat_to_rgb(np.array(p["B"]), clip=bool(p["clip"])))))
incell("apply_blur_fft", b_image_in,
       lambda p: ([p["B"]],
                  (lambda: L.qslst.apply_blur_fft(np.array(p["B"]), np.array(p["psf"]), boundary="periodic"))))
incell("qslst_restore_fft", b_image_in,
       lambda p: ([p["B"]], (lambda: L.qslst.qslst_restore_fft(np.array(p["B"]), np.array(p["psf"]), p["lam"],
                                                                boundary="periodic"))))
incell("qslst_restore_matrix", b_image_in,
       lambda p: ([p["B"]], (lambda: L.qslst.qslst_restore_matrix(np.array(p["B"]), np.array(p["A"]), p["lam"]))))


def b_deep_in(src):
    s, d = src.pick([(1, 1), (1, 1), (2, 2), (3, 2), (2, 1)])
    hidden = [src.i(1, 2)] if src.i(0, 2) == 0 else []
    X = src.r(s, d, 4) / 4.0
    for i in range(min(s, d)):
        X[i, i, 0] += 4.0
    return {"X": X, "layers": [d] + hidden + [s], "kind": f"X={s}x{d},depth={1 + len(hidden)}"}


def _mk_deep_in(p):
    Xq = Q(p["X"])
    sv = L.solver.DeepLinearNewtonSchulz(max_iter=1)
    return [Xq], (lambda: sv.compute(Xq, list(p["layers"])))


incell("DeepLinearNewtonSchulz.compute", b_deep_in, _mk_deep_in)


def b_householder_in(src):
    k = src.pick([1, 1, 2, 3, 4])
    a = src.r(k, 4)
    kind = "generic"
    if src.i(0, 4) == 0:
        a = np.zeros((k, 4))
        kind = "a=0"
    v = np.zeros(k)
    v[src.i(0, k - 1)] = 1.0
    return {"a": a, "v": v, "column": src.i(0, 1), "kind": f"len={k},{kind}"}


def _mk_householder_1d(p):
    # householder_matrix is only exercised with 1-D vectors (the form the library itself and its tests use);
    # (k,1) column arrays make it raise TypeError inside the outer-product loop - not claimed either way.
    return _mk_householder("householder_matrix")(dict(p, column=0))


incell("householder_vector", b_householder_in, _mk_householder("householder_vector"))
incell("householder_matrix", b_householder_in, _mk_householder_1d)


def b_utri_in(src):
    n = src.pick([1, 1, 2, 3])
    p = b_utri(src)
    Rm = p["R"][:1, :1] if n == 1 else p["R"]
    return {"R": Rm, "b": src.r(Rm.shape[0], 1, 4), "kind": f"n={Rm.shape[0]}"}


incell("UtriangleQsparse", b_utri_in, _mk_utri)


def b_sparse_herm_product_in(src):
    """Conformable products that involve the conjugate transpose of a NON-SQUARE sparse matrix: S^H X (X with as many
    rows as S), Y S^H (Y with as many columns as S has), S^H S and S S^H - all inside the domain of the product."""
    k = src.i(1, 4)
    m, n = src.pick([(k, k + src.i(1, 3)), (k + src.i(1, 3), k), (1, k + 1), (k + 1, 1)])
    c = src.i(1, 3)
    return {"A": src.q(m, n), "B": src.q(m, c), "T": src.q(c, n), "kind": "tall" if m > n else "wide"}


def _mk_sparse_herm_product(p):
    def run():
        Sm = S(p["A"])
        SH = L.utils.quat_hermitian(Sm)
        r1 = L.utils.quat_matmat(SH, Q(p["B"]))          # (n x m)(m x c)
        r2 = L.utils.quat_matmat(Q(p["T"]), SH)          # (c x n)(n x m)
        r3 = SH @ Sm                                     # (n x m)(m x n)
        r4 = Sm @ SH                                     # (m x n)(n x m)
        return r1, r2, r3, r4
    return [p["A"], p["B"], p["T"]], run


incell("SparseQuaternionMatrix^H products (non-square)", b_sparse_herm_product_in, _mk_sparse_herm_product)

# ----------------------------------------------------------------------------
# checks


COMPONENT_KEYS = ("A", "T", "M", "a", "b", "B")      # (..., 4) component arrays: one entry = one quaternion / pixel


def _entries(c, p):
    """Number of entries (quaternions, pixels, reals) of the largest generated array argument."""
    best = 0
    for k, v in p.items():
        if not isinstance(v, np.ndarray):
            continue
        sparse_x = k == "X" and c.key.endswith("_sparse")
        if k in COMPONENT_KEYS or sparse_x or (k == "R" and v.ndim == 3):
            n = v.size // 4
        elif k == "X" and c.key.endswith("_channels"):
            n = int(np.prod(v.shape[:2]))
        else:
            n = v.size
        best = max(best, int(n))
    return best


def check_reject(case):
    c = REJECT[case["cell"]]
    p = case["p"]
    ctags = tuple(str(t) for t in c.tags(p))
    site = f"{c.name}[{c.cls}]"
    out = Out(tags=(c.cls,) + ctags)
    out.label(*[t for t in ctags if not t.startswith("opt=")])
    args, thunk = c.make(p)
    h0 = [_fp(a) for a in args]
    r0 = _rng_fp()
    raised, res = None, None
    try:
        with quiet():
            res = thunk()
    except Exception as e:  # noqa: BLE001 - any Exception subclass is a loud rejection
        raised = e
    out.true(f"{site}:raises", raised is not None,
             f"returned {type(res).__name__} for an argument of class {c.cls}{list(ctags)} instead of raising")
    h1 = [_fp(a) for a in args]
    out.true(f"{site}:arguments unchanged", h0 == h1,
             f"argument(s) {[i for i, (x, y) in enumerate(zip(h0, h1)) if x != y]} modified by a rejected call")
    out.true(f"{site}:global RNG state unchanged", _rng_fp() == r0,
             "numpy's global RNG state advanced by a rejected call")
    out.label("exc=" + (type(raised).__name__ if raised is not None else "NONE"))
    # non-trivial: an out-of-domain member that is otherwise well formed: finite, size >= 2
    finite = all(bool(np.all(np.isfinite(np.asarray(v, dtype=complex)))) for v in p.values()
                 if isinstance(v, np.ndarray))
    out.nontrivial = finite and _entries(c, p) >= 2
    out.sample = {"cell": site, "tags": list(ctags), "exception": type(raised).__name__ if raised else None}
    if c.cls == "nonhermitian":
        out.sample["relative_hermitian_defect"] = hermitian_defect(p["A"])
    return out


def check_accept(case):
    c = IN_CELLS[case["cell"]]
    p = case["p"]
    ctags = tuple(str(t) for t in c.tags(p))
    out = Out(tags=("in_domain",) + ctags)
    out.label(*ctags)
    args, thunk = c.make(p)
    np.random.seed(int(p.get("seed", 0)) % (2 ** 32))

    def run():
        with quiet():
            return thunk()
    out.call(f"{c.name}[in_domain]:accepts boundary argument", run)
    return out


def check_table(case):
    return check_reject(case) if case["cell"] in REJECT else check_accept(case)


# ----------------------------------------------------------------------------
# clauses: one exhaustive walk over the whole table + one generated clause PER CELL
# (20 / 200 Hypothesis-generated members of the cell's argument class)

PER_CELL = {"quick": 20, "thorough": 200}


def _cell_strategy(c):
    def strat(tier):
        @st.composite
        def s(draw):
            return {"cell": c.key, "p": c.build(HypSrc(draw))}
        return s()
    return strat


def enum_table(tier):
    k = 3 if tier == "quick" else 12
    cases = []
    for table in (REJECT, IN_CELLS):
        for key, c in table.items():
            for i in range(k):
                cases.append({"cell": key, "p": c.build(HashSrc(key, i))})
    return cases


def _clauses():
    cl = [Clause("table_exhaustive", check_table, enumerate=enum_table, budget={"quick": 0, "thorough": 0})]
    for key, c in REJECT.items():
        cl.append(Clause(key, check_reject, strategy=_cell_strategy(c), budget=dict(PER_CELL), min_per_shard=20,
                         doc=f"{c.name}: argument class {c.cls}"))
    for key, c in IN_CELLS.items():
        cl.append(Clause(key, check_accept, strategy=_cell_strategy(c), budget=dict(PER_CELL), min_per_shard=20,
                         doc=f"{c.name}: in-domain boundary arguments"))
    return cl


PROPERTY = Property(
    id="C20",
    title="Arguments outside an operation's domain are rejected loudly, never answered",
    rule=("rejection clauses: the generated argument is an out-of-domain member that is otherwise well formed - "
          "every array finite and the principal argument has at least 2 entries (1x1 / empty members are generated "
          "but not counted); in-domain boundary cases are never counted. Distinct = distinct input digest."),
    clauses=_clauses(),
    assumptions=[
        "any Exception subclass counts as a loud rejection (ValueError, NotImplementedError, AssertionError, "
        "AttributeError/TypeError for foreign containers); the type is recorded as a label",
        "'before modifying anything' is observed as: byte hashes of every argument, the attributes of the solver "
        "object and numpy's global RNG state are identical before and after the rejected call",
        "non-Hermitian members have a relative defect >= 7e-3, far above the routines' acceptance tolerances "
        "(1e-10 + 1e-5|a| and eps*max|a|)",
        "python runs without -O (qslst guards are assert statements)",
        "not claimed: unknown Schur variant/shift and preconditioner strings, Frobenius norm / Newton-Schulz on real "
        "arrays, PSF larger than the image, classical_qsvd with R > min(m,n), zero-pivot LU (C07), singular or "
        "ill-conditioned Q-GMRES systems (C04)",
    ],
    exhaustive_note=(f"table_exhaustive walks every cell of the table ({len(REJECT)} rejection cells = entry point x "
                     f"out-of-domain class, {len(IN_CELLS)} in-domain boundary cells) with 3 (quick) / 12 (thorough) "
                     "hash-derived members per cell; the per-cell clauses reject.<class>.<entry point> / "
                     "accept.<entry point> add 20 / 200 Hypothesis-generated members per cell"),
)
