"""C10 - every Schur variant preserves the unitary similarity A = Q T Q^H."""
import numpy as np
from hypothesis import strategies as st

from .. import gen, ref
from ..core import Clause, Out, Property
from ..env import L
from ..lib import F, Q, ahash, case_flag, quiet

U_ = ref.U
C1 = 10.0
C2 = 1e3

VARIANTS = (
    [("quaternion_schur", {"shift": s}) for s in ("rayleigh", "wilkinson", "double")]
    + [("quaternion_schur_pure", {"shift_mode": s}) for s in ("none", "rayleigh")]
    + [("quaternion_schur_pure_implicit", {})]
    + [("quaternion_schur_unified", {"variant": v}) for v in ("none", "rayleigh", "implicit", "aed", "ds")]
    + [("quaternion_schur_unified", {"variant": "aed", "aed_window": w}) for w in (2, 3)]
    + [("quaternion_schur_unified", {"variant": "ds", "precompute_shifts": False})]
    + [("quaternion_schur_unified", {"variant": "aed", "precompute_shifts": False, "aed_factor": 1.0})]
    + [("quaternion_schur_unified", {"variant": "ds", "power_shift_steps": 1})]
    + [("quaternion_schur_unified", {"variant": "aed", "power_shift_steps": 12})]
    + [("quaternion_schur_experimental", {"variant": v, "window": w}) for v in ("aed_windowed", "francis_ds") for w in (2, 12)]
)


@st.composite
def schur_cases(draw, tier):
    n = draw(st.integers(1, 6 if tier == "quick" else 7))
    kind = draw(st.sampled_from(["generic", "generic", "hermitian", "triangular", "normal", "lowrank", "int",
                                 "lower_triangular", "hessenberg", "banded", "sparse_units", "block_diag", "unitary", "unitary",
                                 "badly_scaled", "nearly_hermitian"]))
    if kind == "nearly_hermitian":
        # Hermitian up to a relative asymmetry of 1e-12 .. 1e-6 (assembled from rounded data): still a general matrix,
        # so the similarity has to hold for it as it stands - a "Hermitian" shortcut behind a loose test drops the rest
        lam = draw(st.lists(st.sampled_from([-3.0, -2.0, -1.0, -0.5, 0.5, 1.0, 2.0, 3.0, 4.0]), min_size=n, max_size=n))
        A = draw(gen.hermitian_with_spectrum(n, lam))
        E = draw(gen.qarray(n, n, "generic"))[0] / 4.0
        A = A + E * 10.0 ** draw(st.integers(-12, -6))
    elif kind == "generic":
        A = draw(gen.qarray(n, n, "generic"))[0] / 4.0
    elif kind == "int":
        A = draw(gen.qarray(n, n, "int"))[0]
    elif kind == "hermitian":
        lam = draw(st.lists(st.sampled_from([-3.0, -2.0, -1.0, -0.5, 0.0, 0.5, 1.0, 2.0, 3.0, 4.0]), min_size=n, max_size=n))
        A = draw(gen.hermitian_with_spectrum(n, lam))
    elif kind == "triangular":
        A = draw(gen.qarray(n, n, "generic"))[0] / 4.0
        A = A.copy()
        for i in range(n):
            for j in range(i):
                A[i, j] = 0.0
    elif kind in ("lower_triangular", "hessenberg", "banded", "block_diag"):
        # exact zero patterns (already reduced / decoupled inputs reach the reductions' and iterations' special cases);
        # the non-zero entries stay genuinely quaternionic (integer or dyadic)
        A = draw(gen.qarray(n, n, draw(st.sampled_from(["generic", "int", "units"]))))[0].copy()
        if kind != "lower_triangular" and draw(st.booleans()):
            A = A / 4.0
        lo = {"lower_triangular": n, "hessenberg": 1, "banded": draw(st.integers(1, 2)), "block_diag": n}[kind]
        up = {"lower_triangular": 0, "hessenberg": n, "banded": draw(st.integers(0, 2)), "block_diag": n}[kind]
        for i in range(n):
            for j in range(n):
                if i - j > lo or j - i > up:
                    A[i, j] = 0.0
        if kind == "block_diag" and n >= 2:
            c = draw(st.integers(1, n - 1))
            A[c:, :c] = 0.0
            if draw(st.booleans()):
                A[:c, c:] = 0.0
    elif kind == "badly_scaled":
        # A = D G D^-1 with D = diag(d^0, d^1, ...): rows and columns of very different norms (what balancing is for)
        G = draw(gen.qarray(n, n, "generic"))[0] / 4.0
        d = draw(st.sampled_from([2.0, 8.0, 10.0, 64.0]))
        f = d ** np.arange(n, dtype=float)
        A = G * (f[:, None] / f[None, :])[..., None]
    elif kind == "unitary":
        # unitary matrices (all eigenvalues on one circle) are stationary points of the unshifted QR iteration: dense
        # unitary, signed permutation times basis units, reflections; one common scale
        uk = draw(st.sampled_from(["dense", "exact", "reflection"]))
        if uk == "dense":
            A = draw(gen.unitary(n))
        elif uk == "exact":
            A = draw(gen.exact_unitary(n))
        else:
            A = gen.householder(draw(gen.qarray(n, 1, "int"))[0][:, 0, :] + np.array([1.0, 0, 0, 0]))
        A = A * draw(st.sampled_from([1.0, 1.0, 0.5, 4.0]))
    elif kind == "sparse_units":
        A = draw(gen.qarray(n, n, draw(st.sampled_from(["sparse", "units"]))))[0]
    elif kind == "normal":
        Uf = draw(gen.unitary(n))
        D = np.zeros((n, n, 4))
        for i in range(n):
            D[i, i] = draw(gen.unit_q()) * draw(st.sampled_from([0.5, 1.0, 2.0, 3.0]))
        A = ref.qmm(ref.qmm(Uf, D), ref.conjT(Uf))
    else:
        r = draw(st.integers(0, max(0, n - 1)))
        if r == 0:
            A = np.zeros((n, n, 4))
        else:
            A = ref.qmm(draw(gen.qarray(n, r, "generic"))[0], draw(gen.qarray(r, n, "generic"))[0]) / 16.0
    e = draw(st.sampled_from([0, 0, 0, -3, 3]))
    vi = draw(st.integers(0, len(VARIANTS) - 1))
    return {"A": np.ascontiguousarray(A * 10.0 ** e), "kind": kind, "variant": vi,
            "max_iter": draw(st.sampled_from([0, 1, 2, 5, 20, 100, 300])),
            "tol": draw(st.sampled_from([1e-12, 1e-10, 1e-8, 1e-6]))}


@st.composite
def larger_schur_cases(draw, tier):
    """Orders beyond the default chase window (12) and past the blocking size 32, with small iteration budgets (the
    similarity must hold after ANY number of sweeps)."""
    n = draw(st.sampled_from([13, 14, 17, 20, 33] if tier == "quick" else [13, 14, 17, 20, 24, 33, 40, 65]))
    kind = draw(st.sampled_from(["generic", "generic", "hermitian", "hessenberg", "banded", "int"]))
    A, _ = draw(gen.long_qarray(n, n, "int" if kind == "int" else "generic"))
    if kind != "int":
        A = A / 4.0
    idx = np.arange(n)
    if kind == "hermitian":
        A = gen.make_hermitian(A)
    elif kind == "hessenberg":
        A = A * ((idx[:, None] - idx[None, :]) <= 1)[..., None]
    elif kind == "banded":
        A = A * (np.abs(idx[:, None] - idx[None, :]) <= draw(st.sampled_from([1, 2, 5])))[..., None]
    return {"A": np.ascontiguousarray(A), "kind": kind, "variant": draw(st.integers(0, len(VARIANTS) - 1)),
            "max_iter": draw(st.sampled_from([0, 1, 2, 5, 12] if n >= 33 else [0, 1, 2, 5, 20, 60])),
            "tol": draw(st.sampled_from([1e-12, 1e-10, 1e-8]))}


def variant_tag(fn, kw):
    v = kw.get("variant", kw.get("shift", kw.get("shift_mode", "")))
    t = f"{fn}[{v}]"
    if kw.get("aed_window"):
        t += "[aed_window]"
    return t


def check_schur(case):
    A = case["A"]
    n = A.shape[0]
    fn, kw = VARIANTS[case["variant"]]
    vt = variant_tag(fn, kw)
    tags = [vt, fn]
    if n >= 3:
        tags.append("n>=3")
    out = Out(tags=tuple(tags))
    out.label(vt, case["kind"], f"max_iter={case['max_iter']}")
    tol, max_iter = case["tol"], case["max_iter"]
    Aq = Q(A)
    h0 = ahash(Aq)
    f = getattr(L.schur, fn)
    site = f"{fn}"
    if case_flag(A, 6):
        kw = dict(kw, verbose=True)          # the verbose path returns the same decomposition
        out.label("verbose=True")
    ok, r = out.call(site, quiet, f, Aq, max_iter=max_iter, tol=tol, return_diagnostics=True, **kw)
    if not ok:
        return out
    out.true(site + ":argument unchanged", ahash(Aq) == h0, "input modified")
    try:
        Qf, Tf, diag = F(r[0]), F(r[1]), r[2]
    except Exception as e:  # noqa: BLE001
        out.true(site + ":returns (Q, T, diag)", False, f"{type(e).__name__}: {e}")
        return out
    if not out.true(site + ":shapes", Qf.shape == (n, n, 4) and Tf.shape == (n, n, 4), f"{Qf.shape} {Tf.shape}"):
        return out
    if not out.true(site + ":finite", np.all(np.isfinite(Qf)) and np.all(np.isfinite(Tf)), "NaN/inf factor"):
        return out
    conv = bool(diag.get("converged"))
    iters = int(diag.get("iterations_run") or 0)
    if not conv:
        iters = max(iters, len(diag.get("iterations") or []), max_iter)
    iters = min(iters, max_iter) if max_iter > 0 else iters
    sweeps = iters
    an = ref.fro(A)
    tau = tol
    if fn == "quaternion_schur_unified" and kw.get("variant") in ("aed", "ds"):
        af = kw.get("aed_factor")
        tau = tol * (af if af is not None else 3.0)
    out.label("converged" if conv else "not_converged")
    out.le(site + ":Q unitary", ref.unitarity_defect(Qf), C2 * n * U_ * (1 + sweeps))
    rec = ref.qmm(ref.qmm(Qf, Tf), ref.conjT(Qf))
    out.le(site + ":Q T Q^H = A", ref.fro(rec - A),
           C1 * n * (1 + sweeps) * tau * max(1.0, an) + C2 * n * U_ * (n + sweeps) * an + 1e-300,
           f"||A||={an:.3e} sweeps={sweeps} tol={tol:g} converged={conv}")
    if conv:
        sub = 0.0
        fill = 0.0
        for i in range(n):
            for j in range(i):
                v = float(ref.modulus(Tf[i, j]))
                if i == j + 1:
                    sub = max(sub, v)
                else:
                    fill = max(fill, v)
        floor = C2 * n * U_ * (n + sweeps) * an
        tb = 30.0 * tau * max(1.0, an) + floor + 1e-300
        out.le(site + ":converged implies negligible first sub-diagonal", sub, tb,
               f"max |T_(i+1,i)|, ||A||={an:.3e} n={n} sweeps={sweeps}")
        out.le(site + ":converged implies nothing below the first sub-diagonal", fill, tb,
               f"max |T_ij| (i>j+1), ||A||={an:.3e} n={n} sweeps={sweeps}")
        if case["kind"] == "hermitian":
            simerr = C1 * n * (1 + sweeps) * tau * max(1.0, an) + floor
            off = 0.0
            for i in range(n):
                for j in range(n):
                    if i != j:
                        off = max(off, float(ref.modulus(Tf[i, j])))
            diag_ok = out.le(site + ":Hermitian input gives diagonal T", off, 30.0 * tau * max(1.0, an) + 2 * simerr + 1e-300)
            d = np.array([Tf[i, i, 0] for i in range(n)])
            im = max(float(np.sqrt(np.sum(Tf[i, i, 1:] ** 2))) for i in range(n))
            out.le(site + ":Hermitian input gives real diagonal", im, 10.0 * tau * max(1.0, an) + 2 * simerr + 1e-300)
            lam = ref.eigvalsh(A)
            # only a diagonal T has "its diagonal = the spectrum"; a non-diagonal T is already reported above (one root
            # cause, one report)
            if diag_ok:
                out.le(site + ":Hermitian input: diag T carries the eigenvalues", float(np.max(np.abs(np.sort(d) - np.sort(lam)))),
                       10.0 * n * tau * max(1.0, an) + 2 * simerr + 1e-300)
    if case_flag(A, 4, salt=3):
        # the default call form (no diagnostics): a (Q, T) pair that satisfies the same similarity
        kw2 = {k_: v_ for k_, v_ in kw.items() if k_ != "verbose"}
        site2 = site + "[return_diagnostics=False]"
        ok2, r2 = out.call(site2, quiet, f, Aq, max_iter=max_iter, tol=tol, **kw2)
        if ok2 and out.true(site2 + ":returns (Q, T)", isinstance(r2, tuple) and len(r2) == 2, f"{type(r2).__name__} of length {len(r2) if isinstance(r2, tuple) else '-'}"):
            Q2, T2 = F(r2[0]), F(r2[1])
            if out.true(site2 + ":shapes", Q2.shape == (n, n, 4) and T2.shape == (n, n, 4), f"{Q2.shape} {T2.shape}"):
                sw2 = max(sweeps, max_iter if not conv else sweeps)
                out.le(site2 + ":Q unitary", ref.unitarity_defect(Q2), C2 * n * U_ * (1 + max_iter))
                out.le(site2 + ":Q T Q^H = A", ref.fro(ref.qmm(ref.qmm(Q2, T2), ref.conjT(Q2)) - A),
                       C1 * n * (1 + max_iter) * tau * max(1.0, an) + C2 * n * U_ * (n + max_iter) * an + 1e-300,
                       f"||A||={an:.3e} tol={tol:g}")
        out.label("also_without_diagnostics")
    out.nontrivial = n >= 3 and sweeps >= 1
    out.sample = {"n": n, "variant": vt, "kind": case["kind"], "converged": conv, "sweeps": sweeps}
    return out


PROPERTY = Property(
    id="C10",
    title="Every Schur variant preserves the unitary similarity A = Q T Q^H",
    rule="n >= 3 and the run performed >= 1 sweep",
    clauses=[Clause("schur", check_schur, strategy=schur_cases, budget={"quick": 1600, "thorough": 20000}, min_per_shard=8,
                    shrink=False),
             Clause("schur_larger_orders", check_schur, strategy=larger_schur_cases, budget={"quick": 64, "thorough": 640},
                    min_per_shard=4, shrink=False)],
    assumptions=[
        "similarity tolerance = 10 n (1+sweeps) tau max(1,||A||) + 1e3 n u (n+sweeps) ||A||, tau the variant's effective "
        "deflation threshold (tol, or aed_factor*tol)",
        "triangularity is only demanded when the diagnostics report convergence",
        "input-class tags = (function, variant/option) and n >= 3, from the call configuration alone",
    ],
)
