"""C11 - rank, null spaces and determinants agree with the singular/eigen structure.

Oracles (none of them calls the library):
  * rank          exact RATIONAL rank of the harness's real embedding chi_r(A) divided by 4 (integer Gaussian
                  elimination on the binary64 entries, no rounding at all) for the default-tolerance clauses;
                  constructed spectrum for the explicit-tolerance clauses
  * null spaces   harness Hamilton products (A N, A^H L) and sigma_min of the returned basis via LAPACK on chi_c
  * Dieudonne     product of reference singular values (LAPACK on chi_c), perturbation bound
                  prod(sigma_i + delta) - prod(sigma_i)
  * Moore         product of reference eigenvalues (LAPACK eigvalsh on chi_c), same perturbation bound

C11 deliberately does NOT claim orthonormality of null-space bases (known Q-SVD finding C05): only shape,
A N ~ 0 and linear independence over H.
"""
import math
from functools import reduce

import numpy as np
from hypothesis import strategies as st

from .. import gen, ref
from ..core import Clause, Out, Property
from ..env import L
from ..lib import F, Q, ahash

U_ = ref.U
EPS = 2.0 * U_                    # np.finfo(float).eps, the constant of the documented default threshold

# ---- tolerance constants (derivations next to their use) -------------------------------------------
C_NULL = 5000.0     # ||A n_j|| <= (dropped sigma + C_NULL*max(m,n)*u*||A||_F) * ||n_j||
IND_MIN = 1e-6      # sigma_min(N) >= IND_MIN * sigma_max(N): "linearly independent over H" (design value)
C_SV = 1000.0       # absolute accuracy of one singular value: C_SV * n * u * sigma_1 (library AND reference)
C_EV = 1000.0       # absolute accuracy of one Hermitian eigenvalue: C_EV * n * u * rho
GAP = 1.5           # explicit tolerances are only placed in spectral gaps of ratio >= GAP
DOMAIN_REL = 1e-6   # non-zero singular values are >= DOMAIN_REL * sigma_1 (documented threshold unambiguous)


# ====================================================================================================
# exact helpers (harness side, no library)


def _grid_ints(X):
    """Exact integers M and exponent q with X == M / 2**q entrywise (binary64 values are dyadic rationals)."""
    flat = [float(v) for v in np.asarray(X, dtype=float).ravel()]
    q = 0
    ratios = []
    for v in flat:
        num, den = v.as_integer_ratio()
        ratios.append((num, den))
        if den.bit_length() - 1 > q:
            q = den.bit_length() - 1
    ints = [num * ((1 << q) // den) for num, den in ratios]
    return ints, q


def _int_rank(M):
    """Rank of an integer matrix (list of lists) by exact cross-multiplication elimination."""
    M = [row[:] for row in M]
    rows = len(M)
    cols = len(M[0]) if rows else 0
    r = 0
    for c in range(cols):
        piv = None
        for i in range(r, rows):
            if M[i][c] != 0:
                piv = i
                break
        if piv is None:
            continue
        M[r], M[piv] = M[piv], M[r]
        prow = M[r]
        p = prow[c]
        for i in range(r + 1, rows):
            f = M[i][c]
            if f:
                row = [p * a - f * b for a, b in zip(M[i], prow)]
                g = reduce(math.gcd, row)
                if g > 1:
                    row = [a // g for a in row]
                M[i] = row
        r += 1
        if r == rows:
            break
    return r


def exact_rank_H(A):
    """(rank over H, remainder) from the EXACT rational rank of chi_r(A); remainder must be 0."""
    A = np.asarray(A, dtype=float)
    m, n, _ = A.shape
    if m == 0 or n == 0 or not np.any(A):
        return 0, 0
    R = ref.chi_r(A)      # pure data movement (every position of a 4x4 block holds +-one component)
    ints, _q = _grid_ints(R)
    cols = R.shape[1]
    M = [ints[i * cols:(i + 1) * cols] for i in range(R.shape[0])]
    rr = _int_rank(M)
    return rr // 4, rr % 4


def _grid_exp(X, qmax=80):
    X = np.asarray(X, dtype=float)
    for q in range(qmax + 1):
        Y = X * 2.0 ** q
        if np.all(Y == np.rint(Y)):
            return q
    return None


def exact_qmm(A, B):
    """Float product plus a PROOF flag that it is exact: every partial product lies on the grid
    2^-(qa+qb) and every partial sum is bounded by S = 4k*max|A|*max|B|; if S*2^(qa+qb) < 2^52 all
    partial sums (in any order, with or without FMA) are representable, so no rounding happens."""
    C = ref.qmm(A, B)
    qa, qb = _grid_exp(A), _grid_exp(B)
    if qa is None or qb is None:
        return C, False
    k = A.shape[1]
    S = 4.0 * max(1, k) * float(np.max(np.abs(A), initial=0.0)) * float(np.max(np.abs(B), initial=0.0))
    return C, bool(S * 2.0 ** (qa + qb) < 2.0 ** 52)


def noise_ratio(A, r):
    """Harness-side (numpy on OUR embedding) trailing singular value of chi_r(A) relative to the documented
    default threshold eps*max(m,n)*sigma_1.  Used ONLY to compute an input-class tag."""
    m, n, _ = A.shape
    if r >= min(m, n):
        return 0.0
    try:
        s = np.linalg.svd(ref.chi_r(A), full_matrices=True)[1]
    except np.linalg.LinAlgError:
        return float("nan")
    if s[0] == 0:
        return 0.0
    return float(s[4 * r] / (EPS * max(m, n) * s[0]))


def perturbed_product_bound(vals, delta):
    """prod(|v_i| + delta) - prod(|v_i|) = sum_{k>=1} delta^k e_{n-k}(|v|), evaluated without cancellation.
    It bounds |prod(v_i + d_i) - prod(v_i)| for any |d_i| <= delta."""
    poly = [1.0]                      # coefficients in x of prod(|v_i| + x), ascending
    for v in vals:
        a = abs(float(v))
        new = [0.0] * (len(poly) + 1)
        for i, c in enumerate(poly):
            new[i] += c * a
            new[i + 1] += c
        poly = new
    return float(sum(c * delta ** k for k, c in enumerate(poly) if k >= 1))


ZERO_REL = 1e-10    # a row/column/entry counts as (numerically) zero below ZERO_REL * the largest one -
#                     the same relative level at which the null-space routines cut singular values


def zero_lines(A):
    """(# numerically zero rows, # numerically zero columns) of A."""
    if A.size == 0:
        return 0, 0
    cn = np.sqrt(np.sum(A * A, axis=(0, 2)))
    rn = np.sqrt(np.sum(A * A, axis=(1, 2)))
    big = float(max(np.max(cn), np.max(rn)))
    if big == 0.0:
        return A.shape[0], A.shape[1]
    return int(np.sum(rn <= ZERO_REL * big)), int(np.sum(cn <= ZERO_REL * big))


def side_tags(A, side, nullity):
    """Input-class tags of one null-space side (computed from the input and the oracle rank only)."""
    tags = [f"side={side}"]
    if nullity >= 2:
        tags.append("nullity>=2")
    zr, zc = zero_lines(A)
    if (zc if side == "right" else zr) >= 1:
        tags.append("zero_line")          # a (numerically) zero column (right) / row (left)
    mod = ref.modulus(A)
    if mod.size and np.any(mod <= ZERO_REL * float(np.max(mod))):
        tags.append("has_zero_entry")
    return tuple(tags)


# ====================================================================================================
# shared sub-checks


def lib_rank(out, site, Aq, tags=(), **kw):
    ok, rk = out.call(site, L.utils.rank, Aq, tags=tags, **kw)
    if not ok:
        return None
    if not out.true(site + ":returns int", isinstance(rk, (int, np.integer)) and not isinstance(rk, bool),
                    f"returned {type(rk).__name__}", tags=tags):
        return None
    return int(rk)


def check_null(out, A, r_eff, rtol, drop_max, pre="", extra_tags=()):
    """Null-space clauses for both sides.  r_eff = oracle rank at the (documented) relative cut rtol;
    drop_max = largest singular value the cut legitimately treats as zero (0 for exact/default cases)."""
    u = L.utils
    m, n, _ = A.shape
    Aq = Q(A)
    h0 = ahash(Aq)
    kw = {} if rtol is None else {"rtol": float(rtol)}
    anorm = ref.fro(A)
    floor = C_NULL * max(m, n) * U_ * anorm
    for side, dim, M in (("right", n, A), ("left", m, ref.conjT(A))):
        nullity = dim - r_eff
        tags = side_tags(A, side, nullity) + tuple(extra_tags)
        site = f"{pre}quat_null_space({side})"
        ok, N = out.call(site, u.quat_null_space, Aq, side=side, tags=tags, **kw)
        if not ok:
            continue
        if not out.true(site + ":type", isinstance(N, np.ndarray) and N.dtype == np.quaternion and N.ndim == 2,
                        f"returned {type(N).__name__}", tags=tags):
            continue
        Nf = F(N).reshape(N.shape + (4,))
        # wrappers agree with quat_null_space (same LAPACK call, so bit-for-bit)
        wname = "quat_null_right" if side == "right" else "quat_null_left"
        okw, W = out.call(f"{pre}{wname}", getattr(u, wname), Aq, tags=tags, **kw)
        if okw:
            out.equal_bits(f"{pre}{wname}:equals quat_null_space", F(W).reshape(np.shape(W) + (4,)), Nf, tags=tags)
        okk, K = out.call(f"{pre}quat_kernel({side})", u.quat_kernel, Aq, side=side, tags=tags, **kw)
        if okk:
            out.equal_bits(f"{pre}quat_kernel({side}):equals quat_null_space", F(K).reshape(np.shape(K) + (4,)), Nf,
                           tags=tags)
        if not out.true(site + ":shape", Nf.shape == (dim, nullity, 4),
                        f"basis shape {Nf.shape[:2]} != ({dim}, {dim}-{r_eff})", tags=tags):
            continue
        if nullity == 0:
            continue
        if not out.true(site + ":finite", bool(np.all(np.isfinite(Nf))), "non-finite basis", tags=tags):
            continue
        coln = np.sqrt(np.sum(Nf * Nf, axis=(0, 2)))
        if not out.true(site + ":columns independent over H", bool(np.all(coln > 0.0)), "zero column in basis",
                        tags=tags):
            continue
        R = ref.qmm(M, Nf)
        resn = np.sqrt(np.sum(R * R, axis=(0, 2)))
        # each column: ||A n|| <= (largest legitimately dropped sigma + backward error of the SVD) * ||n||
        excess = max(0.0, float(np.max(resn / coln)) - drop_max)
        out.le(site + ":maps to zero", excess, floor,
               f"max_j ||A n_j||/||n_j|| = {float(np.max(resn / coln)):.3e} exceeds the largest legitimately dropped "
               f"sigma {drop_max:.3e}; ||A||_F={anorm:.3e}", tags=tags)
        sv = ref.svals(Nf)
        smin_rel = float(sv[-1] / sv[0]) if sv[0] > 0 else 0.0
        imsg = f"sigma_min/sigma_max of returned basis = {smin_rel:.3e} ({nullity} columns)"
        if "nullity>=2" in tags and "has_zero_entry" in tags:
            # class in which the contracted real singular vectors are observed to be H-dependent (reported
            # finding): judged, but kept out of the error/bound statistics of the healthy class
            out.true(site + ":columns independent over H", smin_rel >= IND_MIN, imsg, tags=tags, value=smin_rel)
        else:
            # value/bound = IND_MIN / (sigma_min/sigma_max)  ->  tracked ratio small when well independent
            out.le(site + ":columns independent over H", IND_MIN, smin_rel if smin_rel > 0 else 0.0, imsg, tags=tags)
        if nullity >= 2:
            out.label(f"nullity>=2:{side}")
    out.true(f"{pre}argument unchanged", ahash(Aq) == h0, "input modified by null-space routines")


# ====================================================================================================
# clause 1: exactly representable inputs, default tolerance (oracle = exact rational rank)


@st.composite
def dyadic_reflector(draw, n):
    """Exactly unitary, exactly representable reflector I - 2uu^H/|u|^2 with |u|^2 in {4, 8}
    (components of u in {0,+-1}) -> entries are multiples of 1/4."""
    cnt = draw(st.sampled_from([4, 8] if n >= 2 else [4]))
    pos = draw(st.permutations(list(range(4 * n))))[:cnt]
    sg = draw(st.lists(st.sampled_from([1.0, -1.0]), min_size=cnt, max_size=cnt))
    u = np.zeros(4 * n)
    for p, s in zip(pos, sg):
        u[p] = s
    return gen.householder(u.reshape(n, 4))


@st.composite
def exact_dense_unitary(draw, n, max_reflectors=2):
    Qm = draw(gen.exact_unitary(n))
    for _ in range(draw(st.integers(0, max_reflectors))):
        Qm = ref.qmm(draw(dyadic_reflector(n)), Qm)
    return Qm


@st.composite
def exact_invertible(draw, n):
    """(exact unitary) x diag(d), d in {1/2, 3/4, 1, 3/2, 2}: exactly invertible, cond <= 4."""
    Um = draw(exact_dense_unitary(n, 1))
    d = draw(st.lists(st.sampled_from([0.5, 0.75, 1.0, 1.5, 2.0]), min_size=n, max_size=n))
    return ref.scale_cols(Um, np.array(d))


EXACT_PATTERNS = ("generic", "int", "pure_imag", "axis", "sparse", "unit", "zero")


@st.composite
def exact_cases(draw, tier):
    hi = 6 if tier == "quick" else 7
    m = draw(st.integers(1, hi))
    n = draw(st.integers(1, hi))
    k = min(m, n)
    kind = draw(st.sampled_from(["udv", "udv", "monomial", "monomial", "bc", "bc", "pattern", "pattern", "few"]))
    r_built = -1
    rchoices = list(range(1, k + 1)) * 3 + [0] + ([k - 1] * 2 if k >= 2 else []) + ([k - 2] * 2 if k >= 3 else [])
    if kind in ("udv", "monomial"):
        r = draw(st.sampled_from(rchoices))
        s, _ = draw(gen.spectrum(r, kinds=("distinct", "repeated", "allequal")))
        sp = np.concatenate([s, np.zeros(k - r)])
        if kind == "udv":
            Um = draw(exact_dense_unitary(m))
            Vm = draw(exact_dense_unitary(n))
        else:       # signed permutations x basis units, at most one dense reflector on one side
            refl = draw(st.sampled_from(["none", "none", "left", "right"]))
            Um = draw(exact_dense_unitary(m, 1 if refl == "left" else 0))
            Vm = draw(exact_dense_unitary(n, 1 if refl == "right" else 0))
        A = ref.qmm(ref.qmm(Um, ref.diag_q(sp, m, n)), ref.conjT(Vm))
        r_built = r
    elif kind == "bc":
        r = draw(st.sampled_from(rchoices))
        if r == 0:
            A = np.zeros((m, n, 4))
        else:
            pats = ("generic", "int", "pure_imag", "axis", "sparse")
            B = draw(gen.qmat(m, r, patterns=pats))
            C = draw(gen.qmat(r, n, patterns=pats))
            A = ref.qmm(B, C)
    elif kind == "pattern":
        A = draw(gen.qmat(m, n, patterns=EXACT_PATTERNS)).copy()
        mod = draw(st.sampled_from(["plain", "dup_row", "dup_col", "zero_col", "zero_row", "two"]))
        if mod in ("dup_row", "two") and m >= 2:
            i, j = draw(st.integers(0, m - 1)), draw(st.integers(0, m - 1))
            A[i] = A[j]
        if mod in ("dup_col", "two") and n >= 2:
            i, j = draw(st.integers(0, n - 1)), draw(st.integers(0, n - 1))
            A[:, i] = A[:, j]
        if mod == "zero_col":
            A[:, draw(st.integers(0, n - 1))] = 0.0
        if mod == "zero_row":
            A[draw(st.integers(0, m - 1))] = 0.0
    else:  # "few": a few non-zero entries (many zero rows/columns, nullity >= 2 on both sides)
        A = np.zeros((m, n, 4))
        for _ in range(draw(st.integers(1, 3))):
            i, j = draw(st.integers(0, m - 1)), draw(st.integers(0, n - 1))
            A[i, j] = draw(st.lists(st.integers(-2, 2), min_size=4, max_size=4))
    P = draw(exact_invertible(m))
    Qr = draw(exact_invertible(n))
    return {"A": np.ascontiguousarray(A), "P": P, "Q": Qr, "kind": kind, "r_built": r_built}


@st.composite
def long_exact_cases(draw, tier):
    """A = B C with small-integer factors, one long dimension (crossing the blocking sizes) against <= 4: exact rank
    from the integer oracle; also plain long integer / sparse patterns."""
    Lg, sh = draw(gen.long_dim(cap=257 if tier == "quick" else 520)), draw(st.integers(1, 4))
    if draw(st.integers(0, 3)):
        r = draw(st.integers(0, sh))
        if r == 0:
            A = np.zeros((Lg, sh, 4))
        else:
            B, _ = draw(gen.long_qarray(Lg, r, "int"))
            C = draw(gen.qmat(r, sh, patterns=("int",)))
            A = ref.qmm(B, C)
        kind = "long:bc"
    else:
        A, pat = draw(gen.long_qarray(Lg, sh, draw(st.sampled_from(["int", "sparse"]))))
        kind = pat
    if draw(st.booleans()):
        A = np.ascontiguousarray(ref.conjT(A))
    return {"A": np.ascontiguousarray(A), "P": None, "Q": None, "kind": kind, "r_built": -1}


def check_exact(case):
    out = Out()
    A, P, Qr = case["A"], case["P"], case["Q"]
    m, n, _ = A.shape
    k = min(m, n)
    out.label("kind=" + case["kind"], "tall" if m > n else ("wide" if m < n else "square"))
    r, rem = exact_rank_H(A)
    if rem != 0:              # impossible mathematically; would be a harness bug - never blame the library
        out.label("ORACLE_rank_not_multiple_of_4")
        return out
    if case["r_built"] >= 0 and case["r_built"] != r:
        out.label("ORACLE_constructed_rank_differs")
        return out
    sref = ref.svals(A)
    if r > 0 and not sref[r - 1] >= DOMAIN_REL * sref[0]:
        out.label("outside_domain:tiny_nonzero_sv")
        return out
    out.label(f"rank={'0' if r == 0 else ('full' if r == k else 'deficient')}")
    # oracle cross-checks named in the design (labels only: they are floating-point oracles themselves)
    if sref.size and sref[0] > 0:
        cnt = int(np.sum(sref > EPS * max(m, n) * sref[0]))
        out.label("xcheck:count(ref sigma>thr)==exact" if cnt == r else "xcheck:count(ref sigma>thr)!=exact")
    rr = ref.rank_real(A)
    if isinstance(rr, tuple):
        out.label("xcheck:matrix_rank(chi_r)/4==exact" if rr == (r, 0) else "xcheck:matrix_rank(chi_r)/4!=exact")
    nz = noise_ratio(A, r)
    rtags = ["default_tol", "exact_input"]
    if r < k:
        rtags.append("rank_deficient")
    if not nz <= 0.5:
        rtags.append("svd_noise_marginal")
        out.label("svd_noise_marginal")
    if r == 0:
        rtags.append("zero_matrix")
    rtags = tuple(rtags)
    msg = f"exact rank {r} of {m}x{n}; harness trailing sigma / threshold = {nz:.3f}"
    rk = lib_rank(out, "rank(A)", Q(A), tags=rtags)
    if rk is not None:
        out.true("rank(A):equals exact rank", rk == r, f"rank={rk}, " + msg, tags=rtags, value=rk)
    AH = ref.conjT(A)
    nzh = noise_ratio(AH, r)
    htags = tuple(t for t in rtags if t != "svd_noise_marginal") + (("svd_noise_marginal",) if not nzh <= 0.5 else ())
    rk = lib_rank(out, "rank(A^H)", Q(AH), tags=htags)
    if rk is not None:
        out.true("rank(A^H):equals rank(A)", rk == r, f"rank(A^H)={rk}, " + msg, tags=htags, value=rk)
    if case["kind"] == "monomial" and r == k and r >= 1:
        # an EXPLICIT tolerance of 0 counts every non-zero singular value, however small: the full-rank monomial matrix
        # gets one tiny (exactly representable) diagonal value and must keep its rank
        T = A.copy()
        nzpos = np.argwhere(np.any(T != 0, axis=2))
        if len(nzpos) >= 1:
            i0, j0 = (int(v) for v in nzpos[-1])
            T[i0, j0] = T[i0, j0] * 2.0 ** -70
            rk0 = lib_rank(out, "rank(A,tol=0)", Q(T), tags=("explicit_tol",), tol=0)
            if rk0 is not None:
                out.true("rank(A,tol=0):counts every non-zero singular value", rk0 == r,
                         f"rank={rk0}, {r} singular values are > 0 (the smallest about 1e-21 of the largest)",
                         tags=("explicit_tol",), value=rk0)
    # invariance under exactly invertible factors (product proven exact -> rank is r by Sylvester)
    if P is None:                 # long-dimension cases: no exactly invertible m x m factor is drawn
        PA = PAQ = None
        e1 = e2 = False
    else:
        PA, e1 = exact_qmm(P, A)
        PAQ, e2 = exact_qmm(PA, Qr)
    if e1 and e2:
        sp = ref.svals(PAQ)
        if r == 0 or sp[r - 1] >= DOMAIN_REL * sp[0]:
            nzp = noise_ratio(PAQ, r)
            ptags = tuple(t for t in rtags if t != "svd_noise_marginal") + (
                ("svd_noise_marginal",) if not nzp <= 0.5 else ())
            rk = lib_rank(out, "rank(PAQ)", Q(PAQ), tags=ptags)
            if rk is not None:
                out.true("rank(PAQ):equals rank(A)", rk == r,
                         f"rank(PAQ)={rk}, exact rank {r}; trailing sigma / threshold = {nzp:.3f}", tags=ptags,
                         value=rk)
            out.label("PAQ_checked")
    else:
        out.label("PAQ_inexact_skipped")
    # null spaces at the default relative cut 1e-10 (exact zeros vs sigma_r >= 1e-6 sigma_1: unambiguous)
    check_null(out, A, r, None, 0.0)
    stg = gen.spectrum_tags(sref)
    rep = "rep_nonzero" in stg
    if rep:
        out.label("repeated_sv")
    out.nontrivial = (n - r >= 2) or (m - r >= 2) or rep
    out.sample = {"shape": [m, n], "rank": r, "ref_svals": sref, "noise_over_threshold": nz}
    return out


# ====================================================================================================
# clause 2: prescribed spectra (float construction), explicit tolerances, generic invertible factors


@st.composite
def spectral_cases(draw, tier, size=None):
    lo_, hi = size or (1, 6 if tier == "quick" else 8)
    m = draw(st.integers(lo_, hi))
    n = draw(st.integers(lo_, hi))
    m, n = draw(gen.maybe_high_aspect(m, n, one_in=10))
    k = min(m, n)
    r = draw(st.sampled_from(list(range(1, k + 1)) * 3 + [0] + ([k - 1] * 2 if k >= 2 else [])
                             + ([k - 2] * 2 if k >= 3 else [])))
    s, skind = draw(gen.spectrum(r, kinds=("distinct", "repeated", "clustered", "geometric", "allequal"),
                                 cond_max=1e5))
    e = draw(st.sampled_from([0, 0, 0, -8, -3, 3, 8]))
    s = s * 10.0 ** e
    sp = np.concatenate([s, np.zeros(k - r)])
    A = draw(gen.matrix_with_svals(m, n, sp))
    dP = np.array(draw(st.lists(st.integers(8, 32), min_size=m, max_size=m)), dtype=float) / 16.0
    dQ = np.array(draw(st.lists(st.integers(8, 32), min_size=n, max_size=n)), dtype=float) / 16.0
    P = ref.scale_cols(draw(gen.unitary(m)), dP)
    Qr = ref.scale_cols(draw(gen.unitary(n)), dQ)
    return {"A": A, "s": s, "skind": skind, "P": P, "Q": Qr,
            "keep_tol": draw(st.integers(0, r)), "keep_rtol": draw(st.integers(-1, r))}


def _gap_cut(s, keep):
    """Absolute cut strictly inside a spectral gap such that exactly `j` constructed values exceed it.
    Returns (cut, j); j >= keep is the first admissible gap (ratio >= GAP) at or after `keep`."""
    r = len(s)
    j = keep
    while 1 <= j < r and not s[j - 1] >= GAP * s[j]:
        j += 1
    if r == 0:
        return 1.0, 0
    if j == 0:
        return 2.0 * s[0], 0
    if j == r:
        return 1e-3 * s[r - 1], r       # >= 1e-8 sigma_1 (cond <= 1e5) >> rounding-level "zeros" (~1e-15 sigma_1)
    return float(np.sqrt(s[j - 1] * s[j])), j


def check_spectral(case):
    out = Out()
    A, s, P, Qr = case["A"], np.asarray(case["s"], dtype=float), case["P"], case["Q"]
    m, n, _ = A.shape
    k = min(m, n)
    r = len(s)
    s1 = float(s[0]) if r else 0.0
    out.label("spec=" + case["skind"], "tall" if m > n else ("wide" if m < n else "square"),
              f"rank={'0' if r == 0 else ('full' if r == k else 'deficient')}")
    Aq = Q(A)
    # ---- rank with an explicit absolute tolerance placed in a gap of the constructed spectrum
    tol, j = _gap_cut(s, case["keep_tol"])
    ttags = ("explicit_tol",)
    rk = lib_rank(out, "rank(A,tol)", Aq, tags=ttags, tol=tol)
    if rk is not None:
        out.true("rank(A,tol):counts sigma>tol", rk == j, f"rank={rk}, {j} constructed sigma exceed tol={tol:.3e}",
                 tags=ttags, value=rk)
    rk = lib_rank(out, "rank(A^H,tol)", Q(ref.conjT(A)), tags=ttags, tol=tol)
    if rk is not None:
        out.true("rank(A^H,tol):equals rank(A,tol)", rk == j, f"rank={rk}, expected {j}", tags=ttags, value=rk)
    # ---- default tolerance where it is unambiguous for a float-constructed matrix: full rank or zero matrix
    if r == k or r == 0:
        dtags = ("default_tol", "full_rank" if r == k and r > 0 else "zero_matrix")
        rk = lib_rank(out, "rank(A)", Aq, tags=dtags)
        if rk is not None:
            out.true("rank(A):equals constructed rank", rk == r, f"rank={rk}, constructed {r} of {m}x{n}",
                     tags=dtags, value=rk)
        rk = lib_rank(out, "rank(A^H)", Q(ref.conjT(A)), tags=dtags)
        if rk is not None:
            out.true("rank(A^H):equals rank(A)", rk == r, f"rank={rk}, constructed {r}", tags=dtags, value=rk)
    # ---- rank(PAQ) = rank(A): sigma_r(PAQ) >= sigma_r(A)/4, rounding-level zeros <= ~1e-14*sigma_1(PAQ)
    PAQ = ref.qmm(ref.qmm(P, A), Qr)
    tolp = (1e-3 * s[-1] / 4.0) if r else 1.0
    rk = lib_rank(out, "rank(PAQ,tol)", Q(PAQ), tags=ttags, tol=tolp)
    if rk is not None:
        out.true("rank(PAQ,tol):equals rank(A)", rk == r, f"rank(PAQ)={rk}, constructed rank {r}, tol={tolp:.3e}",
                 tags=ttags, value=rk)
    # ---- null spaces: default cut, and an explicit relative cut inside a gap
    check_null(out, A, r, None, 0.0, pre="default:")
    if case["keep_rtol"] >= 0 and r > 0:
        cut, jr = _gap_cut(s, case["keep_rtol"])
        rtol = cut / s1
        drop = float(s[jr]) if jr < r else 0.0
        dropped = s[jr:]
        xt = ()
        if len(dropped) >= 2 and np.any(np.abs(np.diff(dropped)) <= 1e-6 * s1):
            xt = ("cut_sv_repeated",)     # the cut sends a REPEATED non-zero singular value into the null space
            out.label("rtol_drops_repeated_sv")
        check_null(out, A, jr, rtol, drop, pre="rtol:", extra_tags=xt)
        out.label("explicit_rtol", "rtol_drops_nonzero" if jr < r else "rtol_keeps_all")
    stg = gen.spectrum_tags(np.concatenate([s, np.zeros(k - r)]))
    rep = "rep_nonzero" in stg
    if rep:
        out.label("repeated_sv")
    out.nontrivial = (n - r >= 2) or (m - r >= 2) or rep
    out.sample = {"shape": [m, n], "rank": r, "spectrum": s, "tol": tol, "kept": j}
    return out


# ====================================================================================================
# clause 3: Dieudonne determinant


@st.composite
def dieudonne_cases(draw, tier):
    hi = 5 if tier == "quick" else 7
    n = draw(st.integers(1, hi))
    r = draw(st.sampled_from([n] * 5 + [0] + ([n - 1] * 2 if n >= 2 else []) + ([n - 2] * 2 if n >= 3 else [])))
    s, skind = draw(gen.spectrum(r, kinds=("distinct", "repeated", "clustered", "geometric", "allequal"),
                                 cond_max=1e3))
    e = draw(st.sampled_from([0, 0, 0, -6, -2, 2, 6, -40, -25, -12, 12, 25, 40]))
    e = int(np.sign(e)) * min(abs(e), 270 // n)      # the determinant itself (~10^(n e)) stays representable
    s = s * 10.0 ** e
    A = draw(gen.matrix_with_svals(n, n, np.concatenate([s, np.zeros(n - r)])))
    sb, _ = draw(gen.spectrum(n, kinds=("distinct", "repeated", "geometric", "allequal"), cond_max=1e3))
    B = draw(gen.matrix_with_svals(n, n, sb))
    return {"A": A, "B": B, "s": s, "skind": skind}


def _dieudonne(out, site, X, sig, delta, tags):
    """Library value vs product of oracle singular values `sig` (absolute accuracy `delta` each)."""
    u = L.utils
    Xq = Q(X)
    ok, d = out.call(site, u.det, Xq, "Dieudonné", tags=tags)
    ok2, d2 = out.call(site + "[ascii spelling]", u.det, Xq, "Dieudonne", tags=tags)
    if not ok:
        return None
    if not out.true(site + ":real scalar", np.isscalar(d) and np.isrealobj(d), f"returned {type(d).__name__}",
                    tags=tags):
        return None
    d = float(d)
    if ok2:
        out.true(site + ":both spellings agree", np.isscalar(d2) and float(d2) == d, f"{d2!r} vs {d!r}", tags=tags)
    want = float(np.prod(sig))
    err = perturbed_product_bound(sig, delta)
    out.le(site + ":product of singular values", abs(d - want), err,
           f"det={d:.6e}, prod(ref sigma)={want:.6e}", tags=tags)
    out.true(site + ":non-negative", d >= 0.0, f"det={d!r}", tags=tags)
    return d, want, err


def check_dieudonne(case):
    out = Out()
    A, B, s = case["A"], case["B"], np.asarray(case["s"], dtype=float)
    n = A.shape[0]
    r = len(s)
    singular = r < n
    out.label("spec=" + case["skind"], "singular" if singular else "nonsingular", f"n={n}")
    tagsA = ("singular",) if singular else ("nonsingular",)

    def oracle(X, zeros_from, extra_abs=0.0):
        sg = ref.svals(X)
        s1 = float(sg[0]) if sg.size else 0.0
        sg = sg.copy()
        sg[zeros_from:] = 0.0           # constructed zeros: the oracle value is exactly 0 there
        return sg, C_SV * n * U_ * s1 + extra_abs

    sigA, dA = oracle(A, r)
    resA = _dieudonne(out, "det(A,Dieudonne)", A, sigA, dA, tagsA)
    if resA is not None and not singular:
        out.true("det(A,Dieudonne):positive when nonsingular", resA[0] > 0.0, f"det={resA[0]!r}", tags=tagsA)
    sigB, dB = oracle(B, n)
    resB = _dieudonne(out, "det(B,Dieudonne)", B, sigB, dB, ("nonsingular",))
    # product formed by the harness: |fl(AB) - AB|_F <= 4n*2u*|A|_F|B|_F moves every sigma(AB) by at most that
    AB = ref.qmm(A, B)
    form = 8.0 * n * U_ * ref.fro(A) * ref.fro(B)
    sigAB, dAB = oracle(AB, r, form)
    resAB = _dieudonne(out, "det(AB,Dieudonne)", AB, sigAB, dAB, tagsA)
    if resA is not None and resB is not None and resAB is not None:
        (a, wa, ea), (b, wb, eb), (ab, _wab, eab) = resA, resB, resAB
        # |dAB - dA dB| <= err(AB) + err(A)*(|det B| + err(B)) + |det A|*err(B)   (true det(AB) = det A det B)
        bound = eab + ea * (wb + eb) + wa * eb
        out.le("det:multiplicative det(AB)=det(A)det(B)", abs(ab - a * b), bound,
               f"det(AB)={ab:.6e}, det(A)det(B)={a * b:.6e}", tags=tagsA)
    full = np.concatenate([s, np.zeros(n - r)])
    rep = "rep_nonzero" in gen.spectrum_tags(full)
    if rep:
        out.label("repeated_sv")
    if n - r >= 2:
        out.label("nullity>=2")
    out.nontrivial = n >= 2 and (rep or n - r >= 2)
    out.sample = {"n": n, "spectrum": full, "det": None if resA is None else resA[0]}
    return out


# ====================================================================================================
# clause 4: Moore determinant and the Hermitian test


@st.composite
def moore_cases(draw, tier):
    hi = 5 if tier == "quick" else 7
    n = draw(st.integers(1, hi))
    lam = np.array(draw(st.lists(st.integers(-16, 16), min_size=n, max_size=n)), dtype=float) / 4.0
    if draw(st.integers(0, 3)) == 0 and n >= 2:        # force a repeated eigenvalue
        lam[draw(st.integers(0, n - 1))] = lam[draw(st.integers(0, n - 1))]
    e = draw(st.sampled_from([0, 0, 0, -6, -2, 2, 6]))
    lam = lam * 10.0 ** e
    if n >= 2 and draw(st.integers(0, 4)) == 0:
        # graded spectrum: eigenvalues of either sign whose moduli differ by many orders of magnitude (far from singular)
        ex = draw(st.lists(st.integers(-8, 8), min_size=n, max_size=n))
        sg = draw(st.lists(st.sampled_from([1.0, -1.0]), min_size=n, max_size=n))
        lam = np.array([s_ * (1.0 + 0.25 * i) * 4.0 ** x for i, (s_, x) in enumerate(zip(sg, ex))])
    H = draw(gen.hermitian_with_spectrum(n, lam))
    if n >= 2 and draw(st.integers(0, 2)) == 0:
        # structured Hermitian matrices written down entry by entry (exact zeros in the pattern: arrow, banded, block
        # diagonal, isolated zero entries, sparse); the oracle spectrum comes from the harness's own eigvalsh
        H = gen.make_hermitian(draw(gen.qarray(n, n, draw(st.sampled_from(["int", "units", "sparse", "generic"]))))[0])
        style = draw(st.sampled_from(["arrow", "banded", "mask", "zero_10", "block", "hollow", "hollow"]))
        keep = np.ones((n, n), dtype=bool)
        if style == "arrow":
            piv = draw(st.integers(0, n - 1))
            keep[:] = False
            keep[piv, :] = keep[:, piv] = True
        elif style == "banded":
            bw = draw(st.integers(1, 2))
            keep = np.abs(np.subtract.outer(np.arange(n), np.arange(n))) <= bw
        elif style == "mask":
            msk = np.array(draw(st.lists(st.booleans(), min_size=n * n, max_size=n * n))).reshape(n, n)
            keep = np.triu(msk, 1)
            keep = keep | keep.T
        elif style == "zero_10":
            keep[1, 0] = keep[0, 1] = False
        else:
            c = draw(st.integers(1, n - 1))
            keep[c:, :c] = keep[:c, c:] = False
        np.fill_diagonal(keep, True)
        if style == "hollow":
            # zero diagonal (all of it, or its first entries): pivots of an unpivoted recurrence vanish exactly
            hz = draw(st.integers(1, n))
            for i in range(hz):
                keep[i, i] = False
        H = H * keep[:, :, None]
        H = H * 10.0 ** e
        lam = ref.eigvalsh(H)
    kind = draw(st.sampled_from(["hermitian"] * 4 + ["offdiag_perturbed", "imag_diagonal"]))
    i = draw(st.integers(0, n - 1))
    j = draw(st.integers(0, n - 1))
    comp = draw(st.integers(0, 3))
    return {"H": H, "lam": lam, "kind": kind, "i": i, "j": j, "comp": comp}


def check_moore(case):
    out = Out()
    u = L.utils
    H, lam, kind = case["H"].copy(), np.asarray(case["lam"], dtype=float), case["kind"]
    n = H.shape[0]
    i, j, comp = case["i"], case["j"], case["comp"]
    scale = float(np.max(np.abs(H))) or 1.0
    if kind == "offdiag_perturbed" and n >= 2:
        if i == j:
            j = (i + 1) % n
        H[i, j, comp] += 0.25 * scale       # H_ij != conj(H_ji) by a quarter of the largest component
    elif kind != "hermitian":
        kind = "imag_diagonal"
        H[i, i, 1 + comp % 3] = 0.5 * scale  # non-real diagonal entry
    out.label("kind=" + kind, f"n={n}")
    Hq = Q(H)
    h0 = ahash(Hq)
    if kind != "hermitian":
        tags = ("non_hermitian",)
        ok, v = out.call("ishermitian(non-Hermitian)", u.ishermitian, Hq, tags=tags)
        if ok:
            out.true("ishermitian(non-Hermitian):False", isinstance(v, (bool, np.bool_)) and not bool(v),
                     f"returned {v!r} for a matrix that differs from its conjugate transpose by >= 25% of max|a_ij|",
                     tags=tags)
        try:
            v = u.det(Hq, "Moore")
            out.true("det(non-Hermitian,Moore):rejected", False, f"returned {v!r} instead of raising", tags=tags)
        except Exception as ex:  # noqa: BLE001 - any loud rejection is accepted
            out.label("rejected:" + type(ex).__name__)
        return out
    tags = ("hermitian",)
    ok, v = out.call("ishermitian(Hermitian)", u.ishermitian, Hq, tags=tags)
    if ok:
        out.true("ishermitian(Hermitian):True", isinstance(v, (bool, np.bool_)) and bool(v),
                 f"returned {v!r} for a bit-for-bit Hermitian matrix", tags=tags)
    ok, d = out.call("det(H,Moore)", u.det, Hq, "Moore", tags=tags)
    out.true("argument unchanged", ahash(Hq) == h0, "input modified")
    if not ok:
        return out
    try:
        dc = complex(d)
    except Exception:  # noqa: BLE001
        out.true("det(H,Moore):scalar", False, f"returned {type(d).__name__}", tags=tags)
        return out
    lref = ref.eigvalsh(H)
    rho = float(np.max(np.abs(lref))) if n else 0.0
    want = float(np.prod(lref))
    delta = C_EV * n * U_ * rho
    err = perturbed_product_bound(lref, delta)
    out.le("det(H,Moore):product of eigenvalues (imaginary part 0)", abs(dc - want), err,
           f"det={dc!r}, prod(ref lambda)={want:.6e}", tags=tags)
    srt = np.sort(lam)
    rep = bool(np.any(np.diff(srt) == 0.0)) if n >= 2 else False
    nzero = int(np.sum(lam == 0.0))
    if rep:
        out.label("repeated_eigenvalue")
    if nzero:
        out.label("singular")
    if np.any(lam < 0):
        out.label("has_negative_eigenvalue")
    out.nontrivial = n >= 2 and (rep or nzero >= 2)
    out.sample = {"n": n, "lam": lam, "det": [dc.real, dc.imag]}
    return out


# ====================================================================================================
# clause 5: rejections (exhaustive small table)


def _fixed_matrix(m, n, herm=False):
    A = np.zeros((m, n, 4))
    for i in range(m):
        for j in range(n):
            for c in range(4):
                A[i, j, c] = float(((3 * i + 5 * j + 7 * c + i * j) % 7) - 3)
    if herm and m == n:
        A = gen.make_hermitian(A)
    return A


def enum_reject(tier):
    cases = []
    for shape in ([1, 2], [2, 1], [2, 3], [3, 2], [1, 4]):
        for d in ("Dieudonné", "Dieudonne", "Moore"):
            cases.append({"what": "det_nonsquare", "shape": shape, "arg": d})
        cases.append({"what": "ishermitian_nonsquare", "shape": shape, "arg": None})
    for shape in ([1, 1], [2, 2], [3, 3]):
        for d in ("bogus", "", "determinant", "dieudonné", "moore", None, 0):
            cases.append({"what": "det_unknown_type", "shape": shape, "arg": d})
        cases.append({"what": "det_moore_nonhermitian", "shape": shape, "arg": "Moore"})
    for shape in ([2, 3], [3, 3], [3, 1]):
        for side in ("both", "", "Right", "up", None):
            cases.append({"what": "null_bad_side", "shape": shape, "arg": side})
            cases.append({"what": "kernel_bad_side", "shape": shape, "arg": side})
    return cases


def check_reject(case):
    out = Out()
    u = L.utils
    m, n = case["shape"]
    what, arg = case["what"], case["arg"]
    A = _fixed_matrix(m, n, herm=(what == "det_unknown_type"))
    if what == "det_moore_nonhermitian":
        A[0, 0, 1] = 1.0          # non-real diagonal entry (works for n = 1 as well)
    Aq = Q(A)
    fns = {
        "det_nonsquare": lambda: u.det(Aq, arg),
        "det_unknown_type": lambda: u.det(Aq, arg),
        "det_moore_nonhermitian": lambda: u.det(Aq, arg),
        "ishermitian_nonsquare": lambda: u.ishermitian(Aq),
        "null_bad_side": lambda: u.quat_null_space(Aq, side=arg),
        "kernel_bad_side": lambda: u.quat_kernel(Aq, side=arg),
    }
    out.label(what)
    try:
        v = fns[what]()
        out.true(f"{what}:rejected", False, f"{what}({m}x{n}, {arg!r}) returned {str(v)[:80]} instead of raising",
                 tags=(what,))
    except Exception as ex:  # noqa: BLE001 - rejected loudly
        out.label("raised:" + type(ex).__name__)
    out.nontrivial = True
    return out


# ====================================================================================================
# clause 6: pinned witnesses for the default threshold on exactly rank-deficient inputs
#           (found by random search; the default threshold eps*max(m,n)*sigma_1 sits only ~1.3-3x above the
#            rounding noise of the 4m x 4n real SVD, so a 1e-5 tail of inputs is misjudged)

WITNESSES = [
    {"B8": [[[1, -4, -10, -7]], [[27, -18, 28, -38]]], "C8": [[[-16, 4, 26, -26], [11, -8, 25, 27]]]},
    {"B8": [[[-20, -33, 1, 15]], [[-8, -3, -16, 39]]], "C8": [[[-9, 19, 26, 5], [39, 11, -36, 16]]]},
]


def enum_witness(tier):
    return [dict(w, idx=i) for i, w in enumerate(WITNESSES)]


def check_witness(case):
    out = Out()
    B = np.array(case["B8"], dtype=float) / 8.0
    C = np.array(case["C8"], dtype=float) / 8.0
    A, exact = exact_qmm(B, C)
    m, n, _ = A.shape
    r, rem = exact_rank_H(A)
    if not exact or rem != 0:
        out.label("ORACLE_inconsistent")
        return out
    nz = noise_ratio(A, r)
    tags = ["default_tol", "exact_input", "rank_deficient"]
    if not nz <= 0.5:
        tags.append("svd_noise_marginal")
        out.label("svd_noise_marginal")
    rk = lib_rank(out, "rank(A)", Q(A), tags=tuple(tags))
    if rk is not None:
        out.true("rank(A):equals exact rank", rk == r,
                 f"rank={rk}, exact rank {r} of {m}x{n} (A = B C exactly); harness trailing sigma / threshold = {nz:.3f}",
                 tags=tuple(tags), value=rk)
    out.nontrivial = True
    out.sample = {"shape": [m, n], "rank": r, "noise_over_threshold": nz}
    return out


PROPERTY = Property(
    id="C11",
    title="Rank, null spaces and determinants agree with the singular/eigen structure",
    rule=("rank / null-space clauses: nullity >= 2 on some side (n - rank >= 2 or m - rank >= 2) or a repeated non-zero "
          "singular value; Dieudonne: n >= 2 and (repeated singular value or >= 2 zero singular values); Moore: n >= 2 and "
          "(repeated eigenvalue or >= 2 zero eigenvalues); rejection table and pinned witnesses: every row. "
          "Distinct = distinct input digest."),
    clauses=[
        Clause("rank_null_exact_inputs", check_exact, strategy=exact_cases, budget={"quick": 2000, "thorough": 32000}),
        Clause("rank_null_prescribed_spectrum", check_spectral, strategy=spectral_cases,
               budget={"quick": 1600, "thorough": 28000}),
        Clause("rank_null_moderate_size", check_spectral, strategy=lambda tier: spectral_cases(tier, size=(9, 20 if tier == "quick" else 40)),
               budget={"quick": 40, "thorough": 400}, shrink=False),
        Clause("rank_null_long_dimension", check_exact, strategy=long_exact_cases, budget={"quick": 24, "thorough": 240},
               shrink=False),
        Clause("dieudonne", check_dieudonne, strategy=dieudonne_cases, budget={"quick": 800, "thorough": 16000}),
        Clause("moore", check_moore, strategy=moore_cases, budget={"quick": 800, "thorough": 16000}),
        Clause("rejections", check_reject, enumerate=enum_reject, budget={"quick": 0, "thorough": 0}, max_shards=2),
        Clause("default_tol_witnesses", check_witness, enumerate=enum_witness, budget={"quick": 0, "thorough": 0},
               max_shards=1),
    ],
    assumptions=[
        "numpy-quaternion dtype conversions are trusted; LAPACK (numpy) on the harness's own embeddings is the oracle",
        "default-tolerance rank is judged only on exactly representable inputs whose rank is the EXACT rational rank of "
        "chi_r(A)/4 and whose non-zero singular values are >= 1e-6*sigma_1 (float-constructed low-rank matrices have "
        "'zero' singular values at rounding level, right at the documented threshold, and are judged with explicit "
        "tolerances placed in spectral gaps of ratio >= 1.5 instead)",
        "null-space bases: shape, A N ~ 0 (per column, relative to the column norm) and sigma_min/sigma_max >= 1e-6 only; "
        "orthonormality is NOT claimed (Q-SVD factors are a separate known finding)",
        "determinant bounds: every singular value / eigenvalue accurate to C*n*u*(largest), propagated through the product "
        "exactly (prod(|v|+delta) - prod|v|); condition number <= 1e3 for the factors of the multiplicativity law",
        "a rejection is any raised exception; returning a value is the failure",
    ],
    exhaustive_note=("rejections: 5 non-square shapes x (3 determinant types + ishermitian), 3 square shapes x (7 unknown "
                     "type arguments + non-Hermitian Moore), 3 shapes x 5 invalid `side` values x 2 entry points; "
                     "default_tol_witnesses: 2 pinned exactly-rank-1 2x2 inputs"),
)


# ====================================================================================================
# clause: full-rank inputs with a wide dynamic range and strongly rectangular shapes (default tolerance)


@st.composite
def wide_range_cases(draw, tier):
    k = draw(st.integers(1, 4))
    aspect = draw(st.sampled_from([1, 2, 4, 5, 8]))
    big = min(k * aspect + draw(st.integers(0, 2)), 16 if tier == "quick" else 24)
    big = max(big, k)
    tall = draw(st.booleans())
    m, n = (big, k) if tall else (k, big)
    c = draw(st.sampled_from([1e3, 1e6, 1e8, 1e10]))
    sv = np.array([c ** (-(i / max(1, k - 1))) for i in range(k)]) if k > 1 else np.array([1.0])
    if k > 2 and draw(st.booleans()):
        sv[1:k - 1] = np.sort(np.array(draw(st.lists(st.sampled_from([1.0, 0.5, 0.25, 1e-2]), min_size=k - 2, max_size=k - 2))))[::-1]
    sv = sv * 10.0 ** draw(st.sampled_from([0, 0, -6, 6]))
    A = draw(gen.matrix_with_svals(m, n, sv))
    return {"A": A, "s": sv, "cond": c}


def check_wide_range(case):
    out = Out()
    A, sv = case["A"], np.asarray(case["s"], dtype=float)
    m, n, _ = A.shape
    k = min(m, n)
    out.label(f"cond={case['cond']:g}", "aspect>=4" if max(m, n) >= 4 * k else "aspect<4", "tall" if m > n else "wide")
    # every constructed singular value is >= 1e-10*sigma_1, far above the documented threshold eps*max(m,n)*sigma_1
    thr = np.finfo(float).eps * max(m, n) * float(sv[0])
    if not np.all(sv > 1e3 * thr):
        out.label("ambiguous(skipped)")
        return out
    rk = lib_rank(out, "rank(A)", Q(A), tags=("default_tol", "full_rank", "wide_dynamic_range"))
    if rk is not None:
        out.true("rank(A):counts every singular value above the documented threshold", rk == k,
                 f"rank={rk}, but all {k} singular values {sv} exceed eps*max(m,n)*sigma_1={thr:.2e}", value=rk)
    rkh = lib_rank(out, "rank(A^H)", Q(ref.conjT(A)), tags=("default_tol", "full_rank", "wide_dynamic_range"))
    if rkh is not None:
        out.true("rank(A^H):equals rank(A)", rkh == k, f"rank(A^H)={rkh}, expected {k}", value=rkh)
    out.nontrivial = k >= 2 and case["cond"] >= 1e6
    out.sample = {"shape": [m, n], "cond": case["cond"]}
    return out


PROPERTY.clauses.append(Clause("rank_wide_dynamic_range", check_wide_range, strategy=wide_range_cases,
                               budget={"quick": 500, "thorough": 6000}))
