"""C09 - Hessenberg reduction is a unitary similarity to upper Hessenberg form.

Code under test: decomp/hessenberg.py (hessenbergize, check_hessenberg, is_hessenberg) and the
reflector builder it borrows from decomp/tridiagonalize.py (householder_matrix / householder_vector,
column-vector branch).

Oracle (all products, norms, singular values and eigenvalues are the harness's own: qv/ref.py, i.e. the
Hamilton table and LAPACK on the harness's complex adjoint - no library routine checks itself):

  with u = 2^-53, a = ||A||_F, n the order, (P, H) = hessenbergize(A)

  unitarity        ||P^H P - I||_F                <= C_UNIT  * n   * u
  similarity       ||P A P^H - H||_F              <= C_SIM   * n^2 * u * a
  structure        ||strictly-below-subdiag(H)||_F <= C_LOW   * n   * u * a      (relative to a, NOT 1e-12)
  invariants       | ||H||_F - a |                <= C_INV   * n^2 * u * a
                   max_i |s_i(H) - s_i(A)|        <= C_INV   * n^2 * u * a      (ref.svals)
                   |Re tr H - Re tr A|            <= C_INV   * n^2 * u * a
                   |Re tr H^2 - Re tr A^2|        <= 2 C_INV * n^2 * u * a^2
                   Hermitian A: |lam_i(H) - lam_i(A)| <= C_INV * n^2 * u * a    (ref.eigvalsh)
  no aliasing      returned arrays share no memory with the argument; argument unchanged

Derivation of the constants (n <= 7 is generated):
  * every step does P <- fl(Hk P), H <- fl(fl(Hk H) Hk^H); a quaternion dot product of length n is 4n real
    terms, so each product carries a forward error <= gamma_{4n} |Hk||X|, i.e. <= 4n u sqrt(n) ||X||_F in
    norm.  Over the n-2 steps (two products each for H) the similarity residual is <= 8 n^2.5 u a plus
    the harness's own two products (8 n^1.5 u a): C_SIM * n^2 with C_SIM = 100 dominates for n <= 150.
  * P: n-2 products with error <= 4 n^2 u each plus the defect of a computed reflector (a few u sqrt(n)):
    (n-2)(4n^2 + 20 sqrt(n)) u <= 1250 u at n = 7 <= C_UNIT * n * u with C_UNIT = 1000 (7000 u).
  * column k is annihilated at step k with error <= gamma_{4n} |Hk||a_k| and later steps only rotate the
    (negligible) tail among itself: C_LOW * n * u * a with C_LOW = 200.
  * the invariants follow from the first two lines (Weyl for singular / Hermitian eigenvalues,
    |tr X| <= sqrt(n) ||X||_F) plus LAPACK's own O(n u a) error (which dominates at n = 1, 2): C_INV = 400.
  Observed worst error/bound on the unchanged tree (thorough tier, 2 seeds) is <= 8e-3 for every line; the planted mutants
  exceed the bounds by >= 1e10.

The predicate clause checks is_hessenberg / check_hessenberg against their docstring definition, staying
away from the ambiguous band (an entry is generated either with all components <= atol/2, so it is
negligible both component-wise and in modulus, or with one component >= 2 atol).
"""
import hashlib

import numpy as np
from hypothesis import strategies as st
from hypothesis.extra import numpy as hnp

from .. import gen, ref
from ..core import Clause, Out, Property
from ..env import L
from ..lib import F, Q, ahash

U_ = ref.U
C_UNIT = 1000.0
C_SIM = 100.0
C_LOW = 200.0
C_INV = 400.0

NMAX = 7


# ----------------------------------------------------------------------------
# input classification (computed from the INPUT only)


def _below(n, off):
    """Index arrays (i, j) with i > j + off."""
    return np.tril_indices(n, -(off + 1))


def classify(A):
    """Class labels of a square input, all computed from A alone."""
    n = A.shape[0]
    nzent = np.any(A != 0.0, axis=-1)              # (n,n) bool: entry is non-zero
    labels = [f"n={n}"]
    is_hess = not bool(np.any(nzent[_below(n, 1)])) if n >= 3 else True
    upper = not bool(np.any(nzent[_below(n, 0)]))
    lower = not bool(np.any(nzent[np.triu_indices(n, 1)]))
    if not nzent.any():
        labels.append("zero_matrix")
    if n >= 3 and is_hess:
        labels.append("already_hessenberg")
    if n >= 2 and upper:
        labels.append("upper_triangular")
    if n >= 2 and lower:
        labels.append("lower_triangular")
    if n >= 2 and np.array_equal(A, ref.conjT(A)):
        labels.append("hermitian")
    if n >= 2 and bool(np.any(~nzent.any(axis=0))):
        labels.append("zero_column")
    zsub = [k for k in range(0, n - 2) if not nzent[k + 1:, k].any()]
    if zsub:
        labels.append("zero_subcolumn")            # A[k+1:, k] == 0 for some reduced column k
    if n >= 3 and 0 in zsub:
        labels.append("zero_subcolumn0")           # alpha == 0 branch certainly taken at step 0
    if n >= 3 and not nzent[1, 0] and nzent[2:, 0].any():
        labels.append("zero_subdiag0")             # r == 0, alpha != 0 branch certainly taken at step 0
    if n >= 3 and nzent[1, 0] and not nzent[2:, 0].any():
        labels.append("reduced_column0")           # column 0 already in final form (u parallel to e1)
    if any(not nzent[p:, :p].any() for p in range(2, n - 1)):
        labels.append("block_triangular")          # zero block A[p:, :p], p >= 2: alpha == 0 at step p-1 > 0
    if nzent.any():
        mod = ref.modulus(A)[nzent]
        mx, mn = float(mod.max()), float(mod.min())
        if mx >= 1e4:
            labels.append("large_scale")
        if mx <= 1e-4:
            labels.append("small_scale")
        if mx / mn >= 1e6:
            labels.append("graded")
        if np.all(A == np.round(A)) and mx < 1e4:
            labels.append("integer")
        if n >= 2 and not nzent.all():
            labels.append("has_zero_entries")
    nontrivial = n >= 3 and ((not is_hess) or bool(zsub))
    return labels, nontrivial


TAG_CLASSES = ("already_hessenberg", "zero_subcolumn", "zero_subdiag0", "hermitian", "large_scale",
               "small_scale", "graded", "zero_matrix")


def input_tags(A, labels):
    n = A.shape[0]
    tags = ["n<=2" if n <= 2 else ("n=3" if n == 3 else "n>=4")]
    tags += [t for t in TAG_CLASSES if t in labels]
    return tuple(tags)


# ----------------------------------------------------------------------------
# the oracle for one reduction


def check_reduction(A, out):
    n = A.shape[0]
    Aq = Q(A)
    h0 = ahash(Aq)
    ok, r = out.call("hessenbergize", L.hessenberg.hessenbergize, Aq)
    if not ok:
        return
    if not out.true("hessenbergize:returns (P, H)", isinstance(r, tuple) and len(r) == 2,
                    f"returned {type(r).__name__}"):
        return
    Pq, Hq = r
    shp = (getattr(Pq, "shape", None), getattr(Hq, "shape", None))
    if not out.true("hessenbergize:shapes", shp == ((n, n), (n, n)), f"P, H shapes {shp} for n={n}"):
        return
    if not out.true("hessenbergize:dtype", getattr(Pq, "dtype", None) == np.quaternion
                    and getattr(Hq, "dtype", None) == np.quaternion, "P or H is not a quaternion array"):
        return
    # ---- no aliasing, argument unchanged
    out.true("hessenbergize:argument unchanged", ahash(Aq) == h0, "input array modified")
    out.true("hessenbergize:H does not alias the input", not np.shares_memory(Hq, Aq),
             "returned H shares memory with the argument")
    out.true("hessenbergize:P does not alias the input", not np.shares_memory(Pq, Aq),
             "returned P shares memory with the argument")
    P, H = F(Pq), F(Hq)
    if n >= 1:      # a write through the result must not reach the argument (behavioural form of the above)
        try:
            Hq[0, 0] = Hq[0, 0] + np.quaternion(1.0, 2.0, 3.0, 4.0)
            Pq[0, 0] = Pq[0, 0] + np.quaternion(1.0, 2.0, 3.0, 4.0)
        except Exception as e:  # noqa: BLE001 - a read-only result is no aliasing hazard
            out.label("result_not_writable:" + type(e).__name__)
        out.true("hessenbergize:writing to the result leaves the argument alone", ahash(Aq) == h0,
                 "writing into returned P/H changed the argument")
    if not out.true("hessenbergize:finite", bool(np.all(np.isfinite(P)) and np.all(np.isfinite(H))),
                    "NaN/Inf in P or H"):
        return
    a = ref.fro(A)
    nu = n * U_
    # ---- P unitary
    out.le("P^H P = I", ref.unitarity_defect(P), C_UNIT * nu, "||P^H P - I||_F")
    out.le("P P^H = I", ref.fro(ref.qmm(P, ref.conjT(P)) - ref.qeye(n)), C_UNIT * nu, "||P P^H - I||_F")
    # ---- similarity
    PAPh = ref.qmm(ref.qmm(P, A), ref.conjT(P))
    tiny = 1e-300 if a == 0.0 else 0.0
    out.le("H = P A P^H", ref.fro(PAPh - H), C_SIM * n * nu * a + tiny, f"||P A P^H - H||_F, ||A||_F={a:.3e}")
    # ---- structure
    low = H[_below(n, 1)]
    lowf = float(np.sqrt(np.sum(low * low))) if low.size else 0.0
    out.le("H upper Hessenberg", lowf, C_LOW * nu * a + tiny,
           f"Frobenius norm of the entries below the first sub-diagonal, ||A||_F={a:.3e}")
    # ---- invariants of a unitary similarity
    binv = C_INV * n * nu * a + tiny
    out.le("||H||_F = ||A||_F", abs(ref.fro(H) - a), binv, f"||H||_F={ref.fro(H):.17g} ||A||_F={a:.17g}")
    sA, sH = ref.svals(A), ref.svals(H)
    out.le("singular values of H = those of A", float(np.max(np.abs(sA - sH))) if n else 0.0, binv,
           "max_i |s_i(H) - s_i(A)| (LAPACK on the harness's complex adjoint)")
    trA, trH = float(np.sum(np.diagonal(A[..., 0]))), float(np.sum(np.diagonal(H[..., 0])))
    out.le("Re tr H = Re tr A", abs(trH - trA), binv, f"Re tr H={trH:.17g} Re tr A={trA:.17g}")
    A2, H2 = ref.qmm(A, A), ref.qmm(H, H)
    out.le("Re tr H^2 = Re tr A^2",
           abs(float(np.sum(np.diagonal(H2[..., 0]))) - float(np.sum(np.diagonal(A2[..., 0])))),
           2 * C_INV * n * nu * a * a + tiny, "second power-trace invariant")
    if n >= 2 and np.array_equal(A, ref.conjT(A)):
        lamA = ref.eigvalsh(A)
        lamH = ref.eigvalsh(0.5 * (H + ref.conjT(H)))
        out.le("Hermitian A: eigenvalues of H = those of A", float(np.max(np.abs(lamA - lamH))), binv,
               "max_i |lam_i(herm(H)) - lam_i(A)|")
        out.le("Hermitian A: H Hermitian", ref.fro(H - ref.conjT(H)), 2 * C_SIM * n * nu * a + tiny,
               "||H - H^H||_F")
    out.sample = {"n": n, "normA": a, "unitarity_defect": ref.unitarity_defect(P),
                  "similarity_residual_rel": (ref.fro(PAPh - H) / a) if a else 0.0,
                  "below_subdiag_rel": (lowf / a) if a else 0.0}


def run_case(A):
    A = np.ascontiguousarray(np.asarray(A, dtype=float))
    labels, nontrivial = classify(A)
    out = Out(tags=input_tags(A, labels))
    out.label(*labels)
    check_reduction(A, out)
    out.nontrivial = nontrivial
    return out


# ----------------------------------------------------------------------------
# clause 1: generated inputs

KINDS = ("generic", "generic", "hessenberg", "upper", "lower", "hermitian", "skew_hermitian", "zero_col",
         "zero_subcol", "zero_subdiag", "block_tri", "low_rank", "near_hessenberg", "signed_perm",
         "similar_to_hessenberg", "graded_cols", "graded_rows", "nearly_hermitian", "nearly_structured", "block_diag",
         "one_signed_lower", "laplacian", "trailing_rows_reduced")
BASE_PATTERNS = ("generic", "generic", "int", "pure_imag", "axis", "sparse")


@st.composite
def reduction_cases(draw, tier, size=None):
    n = draw(st.integers(*size) if size else st.sampled_from([1, 2, 3, 3, 4, 4, 4, 5, 5, 5, 6, 6, 7]))
    kind = draw(st.sampled_from(KINDS))
    if kind == "generic":
        pat = draw(st.sampled_from(BASE_PATTERNS + ("unit", "zero")))
    else:
        pat = draw(st.sampled_from(BASE_PATTERNS))
    A, pat = draw(gen.qarray(n, n, pat))
    A = A.copy()
    if kind == "hessenberg":
        A[_below(n, 1)] = 0.0
    elif kind == "upper":
        A[_below(n, 0)] = 0.0
    elif kind == "lower":
        A[np.triu_indices(n, 1)] = 0.0
    elif kind == "hermitian":
        A = gen.make_hermitian(A)
    elif kind == "skew_hermitian":
        A = 0.5 * (A - ref.conjT(A))
    elif kind == "zero_col":
        for j in draw(st.lists(st.integers(0, n - 1), min_size=1, max_size=2)):
            A[:, j] = 0.0
    elif kind == "zero_subcol":
        for k in draw(st.lists(st.integers(0, max(0, n - 3)), min_size=1, max_size=2)):
            A[k + 1:, k] = 0.0
    elif kind == "zero_subdiag":
        for k in draw(st.lists(st.integers(0, max(0, n - 2)), min_size=1, max_size=3)):
            if k + 1 < n:
                A[k + 1, k] = 0.0
    elif kind == "block_tri":
        p = draw(st.integers(1, max(1, n - 1)))
        A[p:, :p] = 0.0
        if draw(st.booleans()) and p + 1 < n:
            A[p + 1:, p] = 0.0
    elif kind == "low_rank":
        r = draw(st.integers(1, max(1, n - 1)))
        X, _ = draw(gen.qarray(n, r, draw(st.sampled_from(("generic", "int")))))
        Y, _ = draw(gen.qarray(r, n, draw(st.sampled_from(("generic", "int")))))
        A = ref.qmm(X, Y)
    elif kind == "near_hessenberg":
        eps = draw(st.sampled_from([1e-16, 1e-13, 1e-10, 1e-6]))
        idx = _below(n, 1)
        A[idx] = A[idx] * eps
    elif kind == "nearly_hermitian":
        # Hermitian plus a small non-Hermitian part: any "is it Hermitian?" shortcut with a loose tolerance shows
        B2, _ = draw(gen.qarray(n, n, "generic"))
        A = gen.make_hermitian(A) + draw(st.sampled_from([1e-4, 1e-6, 1e-8, 1e-10])) * B2
    elif kind == "nearly_structured":
        # triangular / diagonal plus a tiny full perturbation: loose "already reduced" shortcuts show
        B2, _ = draw(gen.qarray(n, n, "generic"))
        T = A.copy()
        if draw(st.booleans()):
            T[_below(n, 0)] = 0.0
        else:
            T[_below(n, 0)] = 0.0
            T[np.triu_indices(n, 1)] = 0.0
        A = T + draw(st.sampled_from([1e-6, 1e-9, 1e-12])) * B2
    elif kind == "block_diag":
        # reducible input: several diagonal blocks, so whole columns are already reduced between active steps
        cuts = sorted(set(draw(st.lists(st.integers(1, max(1, n - 1)), min_size=1, max_size=2))))
        lo = 0
        for c in cuts + [n]:
            A[c:, lo:c] = 0.0
            A[lo:c, c:] = 0.0
            lo = c
    elif kind == "one_signed_lower":
        # every component of every entry below the first sub-diagonal has the same sign (a test that forgets the
        # modulus sees "nothing to reduce")
        sg = draw(st.sampled_from([-1.0, 1.0]))
        idx = _below(n, 1)
        A[idx] = sg * np.abs(A[idx])
    elif kind == "laplacian":
        A = np.zeros((n, n, 4))
        A[..., 0] = -1.0
        for i in range(n):
            A[i, i] = [float(n), 0, 0, 0]
        if draw(st.booleans()):
            A = ref.qmul(A, draw(gen.unit_q(exact=True)).reshape(1, 1, 4))
    elif kind == "trailing_rows_reduced":
        # the last rows are exactly zero left of the diagonal (reducible at the bottom), the rest is dense
        t = draw(st.integers(1, max(1, n - 2)))
        for i in range(n - t, n):
            A[i, :i] = 0.0
    elif kind == "signed_perm":
        A = draw(gen.exact_unitary(n))
        if draw(st.booleans()):
            A = A * draw(st.sampled_from([2.0, 0.5, 3.0]))
    elif kind == "similar_to_hessenberg":
        A[_below(n, 1)] = 0.0
        Qm = draw(gen.unitary(n))
        A = ref.qmm(ref.qmm(Qm, A), ref.conjT(Qm))
    elif kind == "graded_cols":
        e = draw(st.lists(st.integers(-8, 8), min_size=n, max_size=n))
        A = A * (10.0 ** np.array(e, dtype=float))[None, :, None]
    elif kind == "graded_rows":
        e = draw(st.lists(st.integers(-8, 8), min_size=n, max_size=n))
        A = A * (10.0 ** np.array(e, dtype=float))[:, None, None]
    se = 0
    if not kind.startswith("graded"):
        se = draw(st.sampled_from([0, 0, 0, 0, 0, -8, -4, 4, 8, -100, 100]))
        if se:
            A = A * 10.0 ** se
    return {"A": np.ascontiguousarray(A, dtype=float), "kind": kind, "pattern": pat, "scale_exp": se}


@st.composite
def long_reduction_cases(draw, tier):
    """Square matrices of order just past the blocking sizes 32 / 64: dense, banded below the diagonal, block triangular."""
    n = draw(st.sampled_from([33, 40, 64, 65] if tier == "quick" else [33, 40, 64, 65, 100, 129]))
    A, pat = draw(gen.long_qarray(n, n, draw(st.sampled_from(["generic", "int", "sparse"]))))
    kind = draw(st.sampled_from(["dense", "dense", "lower_band", "block_tri", "hermitian"]))
    idx = np.arange(n)
    if kind == "lower_band":
        bw = draw(st.sampled_from([1, 2, 5, 31]))
        A = A * ((idx[:, None] - idx[None, :]) <= bw)[..., None]
    elif kind == "block_tri":
        c = draw(st.sampled_from([1, 16, 32, n - 1]))
        A[c:, :c] = 0.0
    elif kind == "hermitian":
        A = gen.make_hermitian(A)
    se = draw(st.sampled_from([0, 0, -6, 6]))
    return {"A": np.ascontiguousarray(A * 10.0 ** se), "kind": "long:" + kind, "pattern": pat, "scale_exp": se}


def check_generated(case):
    out = run_case(case["A"])
    out.label("kind=" + str(case.get("kind")), "pattern=" + str(case.get("pattern")))
    if case.get("scale_exp"):
        out.label("scaled_1e%+d" % case["scale_exp"])
    return out


# ----------------------------------------------------------------------------
# clause 2: exhaustive over the zero patterns of the strictly lower triangle (drives every combination of
# the alpha == 0 / r == 0 / generic reflector branches over the steps)


def _hval(*key):
    """Deterministic dyadic value in [-1, 1] \\ {0} from a key (a hash, not an RNG)."""
    h = hashlib.sha256(repr(key).encode()).digest()
    v = int.from_bytes(h[:4], "big") % 32 - 16
    if v >= 0:
        v += 1
    return v / 16.0


def enum_zero_patterns(tier):
    cases = []
    sizes = (3, 4, 5) if tier == "quick" else (3, 4, 5, 6)
    for n in sizes:
        nb = n * (n - 1) // 2
        draws = {3: 8, 4: 4, 5: 1, 6: 1}[n] * (1 if tier == "quick" else 2)
        if n == 6 and tier != "quick":
            draws = 1
        for mask in range(1 << nb):
            for d in range(draws):
                cases.append({"n": n, "mask": mask, "draw": d})
    return cases


def build_pattern(case):
    n, mask, d = case["n"], case["mask"], case["draw"]
    A = np.zeros((n, n, 4))
    bit = 0
    for i in range(n):
        for j in range(n):
            keep = True
            if i > j:
                keep = bool((mask >> bit) & 1)
                bit += 1
            if keep:
                for c in range(4):
                    A[i, j, c] = _hval(n, mask, d, i, j, c)
    # odd draws: single-axis sub-diagonal part (real / pure-i entries: zeta = -+1, -+i)
    if d % 2 == 1:
        ax = (d // 2) % 4
        keepc = np.zeros(4)
        keepc[ax] = 1.0
        for i in range(n):
            for j in range(i):
                A[i, j] = A[i, j] * keepc
    return A


def check_pattern(case):
    out = run_case(build_pattern(case))
    return out


# ----------------------------------------------------------------------------
# clause 3: is_hessenberg / check_hessenberg against their definition

ATOLS = (None, None, 1e-12, 1e-8, 0.5, 0.0, 1e3)


@st.composite
def predicate_cases(draw, tier):
    m = draw(st.integers(1, 6))
    n = m if draw(st.integers(0, 3)) else draw(st.integers(1, 6))
    atol = draw(st.sampled_from(ATOLS))
    at = 1e-12 if atol is None else atol
    base, _ = draw(gen.qarray(m, n, draw(st.sampled_from(("generic", "int", "sparse")))))
    H = base.copy()
    # per-entry class: 0 exact zero, 1 negligible (all comps <= atol/2), 2 one comp just above (>= 2 atol),
    # 3 keep the O(1) base entry (if it is >= 2 atol in some component, else exact zero)
    mode = draw(st.sampled_from(["clean", "clean", "mixed", "mixed", "all_big", "one_big"]))
    cls = np.zeros((m, n), dtype=int)
    low = [(i, j) for i in range(m) for j in range(n) if i > j + 1]
    if mode == "all_big":
        for (i, j) in low:
            cls[i, j] = 3
    else:
        for (i, j) in low:
            cls[i, j] = draw(st.integers(0, 1)) if mode in ("clean", "one_big") else draw(st.integers(0, 3))
        if mode == "one_big" and low:
            i, j = draw(st.sampled_from(low))
            cls[i, j] = draw(st.sampled_from([2, 2, 3]))
    for (i, j) in low:
        c = cls[i, j]
        if c == 0:
            H[i, j] = 0.0
        elif c == 1:
            ks = draw(st.lists(st.integers(-16, 16), min_size=4, max_size=4))
            H[i, j] = np.array(ks, dtype=float) / 32.0 * at
        elif c == 2:
            ks = draw(st.lists(st.integers(-16, 16), min_size=4, max_size=4))
            v = np.array(ks, dtype=float) / 32.0 * at
            comp = draw(st.integers(0, 3))
            big = (2.0 + draw(st.integers(0, 32)) / 16.0) * at if at > 0 else 2.0 ** -draw(st.integers(1, 60))
            v[comp] = big * draw(st.sampled_from([1.0, -1.0]))
            H[i, j] = v
        else:
            if not np.any(np.abs(H[i, j]) >= 2.0 * at) or not np.any(H[i, j] != 0.0):
                H[i, j] = 0.0
                cls[i, j] = 0
    # entries on/above the first sub-diagonal may be negligible too: they must be left alone
    if draw(st.booleans()):
        for _ in range(draw(st.integers(1, 3))):
            i = draw(st.integers(0, m - 1))
            j = draw(st.integers(0, n - 1))
            if i <= j + 1:
                ks = draw(st.lists(st.integers(-16, 16), min_size=4, max_size=4))
                H[i, j] = np.array(ks, dtype=float) / 32.0 * (at if at > 0 else 1e-20)
    return {"H": np.ascontiguousarray(H), "cls": cls.astype(float), "atol": atol, "mode": mode}


def check_predicates(case):
    H = np.ascontiguousarray(np.asarray(case["H"], dtype=float))
    cls = np.asarray(case["cls"]).astype(int)
    atol = case["atol"]
    at = 1e-12 if atol is None else float(atol)
    m, n = H.shape[:2]
    kw = {} if atol is None else {"atol": atol}
    low = [(i, j) for i in range(m) for j in range(n) if i > j + 1]
    # classes are recomputed from H (the case stores them only for readability / shrinking)
    negl = {}
    for (i, j) in low:
        v = np.abs(H[i, j])
        if np.all(v <= 0.5 * at):
            negl[(i, j)] = True
        elif np.any(v >= 2.0 * at) and np.any(v > 0):
            negl[(i, j)] = False
        else:
            negl[(i, j)] = None          # ambiguous band: never generated, no demand
    expect_hess = all(v is True for v in negl.values())
    decidable = all(v is not None for v in negl.values())
    shape_tag = "square" if m == n else "rectangular"
    out = Out(tags=(shape_tag, "default_atol" if atol is None else f"atol={atol:g}",
                    "expect_hessenberg" if expect_hess else "expect_not_hessenberg"))
    out.label(shape_tag, "mode=" + str(case.get("mode")), "atol=" + ("default" if atol is None else f"{atol:g}"),
              "expect_hessenberg" if expect_hess else "expect_not_hessenberg")
    if not low:
        out.label("no_entries_below_subdiagonal")
    Hq = Q(H)
    h0 = ahash(Hq)
    hb = L.hessenberg
    ok, r = out.call("is_hessenberg", hb.is_hessenberg, Hq, **kw)
    if ok and decidable:
        out.true("is_hessenberg:definition", bool(r) == expect_hess,
                 f"returned {r!r}, expected {expect_hess} (atol={at:g})")
    out.true("is_hessenberg:argument unchanged", ahash(Hq) == h0, "input modified")
    ok, Cq = out.call("check_hessenberg", hb.check_hessenberg, Hq, **kw)
    if ok:
        out.true("check_hessenberg:argument unchanged", ahash(Hq) == h0, "input modified")
        if out.true("check_hessenberg:shape", getattr(Cq, "shape", None) == (m, n)
                    and getattr(Cq, "dtype", None) == np.quaternion, "wrong shape/dtype"):
            out.true("check_hessenberg:result does not alias the input", not np.shares_memory(Cq, Hq),
                     "result shares memory with the argument")
            C = F(Cq)
            bad_kept, bad_zeroed = [], []
            for i in range(m):
                for j in range(n):
                    st_ = negl.get((i, j), False)      # not below the sub-diagonal => must be kept
                    if st_ is True:
                        if np.any(C[i, j] != 0.0):
                            bad_kept.append((i, j))
                    elif st_ is False:
                        if not np.array_equal(C[i, j], H[i, j]):
                            bad_zeroed.append((i, j))
            out.true("check_hessenberg:negligible entries below the sub-diagonal become exact zeros",
                     not bad_kept, f"entries {bad_kept[:4]} (all components <= atol/2) not zeroed")
            out.true("check_hessenberg:every other entry is kept bit-for-bit", not bad_zeroed,
                     f"entries {bad_zeroed[:4]} changed")
            ok2, r2 = out.call("is_hessenberg(check_hessenberg(H))", hb.is_hessenberg, Cq, **kw)
            if ok2 and decidable:
                out.true("is_hessenberg:same verdict after clean-up", bool(r2) == expect_hess,
                         f"is_hessenberg(check_hessenberg(H))={r2!r}, expected {expect_hess}")
    out.nontrivial = len(low) >= 1 and any(v is True and np.any(H[ij] != 0.0) for ij, v in negl.items()) \
        or any(v is False for v in negl.values())
    return out


PROPERTY = Property(
    id="C09",
    title="Hessenberg reduction is a unitary similarity to upper Hessenberg form",
    rule=("reduction clauses: n >= 3 and (A is not already upper Hessenberg, or some reduced column k <= n-3 has "
          "an exactly zero sub-column A[k+1:, k], which drives the alpha == 0 reflector branch); predicate clause: "
          "at least one entry below the first sub-diagonal that is non-zero (negligible or not). "
          "Distinct = distinct input digest."),
    clauses=[
        Clause("reduction_generated", check_generated, strategy=reduction_cases,
               budget={"quick": 6000, "thorough": 80000}),
        Clause("reduction_moderate_size", check_generated, strategy=lambda tier: reduction_cases(tier, size=(9, 20 if tier == "quick" else 40)),
               budget={"quick": 40, "thorough": 400}, shrink=False),
        Clause("reduction_long_dimension", check_generated, strategy=long_reduction_cases, budget={"quick": 16, "thorough": 160},
               shrink=False),
        Clause("zero_pattern_exhaustive", check_pattern, enumerate=enum_zero_patterns,
               budget={"quick": 0, "thorough": 0}),
        Clause("predicates", check_predicates, strategy=predicate_cases, budget={"quick": 1600, "thorough": 12000}),
    ],
    assumptions=[
        "numpy-quaternion dtype conversions (as_quat_array/as_float_array) are trusted",
        "all products/norms use the harness's Hamilton table (qv/ref.py); singular values and Hermitian eigenvalues "
        "come from LAPACK on the harness's complex adjoint chi_c",
        "magnitudes: entries k/16 (|k| <= 160) or small integers, scaled by 10^e, e in [-8, 8] (uniformly, per row "
        "or per column); no overflow/underflow claims outside that window",
        "structure is demanded relative to ||A||_F (C_LOW*n*u*||A||_F), never via the library's absolute 1e-12",
        "is_hessenberg/check_hessenberg are only judged away from the ambiguous band atol/2 < |component| < 2 atol",
    ],
    exhaustive_note=("zero_pattern_exhaustive enumerates ALL 2^(n(n-1)/2) zero patterns of the strictly lower "
                     "triangle for n = 3, 4, 5 (thorough: also n = 6, 32768 patterns), dense hash-valued upper part, "
                     "several value draws incl. single-axis lower parts"),
)
