"""C12 - randomized Q-SVDs: orthonormal factors, interlacing values, exact on low rank."""
import numpy as np
from hypothesis import strategies as st

from .. import gen, ref
from ..core import Clause, Out, Property
from ..env import L
from ..lib import F, Q, ahash, case_flag

U_ = ref.U
C_ORTH = 500.0
RANK_REL = 1e-10
REP_REL = 1e-6
NEAR_REL = 0.05
ORTH_FLOOR = 1e-8   # allowance for a chance near-coincidence of two singular values of the random compression


@st.composite
def rsvd_cases(draw, tier, size=None):
    lo_, hi = size or (1, 8 if tier == "quick" else 10)
    m, n = draw(st.integers(lo_, hi)), draw(st.integers(lo_, hi))
    m, n = draw(gen.maybe_high_aspect(m, n))
    k = min(m, n)
    src = draw(st.sampled_from(["spectrum", "spectrum", "lowrank", "lowrank", "pattern"]))
    if src == "spectrum":
        s, skind = draw(gen.spectrum(k, kinds=("distinct", "geometric", "clustered", "repeated", "allequal")))
        A = draw(gen.matrix_with_svals(m, n, s))
        kind = "spectrum:" + skind
    elif src == "lowrank":
        r = draw(st.integers(0, k))
        s = np.zeros(k)
        if r:
            s[:r], _ = draw(gen.spectrum(r, kinds=("distinct", "geometric"), cond_max=1e3))
        A = draw(gen.matrix_with_svals(m, n, s))
        kind = f"lowrank"
    else:
        A, pat = draw(gen.qarray(m, n, draw(st.sampled_from(["generic", "int", "sparse", "pure_imag"]))))
        kind = "pattern:" + pat
    R = draw(st.integers(1, k))
    algo = draw(st.sampled_from(["rand_qsvd", "pass_eff_qsvd"]))
    force = {}
    if n >= 3 and draw(st.integers(0, 7)) == 0:
        # an EARLY column depends on its predecessor(s), independent columns follow (column order matters to any
        # unpivoted factorisation of the raw columns); default-sized sketch, two passes
        A = draw(gen.qarray(m, n, draw(st.sampled_from(["generic", "int"]))))[0].copy()
        A[:, 1] = ref.qmul(A[:, 0], draw(gen.unit_q(exact=True)).reshape(1, 4))
        kind = "dependent_early_column"
        R = draw(st.integers(1, max(1, min(m, n - 1))))
        force = {"oversample": 10, "n_passes": 2, "n_iter": draw(st.sampled_from([0, 2]))}
    A = A * 10.0 ** draw(st.sampled_from([0, 0, 0, 0, -12, -9, -4, 4, 9]))     # the property is scale free
    case = {"A": np.ascontiguousarray(A), "kind": kind, "R": R, "algo": algo,
            "oversample": draw(st.sampled_from([0, 1, 2, 3, 5, 10])),
            "n_iter": draw(st.integers(0, 3)), "n_passes": draw(st.integers(2, 5)),
            "seed": draw(gen.seeds())}
    case.update(force)
    return case


LONG_DIMS = (63, 64, 65, 127, 129, 200, 255, 256, 257, 300, 511, 513, 600)


@st.composite
def long_cases(draw, tier):
    """One LONG dimension (crossing the usual blocking sizes 64/128/256/512) against a short one: the property's
    "every shape" includes the thin image / signal matrices of the demos.  Entries come from a PRNG seeded with a drawn
    integer (thousands of entries drawn one by one would be the whole budget); the case stores the matrix itself."""
    Lg = draw(st.sampled_from(LONG_DIMS)) + draw(st.sampled_from([0, 0, 1, 7]))
    sh = draw(st.integers(1, 4))
    r = draw(st.integers(max(1, sh - 1), sh))
    if draw(st.integers(0, 2)) == 0:
        sh = draw(st.integers(8, 24))                 # a "short" side that is still well above the rank
        r = draw(st.integers(2, 4))
    rng = np.random.RandomState(draw(gen.seeds()))
    B = rng.standard_normal((Lg, r, 4))
    C = rng.standard_normal((r, sh, 4))
    # graded columns so the spectrum is simple and well separated (outside the known-finding classes)
    A = ref.qmm(B * (2.0 ** -np.arange(r))[None, :, None], C)
    dominant = False
    isolated = draw(st.integers(0, 2)) == 0
    if isolated and draw(st.integers(0, 2)) > 0:
        sh = draw(st.integers(8, 24))                 # short side above the sketch width: the sketch has to FIND the lines
        r = draw(st.integers(2, 4))
        B = rng.standard_normal((Lg, r, 4))
        C = rng.standard_normal((r, sh, 4))
    if isolated:
        # the same rank carried by r isolated rows of a long matrix whose other rows are exactly zero (after the
        # optional transposition below: r isolated columns): structured sketches must not lose such data
        A = np.zeros((Lg, sh, 4))
        rows = draw(st.lists(st.integers(0, Lg - 1), min_size=r, max_size=r, unique=True))
        for t, i in enumerate(rows):
            A[i] = C[t] * 2.0 ** -t
    if sh >= 8 and not isolated and draw(st.integers(0, 1)) == 0:
        # one dominant singular value (a common offset on top of full-rank unit noise): the small singular values are
        # well separated from each other but tiny relative to sigma_1
        off = draw(st.sampled_from([1e5, 1e6, 1e7, 1e7]))
        A = off * np.stack([np.ones((Lg, sh)), np.zeros((Lg, sh)), np.zeros((Lg, sh)), np.zeros((Lg, sh))], axis=-1) \
            + rng.standard_normal((Lg, sh, 4))
        r = sh
        dominant = True
    if draw(st.sampled_from([False, True] if not dominant else [False, False, True])):
        A = np.ascontiguousarray(ref.conjT(A))
    R = r if draw(st.integers(0, 2)) else draw(st.integers(r, min(sh, r + 3)))     # rank == R is outside the known-finding class
    if r == sh and sh >= 8:
        R = draw(st.integers(2, 4))
    A = A * 10.0 ** draw(st.sampled_from([0, 0, -6, 5]))
    # structured data favours the option values that hand the RAW sketch to the factorisations (no power iterations,
    # the default two passes)
    return {"A": np.ascontiguousarray(A), "kind": f"long:rank{r}" + (":isolated_lines" if isolated else "") + (":dominant_sigma" if dominant else ""),
            "R": R,
            "algo": draw(st.sampled_from(["rand_qsvd", "rand_qsvd", "pass_eff_qsvd"] if isolated else
                                         (["rand_qsvd", "pass_eff_qsvd", "pass_eff_qsvd"] if dominant else ["rand_qsvd", "pass_eff_qsvd"]))),
            "oversample": draw(st.sampled_from([0, 0, 1, 2, 5, 10])),
            "n_iter": draw(st.sampled_from([0, 0, 0, 0, 0, 1] if isolated else [0, 0, 0, 1, 2, 3])),
            "n_passes": draw(st.sampled_from([2, 2, 2, 3, 4, 5] if dominant else [2, 3, 4, 5])),
            "seed": draw(gen.seeds())}


def check_rsvd(case):
    A, R, algo, P = case["A"], case["R"], case["algo"], case["oversample"]
    m, n, _ = A.shape
    k = min(m, n)
    sref = ref.svals(A)
    s1 = float(sref[0]) if k else 0.0
    rank = int(np.sum(sref > RANK_REL * s1)) if s1 > 0 else 0
    an = ref.fro(A)
    tags = []
    if 0 < rank < R:
        tags.append("0<rank<R")
    if 0 < rank < R + P:
        tags.append("0<rank<R+P")
    if rank == 0:
        tags.append("rank0")
    nzv = sref[:rank]
    gaps = [float(nzv[i] - nzv[i + 1]) for i in range(rank - 1)]
    if any(g <= REP_REL * s1 for g in gaps):
        tags.append("rep_nonzero")
    if any(REP_REL * s1 < g <= NEAR_REL * s1 for g in gaps):
        tags.append("near_repeated_nonzero")
    big = [g for g in gaps if g > REP_REL * s1] + ([float(nzv[-1])] if rank else [])
    amp = max(1.0, s1 / min(big)) if big else 1.0
    out = Out(tags=tuple(tags))
    out.label(algo, case["kind"], f"P={P}")
    if R + P > k:
        out.label("sketch_wider_than_matrix")
    if rank < k:
        out.label("rank_deficient")
    if rank <= R:
        out.label("rank<=R")
    Aq = Q(A)
    h0 = ahash(Aq)
    np.random.seed(case["seed"])
    if algo == "rand_qsvd":
        site = "rand_qsvd"
        if P == 10 and case["n_iter"] == 2:
            ok, r = out.call(site, L.qsvd.rand_qsvd, Aq, R)                       # the documented defaults, not spelled out
            out.label("default_call_form")
        elif case_flag(A, 3):
            ok, r = out.call(site, L.qsvd.rand_qsvd, Aq, R, P, case["n_iter"])     # positional form
        else:
            ok, r = out.call(site, L.qsvd.rand_qsvd, Aq, R, oversample=P, n_iter=case["n_iter"])
        out.label(f"n_iter={case['n_iter']}")
    else:
        site = "pass_eff_qsvd"
        if P == 10 and case["n_passes"] == 2:
            ok, r = out.call(site, L.qsvd.pass_eff_qsvd, Aq, R)
            out.label("default_call_form")
        elif case_flag(A, 3):
            ok, r = out.call(site, L.qsvd.pass_eff_qsvd, Aq, R, P, case["n_passes"])
        else:
            ok, r = out.call(site, L.qsvd.pass_eff_qsvd, Aq, R, oversample=P, n_passes=case["n_passes"])
        out.label(f"n_passes={case['n_passes']}")
    if not ok:
        return out
    out.true(site + ":argument unchanged", ahash(Aq) == h0, "input modified")
    try:
        Uf, s, Vf = F(r[0]), np.asarray(r[1], dtype=float), F(r[2])
    except Exception as e:  # noqa: BLE001
        out.true(site + ":returns (U, s, V)", False, f"{type(e).__name__}: {e}")
        return out
    if not out.true(site + ":shapes", Uf.shape == (m, R, 4) and Vf.shape == (n, R, 4) and s.shape == (R,),
                    f"U {Uf.shape} s {s.shape} V {Vf.shape}, expected ({m},{R}) ({R},) ({n},{R})"):
        return out
    if not out.true(site + ":finite", np.all(np.isfinite(Uf)) and np.all(np.isfinite(Vf)) and np.all(np.isfinite(s))):
        return out
    slack = 1e3 * (m + n) * U_
    du, dv = ref.unitarity_defect(Uf), ref.unitarity_defect(Vf)
    obound = max(C_ORTH * (m + n) * U_ * amp, ORTH_FLOOR)
    out.le(site + ":U orthonormal columns", du, obound)
    out.le(site + ":V orthonormal columns", dv, obound)
    if ("rep_nonzero" in tags or "near_repeated_nonzero" in tags) and "0<rank<R" not in tags and rank >= 1:
        # inside the known-finding class KF-C12-2 the loss follows u * sigma_1 / (smallest gap of the non-zero singular
        # values, the last one's distance to zero included); orders of magnitude beyond that law is a different defect
        allg = [float(nzv[i] - nzv[i + 1]) for i in range(rank - 1)] + [float(nzv[-1])]
        gmin = min(allg)
        if gmin > 1e-13 * s1:
            law = C_ORTH * (m + n) * U_ * s1 / gmin
            out.le(site + ":U orthonormal up to the u*sigma_1/gap law", du, max(law, ORTH_FLOOR), f"sigma_1/gap={s1 / gmin:.2e}", tags=())
            out.le(site + ":V orthonormal up to the u*sigma_1/gap law", dv, max(law, ORTH_FLOOR), f"sigma_1/gap={s1 / gmin:.2e}", tags=())
    out.true(site + ":s non-negative", np.all(s >= 0), f"{s}")
    out.le(site + ":s non-increasing", float(np.max(np.diff(s))) if R > 1 else 0.0, slack * s1 + 1e-300)
    out.le(site + ":interlacing s_i <= sigma_i", float(np.max(s - sref[:R])), slack * s1 + 1e-300,
           f"s={s[:4]} sigma={sref[:4]}")
    rec = ref.qmm(ref.scale_cols(Uf, s), ref.conjT(Vf))
    err2 = ref.fro(A - rec) ** 2
    opt2 = float(np.sum(sref[R:] ** 2))
    # the two error bounds are consequences of orthonormal factors: judge them only with the factors' own defect accounted
    infl = (1 + du) * (1 + dv)
    out.le(site + ":error at least the Eckart-Young optimum", opt2 * (1 - 1e-9) - slack * an * an, err2,
           f"err^2={err2:.6e} opt^2={opt2:.6e}")
    out.le(site + ":error at most ||A||_F", err2, an * an * (1 + slack) * infl * infl + 1e-300,
           f"err^2={err2:.6e} ||A||^2={an * an:.6e}")
    if rank <= R and rank > 0:
        kap = s1 / float(sref[rank - 1])
        # sqrt(opt2): what the harness's rank classification treated as zero (singular values below its threshold, e.g.
        # a second entry 1e-10 times the first) is still part of the matrix, and no rank-R factorisation can remove it
        # (false-alarm log 8.3 item 14)
        out.le(site + ":exact when rank(A) <= R", np.sqrt(err2),
               (1e3 * (m + n) * U_ * kap + 10 * max(du, dv)) * an + 2.0 * np.sqrt(opt2),
               f"rank={rank} R={R} kappa={kap:.2e}")
    if rank == 0:
        out.le(site + ":zero matrix", np.sqrt(err2), 0.0 + 1e-300)
    out.nontrivial = (R + P > k) or (rank < k) or k <= 3
    out.sample = {"shape": [m, n], "R": R, "P": P, "algo": algo, "rank": rank, "seed": case["seed"]}
    return out


# ----------------------------------------------------------------------------
# clause: sketches wider than 32 columns (R + oversample = 33..46 on matrices with both dimensions above that), and
# extreme overall magnitudes (1e+-160 .. 1e+-250: representable values whose squares are not).  Inputs have EXACTLY
# rank R with prescribed, well separated singular values 0.8^t and exactly orthonormal quaternion factors (two PRNG
# Householder reflectors each), i.e. they lie outside every known-finding class; the library sees A * 2^p, the oracle A.


@st.composite
def wide_sketch_cases(draw, tier):
    extreme = draw(st.integers(0, 2)) == 0
    if extreme:
        m, n, R = draw(st.integers(4, 12)), draw(st.integers(4, 12)), draw(st.integers(1, 4))
        P = draw(st.sampled_from([0, 2, 10]))
        e10 = draw(st.sampled_from([-250, -200, -160, 160, 200, 250]))
    else:
        R = draw(st.integers(24, 34))
        P = draw(st.sampled_from([10, 10, 12]))
        m, n = draw(st.integers(R + P + 1, 90)), draw(st.integers(R + P + 1, 70))
        e10 = 0
    R = min(R, m, n)
    return {"m": m, "n": n, "R": R, "P": P, "p": int(round(e10 * np.log2(10.0))), "mseed": draw(gen.seeds()),
            "algo": draw(st.sampled_from(["rand_qsvd", "pass_eff_qsvd"])), "n_iter": draw(st.sampled_from([0, 1, 2])),
            "n_passes": draw(st.sampled_from([2, 3, 4])), "seed": draw(gen.seeds())}


def check_wide_sketch(case):
    m, n, R, P, p = case["m"], case["n"], case["R"], case["P"], case["p"]
    out = Out()
    rng = np.random.RandomState(case["mseed"])

    def factor(k):
        Qm = ref.qeye(k)
        for _ in range(2):
            u = np.round(rng.uniform(-1.0, 1.0, (k, 4)) * 32.0) / 32.0
            if not u.any():
                u[0, 0] = 1.0
            Qm = ref.qmm(gen.householder(u), Qm)
        return Qm

    sv = 0.8 ** np.arange(R)
    A = ref.qmm(ref.scale_cols(factor(m)[:, :R], sv), ref.conjT(factor(n)[:, :R]))
    an = ref.fro(A)
    Aq = Q(np.ldexp(A, p))
    h0 = ahash(Aq)
    out.label(case["algo"], "extreme_scale" if p else "wide_sketch", f"R+P={R + P}")
    np.random.seed(case["seed"])
    if case["algo"] == "rand_qsvd":
        site = "rand_qsvd(exact rank R)"
        ok, r = out.call(site, L.qsvd.rand_qsvd, Aq, R, oversample=P, n_iter=case["n_iter"])
    else:
        site = "pass_eff_qsvd(exact rank R)"
        ok, r = out.call(site, L.qsvd.pass_eff_qsvd, Aq, R, oversample=P, n_passes=case["n_passes"])
    out.true(site + ":argument unchanged", ahash(Aq) == h0, "input modified")
    if not ok:
        return out
    if not out.true(site + ":returns (U, s, V)", isinstance(r, tuple) and len(r) == 3, repr(type(r))):
        return out
    Uf, s, Vf = F(r[0]), np.asarray(r[1], dtype=float), F(r[2])
    if not out.true(site + ":shapes", Uf.shape == (m, R, 4) and s.shape == (R,) and Vf.shape == (n, R, 4), f"{Uf.shape} {s.shape} {Vf.shape}"):
        return out
    if not out.true(site + ":finite", bool(np.all(np.isfinite(s)) and np.all(np.isfinite(Uf)) and np.all(np.isfinite(Vf))), f"s={s[:4]}"):
        return out
    sb = np.ldexp(s, -p)
    tol = 1e-8          # the clean library is at 1e-13 here (well separated spectrum, cond 0.8^-R <= 2e3)
    out.le(site + ":U orthonormal columns", ref.unitarity_defect(Uf), tol)
    out.le(site + ":V orthonormal columns", ref.unitarity_defect(Vf), tol)
    out.true(site + ":s non-negative, non-increasing", bool(np.all(sb >= 0) and np.all(np.diff(sb) <= tol)), f"{sb[:6]}")
    out.le(site + ":interlacing s_i <= sigma_i", float(np.max(sb - sv)), tol)
    rec = ref.qmm(ref.scale_cols(Uf, sb), ref.conjT(Vf))
    out.le(site + ":exact when rank(A) <= R", ref.fro(A - rec), tol * an, f"R={R} P={P} shape {m}x{n}")
    out.nontrivial = True
    out.sample = {"shape": [m, n], "R": R, "P": P, "p": p, "algo": case["algo"]}
    return out


PROPERTY = Property(
    id="C12",
    title="Randomized Q-SVDs: orthonormal factors, interlacing values, exact on low rank",
    rule="R + oversample > min(m,n), or rank(A) < min(m,n), or min(m,n) <= 3",
    clauses=[Clause("rsvd", check_rsvd, strategy=rsvd_cases, budget={"quick": 1200, "thorough": 16000}),
             Clause("rsvd_moderate_size", check_rsvd, strategy=lambda tier: rsvd_cases(tier, size=(11, 24 if tier == "quick" else 40)),
                    budget={"quick": 40, "thorough": 400}, shrink=False),
             Clause("rsvd_long_dimension", check_rsvd, strategy=long_cases, budget={"quick": 320, "thorough": 3200},
                    shrink=False),
             Clause("rsvd_wide_sketch_extreme_scale", check_wide_sketch, strategy=wide_sketch_cases,
                    budget={"quick": 12, "thorough": 150}, shrink=False)],
    assumptions=[
        "the library's global numpy RNG is seeded by the harness with a generated integer right before each call",
        "only deterministic consequences are checked on every draw (shapes, orthonormality, interlacing, error sandwich, "
        "exactness when rank(A) <= R)",
        "input-class tags (0<rank<R, 0<rank<R+P, rank0) from the reference spectrum of the input",
    ],
)
