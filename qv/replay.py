"""Bit-exact (float.hex) JSON serialisation of generated cases and replay files."""
import hashlib
import json

import numpy as np


def encode(obj):
    if obj is None or isinstance(obj, (bool, str)):
        return obj
    if isinstance(obj, (int, np.integer)):
        return int(obj)
    if isinstance(obj, (float, np.floating)):
        return {"__f": float(obj).hex()}
    if isinstance(obj, (complex, np.complexfloating)):
        return {"__c": [float(obj.real).hex(), float(obj.imag).hex()]}
    if isinstance(obj, np.ndarray):
        if obj.dtype.kind in "iub":
            return {"__a": "i", "shape": list(obj.shape), "data": [int(v) for v in obj.ravel()]}
        if obj.dtype.kind == "c":
            return {
                "__a": "c",
                "shape": list(obj.shape),
                "data": [[float(v.real).hex(), float(v.imag).hex()] for v in obj.ravel()],
            }
        if obj.dtype.kind == "f":
            return {"__a": "f", "shape": list(obj.shape), "data": [float(v).hex() for v in obj.ravel()]}
        raise TypeError(f"cannot encode array dtype {obj.dtype}")
    if isinstance(obj, dict):
        return {"__d": [[encode(k), encode(v)] for k, v in obj.items()]}
    if isinstance(obj, tuple):
        return {"__t": [encode(v) for v in obj]}
    if isinstance(obj, list):
        return [encode(v) for v in obj]
    raise TypeError(f"cannot encode {type(obj)}")


def decode(obj):
    if isinstance(obj, list):
        return [decode(v) for v in obj]
    if isinstance(obj, dict):
        if "__f" in obj:
            return float.fromhex(obj["__f"])
        if "__c" in obj:
            return complex(float.fromhex(obj["__c"][0]), float.fromhex(obj["__c"][1]))
        if "__a" in obj:
            kind = obj["__a"]
            shape = tuple(obj["shape"])
            if kind == "i":
                return np.array(obj["data"], dtype=np.int64).reshape(shape)
            if kind == "f":
                return np.array([float.fromhex(v) for v in obj["data"]], dtype=float).reshape(shape)
            if kind == "c":
                return np.array(
                    [complex(float.fromhex(a), float.fromhex(b)) for a, b in obj["data"]], dtype=complex
                ).reshape(shape)
        if "__d" in obj:
            return {_hashable(decode(k)): decode(v) for k, v in obj["__d"]}
        if "__t" in obj:
            return tuple(decode(v) for v in obj["__t"])
        raise TypeError(f"cannot decode {obj!r}")
    return obj


def _hashable(k):
    return tuple(k) if isinstance(k, list) else k


def digest(case):
    return hashlib.sha1(json.dumps(encode(case), sort_keys=True).encode()).hexdigest()[:16]


def summarise(obj, maxel=24):
    """Human-readable (lossy) view of a case for evidence samples."""
    if isinstance(obj, np.ndarray):
        if obj.size <= maxel:
            return {"shape": list(obj.shape), "values": np.round(obj.astype(complex).real if obj.dtype.kind == "c" else obj, 6).tolist()
                    if obj.dtype.kind != "c" else [str(v) for v in obj.ravel()]}
        return {"shape": list(obj.shape), "min": float(np.min(np.abs(obj))), "max": float(np.max(np.abs(obj)))}
    if isinstance(obj, dict):
        return {str(k): summarise(v, maxel) for k, v in obj.items()}
    if isinstance(obj, (list, tuple)):
        if len(obj) > 12:
            return [summarise(v, maxel) for v in obj[:12]] + [f"... {len(obj) - 12} more"]
        return [summarise(v, maxel) for v in obj]
    if isinstance(obj, (np.floating, float)):
        return float(obj)
    if isinstance(obj, (np.integer,)):
        return int(obj)
    if isinstance(obj, complex):
        return str(obj)
    return obj


def write_replay(path, prop, clause, case, failure, meta=None):
    doc = {
        "property": prop,
        "clause": clause,
        "failure": failure,
        "meta": meta or {},
        "case": encode(case),
    }
    with open(path, "w") as f:
        json.dump(doc, f, indent=0)
        f.write("\n")


def read_replay(path):
    with open(path) as f:
        doc = json.load(f)
    doc["case"] = decode(doc["case"])
    return doc
