#!/venv/bin/python
"""Print the markdown table 'which check catches which seeded change' from seeded/RESULTS.json."""
import json, os, re
HERE = os.path.dirname(os.path.abspath(__file__))
rows = json.load(open(os.path.join(HERE, "seeded", "RESULTS.json")))
print("| seeded change | what it needs to manifest | repository tests | caught by | clause : site that reports it |")
print("|---|---|---|---|---|")
for r in rows:
    meta = json.load(open(os.path.join(HERE, "seeded", r["id"], "meta.json")))
    first = (r.get("quick") or {}).get("first") or (r.get("thorough") or {}).get("first") or ""
    m = re.search(r"clause=(\S+) site=(.*?) msg=", first)
    where = f"{m.group(1)} : {m.group(2)}" if m else "-"
    needs = " ".join(str(meta.get("needs", "")).split())
    if len(needs) > 220:
        needs = needs[:217] + "..."
    title = " ".join(str(meta.get("title", r.get("title", ""))).split())
    if len(title) > 160:
        title = title[:157] + "..."
    tests = {0: "pass", None: "n/a"}.get(r.get("tests_exit"), f"exit {r.get('tests_exit')}")
    esc = lambda x: str(x).replace("|", "\\|")
    print(f"| {r['id']}: {esc(title)} | {esc(needs)} | {tests} | {r['property']} {r.get('caught_by')} | {esc(where[:140])} |".replace("\n", " "))
