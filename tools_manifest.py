#!/venv/bin/python
"""Regenerate MANIFEST.json from the list of implemented property modules."""
import json, os, sys
HERE = os.path.dirname(os.path.abspath(__file__))
sys.path.insert(0, HERE)
props = [json.loads(l) for l in open(os.path.join(HERE, "properties.jsonl"))]
LEVEL = json.load(open(os.path.join(HERE, "manifest_levels.json")))
checks, na = [], []
for p in props:
    pid = p["id"]
    if pid in LEVEL["claimed"]:
        e = LEVEL["claimed"][pid]
        checks.append({
            "property_id": pid,
            "quick_cmd": f"/venv/bin/python -m qv check {pid} --tier quick",
            "thorough_cmd": f"/venv/bin/python -m qv check {pid} --tier thorough",
            "evidence_file": f"/verif/evidence/{pid}.json",
            "replay_cmd_template": "/venv/bin/python -m qv replay {path}",
            "engine": "qv",
            "level_claimed": {"category": "exploration", "text": e["text"], "design_ref": e.get("design_ref", f"DESIGN.md section 4, {pid}")},
            "level_note": e["note"],
            "technique": e["technique"],
        })
    else:
        na.append({"property_id": pid, "reason": LEVEL["not_applicable"].get(pid, "check not built yet in this session; no claim is made")})
man = {
    "version": 1,
    "setup_cmd": "(/venv/bin/python -c 'import hypothesis' 2>/dev/null || /venv/bin/pip install --no-index --find-links /opt/veriftools/wheels hypothesis) && (/venv/bin/pip install -q --no-index --find-links /opt/veriftools/wheels --target /verif/.deps atheris >/dev/null 2>&1 || echo 'atheris not installed: coverage-guided campaigns of the thorough tier will be skipped')",
    "hooks": {
        "guard": "QUATICA_VERIF",
        "enable": "no source hooks are needed: the checks import the pure-Python sources directly from /repo's working tree (flat-module style) and observe return values, exceptions and argument hashes; QUATICA_VERIF=1 is exported by the harness but read by nothing in /repo",
        "baseline_off_cmd": "cd /repo && /venv/bin/python -m pytest -ra -q -p no:cacheprovider --timeout=900 --continue-on-collection-errors",
        "source_commits": [],
        "add_only": True,
    },
    "engines": [{"name": "qv", "path": "/verif/qv", "serves_properties": [c["property_id"] for c in checks],
                 "kind_free_text": "Hypothesis 6.168 property-based testing (generated + exhaustive-enumeration clauses, stateful machine for histories) against an independent reference model (exact rational Hamilton arithmetic, own complex/real embeddings + LAPACK); 16-process sharding; float.hex replay files"}],
    "checks": checks,
    "notes": LEVEL.get("notes", ""),
    "not_applicable": na,
}
json.dump(man, open(os.path.join(HERE, "MANIFEST.json"), "w"), indent=1)
print("claimed", [c["property_id"] for c in checks]); print("not claimed", [x["property_id"] for x in na])
