#!/bin/bash
# usage: tools_soak.sh <tier> <seed> [ids...]   - runs checks sequentially, prints one summary line each (no evidence committed from here)
tier=$1; seed=$2; shift 2
ids="$@"
[ -z "$ids" ] && ids=$(/venv/bin/python -c "import json;print(' '.join(c['property_id'] for c in json.load(open('MANIFEST.json'))['checks']))")
for p in $ids; do
  out=$(VERIF_SEED=$seed QV_NPROC=${QV_NPROC:-8} QV_NO_EVIDENCE=1 QV_PRINT_MARGINS=1 QV_REPLAY_DIR=soak_replays /venv/bin/python -m qv check $p --tier $tier 2>&1)
  echo "$out" | grep -E "^\[qv\]|^VIOLATION|^  clause|HARNESS|^MARGIN" | cut -c1-400
done
