#!/bin/bash
# Regenerate every evidence file with the quick tier against /repo (run on a quiet machine), then validate.
cd /verif
rc=0
for p in $(/venv/bin/python -c "import json;print(' '.join(c['property_id'] for c in json.load(open('MANIFEST.json'))['checks']))"); do
  /venv/bin/python -m qv check $p --tier ${1:-quick} 2>&1 | grep -E "^\[qv\]|^VIOLATION|HARNESS" | cut -c1-300 || true
done
python3-vt validate.py
